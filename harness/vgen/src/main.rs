/*!
Generated-programs lane. `gen/sites.rs` is written by `bin/genlane` from the seed: a `run` function
with hundreds of macro call sites (`props!`, `evt!`, `emit!`, `tpl!`, `format!`, capture attributes …),
each followed by a call into the checkers below with the generator's expectation as plain data.
The oracle lives here (hand-written, independent of the macros); the generator only decides *what*
to write at each call site and what the site is expected to mean.
*/

#![allow(unused_imports, unused_variables, dead_code, non_snake_case, unused_mut, unused_braces)]

use std::{collections::BTreeMap, ops::ControlFlow};

use emit::{Props, Value};
use vcommon::*;

#[path = "../gen/sites.rs"]
mod sites;

/// Static description of one generated call site.
pub struct Site {
    pub id: u32,
    /// macro form, e.g. `props!`, `evt!`, `emit!`
    pub form: &'static str,
    /// attribute mix class, e.g. `key+optional`
    pub mix: &'static str,
    /// the generated source text of the call site (the replayable case)
    pub src: &'static str,
}

impl Site {
    pub fn case(&self, seed: u64) -> Json {
        json!({"site": self.id, "form": self.form, "mix": self.mix, "seed": seed, "program": self.src})
    }
}

pub fn enumerate<P: Props + ?Sized>(p: &P) -> Vec<(String, String)> {
    let mut out = Vec::new();
    let _ = p.for_each(|k, v| {
        out.push((k.get().to_string(), v.to_string()));
        ControlFlow::Continue(())
    });
    out
}

/// The C02 checks on one collection: returns problems as (signature suffix, description).
pub fn props_problems<P: Props + ?Sized>(
    p: &P,
    expected: &[(&str, &str)],
    absent: &[&str],
) -> Vec<(String, String)> {
    let mut bad = Vec::new();
    let listed = enumerate(p);

    // enumeration = expected, as multisets
    let mut a: Vec<(String, String)> = listed.clone();
    let mut b: Vec<(String, String)> = expected.iter().map(|(k, v)| (k.to_string(), v.to_string())).collect();
    a.sort();
    b.sort();
    if a != b {
        bad.push(("enumeration-vs-expected".into(), format!("enumerated {:?}, the call site means {:?}", listed, expected)));
    }

    // first-wins map from the enumeration itself
    let mut first: BTreeMap<&str, &str> = BTreeMap::new();
    let mut dup = false;
    for (k, v) in &listed {
        if first.contains_key(k.as_str()) {
            dup = true;
        } else {
            first.insert(k, v);
        }
    }
    if dup && p.is_unique() {
        bad.push(("is-unique-but-duplicate".into(), format!("is_unique() but enumerates a key twice: {:?}", listed)));
    }
    for (k, v) in &first {
        match p.get(*k) {
            Some(got) if got.to_string() == **v => {}
            Some(got) => bad.push(("get-vs-enumeration".into(), format!("get({:?}) = {:?} but enumeration yields {:?} first", k, got.to_string(), v))),
            None => bad.push(("get-misses-enumerated-key".into(), format!("get({:?}) = None but enumeration yields {:?}", k, v))),
        }
    }
    for k in absent {
        if first.contains_key(k) {
            continue;
        }
        if let Some(got) = p.get(*k) {
            bad.push(("get-finds-unenumerated-key".into(), format!("get({:?}) = {:?} but enumeration never yields it", k, got.to_string())));
        }
    }

    // break at every position
    for stop in 0..listed.len() {
        let mut calls = 0usize;
        let flow = p.for_each(|_, _| {
            calls += 1;
            if calls == stop + 1 {
                ControlFlow::Break(())
            } else {
                ControlFlow::Continue(())
            }
        });
        if calls != stop + 1 || flow != ControlFlow::Break(()) {
            bad.push(("break-not-honoured".into(), format!("visitor broke at call {} but was called {} times, for_each returned {:?}", stop + 1, calls, flow)));
            break;
        }
    }
    bad
}

pub fn check_props<P: Props>(r: &mut Report, seed: u64, site: &Site, p: &P, expected: &[(&str, &str)], absent: &[&str]) {
    r.observe("collections-checked", 3);
    r.observe("props-enumerated", expected.len() as u64);
    let erased: &dyn emit::props::ErasedProps = p;
    for (view, bad) in [
        ("value", props_problems(p, expected, absent)),
        ("ref", props_problems(&&*p, expected, absent)),
        ("erased", props_problems(erased, expected, absent)),
    ] {
        for (sig, what) in bad {
            r.violation(
                &format!("C02:gen:{}:{}", sig, site.form),
                &format!("site {} ({} {}, {} view): {}", site.id, site.form, site.mix, view, what),
                site.case(seed),
            );
        }
    }
}

pub fn check_text(r: &mut Report, seed: u64, prop: &str, site: &Site, what: &str, got: &str, expected: &str) {
    r.observe("texts-compared", 1);
    if got != expected {
        r.violation(
            &format!("{}:gen:{}:{}", prop, what, site.form),
            &format!("site {} ({} {}): {} is {:?}, the call site means {:?}", site.id, site.form, site.mix, what, got, expected),
            site.case(seed),
        );
    }
}

fn main() {
    let args = Args::parse();
    let mut r = Report::new(sites::PROPERTY, &args, sites::RULE);
    r.set("generated_sites", json!(sites::N_SITES));
    sites::run(&mut r, args.seed);
    unicode_probe(&mut r, &args);
    std::process::exit(r.finish());
}

/// The directed `emit::format!("caf\u{e9}")` site (src/bin/unicode_probe.rs), built and run by
/// `bin/genlane` on its own because it may be rejected at compile time. `--unicode-probe-text =TEXT`
/// carries what it rendered; `--unicode-probe-rejected WHY` that it did not compile.
fn unicode_probe(r: &mut Report, args: &Args) {
    if sites::PROPERTY != "C16" {
        return;
    }
    let program = "let e9 = 5; emit::format!(\"caf\\u{e9}\")";
    if let Some(text) = args.get("unicode-probe-text") {
        let text = text.strip_prefix('=').unwrap_or(text);
        r.eval();
        r.observe("texts-compared", 1);
        r.set("unicode_escape_directed_site", json!({"program": program, "rendered": text}));
        if text != "caf\u{e9}" {
            r.violation(
                "C16:gen:unicode-escape-parsed-as-hole",
                &format!("{} rendered {:?}, the Rust literal \"caf\\u{{e9}}\" is {:?}: the braces of the unicode escape were read as a hole", program, text, "caf\u{e9}"),
                json!({"site": "directed-unicode-escape", "program": program, "rendered": text, "seed": args.seed}),
            );
        }
    } else if let Some(why) = args.get("unicode-probe-rejected") {
        // a compile-time rejection is not a runtime verdict (the statement quantifies over literals the macros accept)
        r.set("unicode_escape_directed_site", json!({"program": program, "rejected_at_compile_time": why}));
    }
}

// ---------------------------------------------------------------------------
// C05: span macro forms
// ---------------------------------------------------------------------------

use std::sync::{atomic::{AtomicU64, Ordering}, Mutex};
use vcommon::rec::Captured;

pub static SPAN_EVENTS: Mutex<Vec<Captured>> = Mutex::new(Vec::new());

fn span_emitter(evt: emit::Event<&dyn emit::props::ErasedProps>) {
    SPAN_EVENTS.lock().unwrap_or_else(|e| e.into_inner()).push(Captured::of(&evt));
}

pub struct StepClock;
static STEP_CLOCK: AtomicU64 = AtomicU64::new(1_000_000_000);
impl emit::Clock for StepClock {
    fn now(&self) -> Option<emit::Timestamp> {
        Some(vcommon::rec::ts_from_nanos(STEP_CLOCK.fetch_add(1_000, Ordering::SeqCst)))
    }
}

pub struct SeqRng;
static SEQ_RNG: AtomicU64 = AtomicU64::new(1);
impl emit::Rng for SeqRng {
    fn fill<A: AsMut<[u8]>>(&self, mut arr: A) -> Option<A> {
        let n = SEQ_RNG.fetch_add(1, Ordering::SeqCst);
        let buf = arr.as_mut();
        for b in buf.iter_mut() {
            *b = 0;
        }
        let len = buf.len().min(8);
        buf[..len].copy_from_slice(&n.to_le_bytes()[..len]);
        Some(arr)
    }
}

pub type SpanRt = emit::runtime::Runtime<emit::emitter::FromFn, emit::Empty, emit::platform::thread_local_ctxt::ThreadLocalCtxt, StepClock, SeqRng>;

pub static SRT: SpanRt = emit::runtime::Runtime::build(
    emit::emitter::FromFn::new(span_emitter),
    emit::Empty,
    emit::platform::thread_local_ctxt::ThreadLocalCtxt::shared(),
    StepClock,
    SeqRng,
);

pub fn as_err(err: &std::io::Error) -> &(dyn std::error::Error + 'static) {
    err
}

pub fn span_events_take() -> Vec<Captured> {
    std::mem::take(&mut *SPAN_EVENTS.lock().unwrap_or_else(|e| e.into_inner()))
}

/// Minimal executor for the generated async span functions.
pub fn block_on<F: std::future::Future>(fut: F) -> F::Output {
    use std::task::{Context, Poll, RawWaker, RawWakerVTable, Waker};
    fn raw() -> RawWaker {
        fn clone(_: *const ()) -> RawWaker {
            raw()
        }
        fn noop(_: *const ()) {}
        static VT: RawWakerVTable = RawWakerVTable::new(clone, noop, noop, noop);
        RawWaker::new(std::ptr::null(), &VT)
    }
    let waker = unsafe { Waker::from_raw(raw()) };
    let mut cx = Context::from_waker(&waker);
    let mut fut = std::pin::pin!(fut);
    loop {
        if let Poll::Ready(v) = fut.as_mut().poll(&mut cx) {
            return v;
        }
    }
}

/// A future that is Pending once (so async spans are suspended between polls).
pub struct YieldOnce(pub bool);
impl std::future::Future for YieldOnce {
    type Output = ();
    fn poll(mut self: std::pin::Pin<&mut Self>, _: &mut std::task::Context<'_>) -> std::task::Poll<()> {
        if self.0 {
            std::task::Poll::Ready(())
        } else {
            self.0 = true;
            std::task::Poll::Pending
        }
    }
}

/// Poll `fut` up to `k` times, then drop it wherever it is suspended. Returns whether it finished.
pub fn poll_then_drop<F: std::future::Future>(fut: F, k: u32) -> bool {
    let mut cx = std::task::Context::from_waker(std::task::Waker::noop());
    let mut fut = std::pin::pin!(fut);
    for _ in 0..k {
        if fut.as_mut().poll(&mut cx).is_ready() {
            return true;
        }
    }
    false
}

/// A span site whose future was polled `k` times and then dropped (cancelled). `e` describes the
/// span event a DROP must produce (default completion: the attribute's level, no err). With
/// `nested` the body awaits `inner(9)` (a plain `#[span]` async fn with one yield) between its two
/// yields: 1 poll = outer suspended at its first yield, 2 = inside the inner span (both frames are
/// dropped at once), 3 = inner finished, outer at its second yield.
pub fn check_span_cancelled(r: &mut Report, seed: u64, site: &Site, evts: &[Captured], e: &SpanExpect, k: u32, nested: bool, finished: bool, ambient_after: usize) {
    r.observe("span-invocations", 1);
    r.observe("span-events", evts.len() as u64);
    r.observe(&format!("cancelled-after-{}-polls", k), 1);
    let mut bad: Vec<(String, String)> = Vec::new();
    if finished {
        bad.push(("generator:finished-or-panicked".into(), "the future finished (or panicked) before it could be dropped".into()));
    }
    let inner: Vec<&Captured> = evts.iter().filter(|c| c.get("span_name") == Some("inner {z}")).collect();
    let outer: Vec<&Captured> = evts.iter().filter(|c| c.get("span_name") != Some("inner {z}")).collect();
    let want_outer = if e.enabled && k >= 1 { 1 } else { 0 };
    let want_inner = if nested && k >= 2 { 1 } else { 0 };
    if outer.len() != want_outer || inner.len() != want_inner {
        bad.push((
            "completion-count".into(),
            format!("{} span event(s) of the cancelled fn and {} of the nested one, expected {} and {}", outer.len(), inner.len(), want_outer, want_inner),
        ));
    }
    if ambient_after != 0 {
        bad.push(("ambient-left-behind".into(), format!("{} ambient properties visible after the future was dropped", ambient_after)));
    }
    if let (1, Some(evt)) = (want_outer, outer.first()) {
        r.observe("cancelled-span-events-judged", 1);
        if evt.msg != e.msg {
            bad.push(("message".into(), format!("span message {:?}, expected {:?}", evt.msg, e.msg)));
        }
        if evt.get("evt_kind") != Some("span") {
            bad.push(("kind".into(), format!("evt_kind {:?}", evt.get("evt_kind"))));
        }
        match evt.extent {
            Some((Some(s), t)) if s <= t => {}
            other => bad.push(("extent".into(), format!("extent {:?} is not a forward range (start .. drop)", other))),
        }
        if evt.get("lvl") != e.lvl {
            bad.push(("level".into(), format!("lvl {:?}, a dropped span gets {:?} (no panic level)", evt.get("lvl"), e.lvl)));
        }
        if evt.get("err").is_some() {
            bad.push(("error".into(), format!("err {:?} on a span that was dropped, not panicked", evt.get("err"))));
        }
        for (key, v) in e.props {
            if evt.get(key) != Some(*v) {
                bad.push(("props-missing".into(), format!("property {:?} is {:?}, expected {:?}", key, evt.get(key), v)));
            }
        }
        for key in ["trace_id", "span_id"] {
            if evt.get(key).is_none() {
                bad.push(("ids-missing".into(), format!("the cancelled span carries no {}", key)));
            }
        }
    }
    if let (1, Some(i)) = (want_inner, inner.first()) {
        r.observe("cancelled-span-events-judged", 1);
        if i.get("z") != Some("9") || i.get("trace_id").is_none() || i.get("span_id").is_none() {
            bad.push(("nested:props-or-ids-missing".into(), format!("nested span: z={:?} trace_id={:?} span_id={:?}", i.get("z"), i.get("trace_id"), i.get("span_id"))));
        }
        if let Some(o) = outer.first() {
            if want_outer == 1 && (i.get("span_parent") != o.get("span_id") || i.get("trace_id") != o.get("trace_id")) {
                bad.push((
                    "nested:wrong-parent".into(),
                    format!(
                        "nested span trace/parent = {:?}/{:?}, the span it runs in has trace/span = {:?}/{:?}",
                        i.get("trace_id"),
                        i.get("span_parent"),
                        o.get("trace_id"),
                        o.get("span_id")
                    ),
                ));
            }
        }
    }
    for (sig, what) in bad {
        r.violation(
            &format!("C05:gen:cancelled-after-k-polls:{}:{}", sig, site.form),
            &format!("site {} ({} {}), {} poll(s) then dropped: {}", site.id, site.form, site.mix, k, what),
            site.case(seed),
        );
    }
}

pub struct SpanExpect {
    pub enabled: bool,
    pub msg: &'static str,
    /// expected `lvl` text; None = no lvl property
    pub lvl: Option<&'static str>,
    /// expected `err` text; None = no err property
    pub err: Option<&'static str>,
    pub props: &'static [(&'static str, &'static str)],
    pub panics: bool,
}

pub fn check_span(r: &mut Report, seed: u64, site: &Site, evts: &[Captured], e: &SpanExpect, panicked: bool, ambient_after: usize) {
    r.observe("span-invocations", 1);
    r.observe("span-events", evts.len() as u64);
    let mut bad: Vec<(String, String)> = Vec::new();
    if panicked != e.panics {
        bad.push(("panic-mismatch".into(), format!("invocation {} but the site {}", if panicked { "panicked" } else { "returned" }, if e.panics { "must panic" } else { "must return" })));
    }
    let want = if e.enabled { 1 } else { 0 };
    if evts.len() != want {
        bad.push(("completion-count".into(), format!("{} span events for one invocation, expected {}", evts.len(), want)));
    }
    if ambient_after != 0 {
        bad.push(("ambient-left-behind".into(), format!("{} ambient properties visible after the span function returned", ambient_after)));
    }
    if let (true, Some(evt)) = (e.enabled, evts.first()) {
        if evt.msg != e.msg {
            bad.push(("message".into(), format!("span message {:?}, expected {:?}", evt.msg, e.msg)));
        }
        if evt.get("evt_kind") != Some("span") {
            bad.push(("kind".into(), format!("evt_kind {:?}", evt.get("evt_kind"))));
        }
        match evt.extent {
            Some((Some(s), t)) if s <= t => {}
            other => bad.push(("extent".into(), format!("extent {:?} is not a forward range", other))),
        }
        if evt.get("lvl") != e.lvl {
            bad.push(("level".into(), format!("lvl {:?}, expected {:?}", evt.get("lvl"), e.lvl)));
        }
        if evt.get("err") != e.err {
            bad.push(("error".into(), format!("err {:?}, expected {:?}", evt.get("err"), e.err)));
        }
        for (k, v) in e.props {
            if evt.get(k) != Some(*v) {
                bad.push(("props".into(), format!("property {:?} is {:?}, expected {:?}", k, evt.get(k), v)));
            }
        }
        for k in ["trace_id", "span_id"] {
            if evt.get(k).is_none() {
                bad.push(("ids".into(), format!("completed span carries no {}", k)));
            }
        }
        for k in ["evt_kind", "lvl", "err", "span_name", "trace_id", "span_id"] {
            if evt.props.iter().filter(|(pk, _, _)| pk == k).count() > 1 && k != "lvl" {
                // `lvl` may legitimately be shadowed (completion level first-wins over the default)
                bad.push(("duplicate-well-known".into(), format!("{} appears more than once", k)));
            }
        }
    }
    for (sig, what) in bad {
        r.violation(
            &format!("C05:gen:{}:{}", sig, site.form),
            &format!("site {} ({} {}): {}", site.id, site.form, site.mix, what),
            site.case(seed),
        );
    }
}

pub fn ambient_count() -> usize {
    use emit::Ctxt;
    let mut n = 0;
    SRT.ctxt().with_current(|p| {
        let _ = p.for_each(|_, _| {
            n += 1;
            ControlFlow::Continue(())
        });
    });
    n
}

// ---------------------------------------------------------------------------
// C19: generated capture sites
// ---------------------------------------------------------------------------
//
// `bin/genlane --prop C19` writes call sites (`evt!`, `props!`, `emit!(rt, ..)`, `debug!/info!/warn!/error!(rt, ..)`)
// whose 1-5 properties each pick a value, a capture form, an optional `#[emit::key]` rename and a placement
// (extra pair, shorthand local, template hole). Next to every site the generator writes a `Vec<Want>`: per final key
// what the capture form promises for that ORIGINAL value - the typed value itself, or text / JSON that rustc computes
// from the original in the generated code (`format!("{}", x)`, `serde_json::to_string(&x)`, ...). The checks below
// read every captured value back on several paths and compare. Nothing here looks at how the macros expand.

pub use c19gen::*;

pub mod c19gen {
    use std::{collections::BTreeMap, error::Error, fmt, ops::ControlFlow};

    use emit::{Props, Value};
    use vcommon::*;

    use super::Site;

    // ---- fixed user types (serde::Serialize + sval::Value + Display + Debug) ----

    /// a struct
    #[derive(Clone, Debug, PartialEq, serde::Serialize, sval_derive::Value)]
    pub struct Point {
        pub x: i32,
        pub y: i64,
        pub label: String,
    }

    impl fmt::Display for Point {
        fn fmt(&self, f: &mut fmt::Formatter) -> fmt::Result {
            write!(f, "({}, {}) \"{}\"", self.x, self.y, self.label)
        }
    }

    /// a newtype
    #[derive(Clone, Debug, PartialEq, serde::Serialize, sval_derive::Value)]
    pub struct Meters(pub f64);

    impl fmt::Display for Meters {
        fn fmt(&self, f: &mut fmt::Formatter) -> fmt::Result {
            write!(f, "{} m", self.0)
        }
    }

    /// a tuple struct
    #[derive(Clone, Debug, PartialEq, serde::Serialize, sval_derive::Value)]
    pub struct Pair(pub u8, pub String);

    impl fmt::Display for Pair {
        fn fmt(&self, f: &mut fmt::Formatter) -> fmt::Result {
            write!(f, "<{}|{}>", self.0, self.1)
        }
    }

    /// an enum with unit / newtype / struct variants
    #[derive(Clone, Debug, PartialEq, serde::Serialize, sval_derive::Value)]
    pub enum Shape {
        Empty,
        Radius(u32),
        Rect { w: i32, h: i32 },
    }

    impl fmt::Display for Shape {
        fn fmt(&self, f: &mut fmt::Formatter) -> fmt::Result {
            match self {
                Shape::Empty => write!(f, "empty"),
                Shape::Radius(r) => write!(f, "circle r={}", r),
                Shape::Rect { w, h } => write!(f, "rect {}x{}", w, h),
            }
        }
    }

    /// a string-keyed map
    #[derive(Clone, Debug, PartialEq, serde::Serialize, sval_derive::Value)]
    pub struct Tags(pub BTreeMap<String, i64>);

    impl Tags {
        pub fn of(entries: &[(&str, i64)]) -> Tags {
            Tags(entries.iter().map(|(k, v)| (k.to_string(), *v)).collect())
        }
    }

    impl fmt::Display for Tags {
        fn fmt(&self, f: &mut fmt::Formatter) -> fmt::Result {
            for (i, (k, v)) in self.0.iter().enumerate() {
                write!(f, "{}{}={}", if i > 0 { "," } else { "" }, k, v)?;
            }
            Ok(())
        }
    }

    /// a struct holding a SEQUENCE: never captured with `as_sval` by the generator (the known finding
    /// `C19:sval-captured-seq:via-serde:malformed` is re-observed by the hand-written C19 monitor)
    #[derive(Clone, Debug, PartialEq, serde::Serialize, sval_derive::Value)]
    pub struct Route {
        pub name: String,
        pub stops: Vec<u16>,
        pub legs: Vec<Shape>,
    }

    impl fmt::Display for Route {
        fn fmt(&self, f: &mut fmt::Formatter) -> fmt::Result {
            write!(f, "{} via {:?}", self.name, self.stops)
        }
    }

    /// an error type with a source chain
    #[derive(Clone, Debug, PartialEq, serde::Serialize, sval_derive::Value)]
    pub struct AppError {
        pub msg: String,
        pub source: Option<Box<AppError>>,
    }

    impl AppError {
        /// `chain(&["outer", "middle", "root"])`
        pub fn chain(msgs: &[&str]) -> AppError {
            AppError { msg: msgs[0].to_string(), source: if msgs.len() > 1 { Some(Box::new(AppError::chain(&msgs[1..]))) } else { None } }
        }
    }

    impl fmt::Display for AppError {
        fn fmt(&self, f: &mut fmt::Formatter) -> fmt::Result {
            write!(f, "{}", self.msg)
        }
    }

    impl Error for AppError {
        fn source(&self) -> Option<&(dyn Error + 'static)> {
            self.source.as_deref().map(|e| e as &(dyn Error + 'static))
        }
    }

    /// a user type whose `ToValue` goes through serde (for `#[emit::as_value]`)
    #[derive(Clone, Debug, PartialEq, serde::Serialize, sval_derive::Value)]
    pub struct Celsius {
        pub deg: f64,
        pub station: String,
    }

    impl fmt::Display for Celsius {
        fn fmt(&self, f: &mut fmt::Formatter) -> fmt::Result {
            write!(f, "{}°C @{}", self.deg, self.station)
        }
    }

    impl emit::value::ToValue for Celsius {
        fn to_value(&self) -> Value<'_> {
            Value::from_serde(self)
        }
    }

    // ---- the expectation, as plain data ----

    /// The original of a typed capture.
    #[derive(Clone, Debug, PartialEq)]
    pub enum Ty {
        Bool(bool),
        I8(i8),
        I16(i16),
        I32(i32),
        I64(i64),
        I128(i128),
        Isize(isize),
        U8(u8),
        U16(u16),
        U32(u32),
        U64(u64),
        U128(u128),
        Usize(usize),
        F32(f32),
        F64(f64),
        Char(char),
        Str(String),
    }

    impl Ty {
        fn is_int_or_bool(&self) -> bool {
            !matches!(self, Ty::F32(_) | Ty::F64(_) | Ty::Char(_) | Ty::Str(_))
        }
    }

    pub trait Prim {
        fn ty(&self) -> Ty;
    }

    macro_rules! prims {
        ($($t:ty => $v:ident,)*) => { $( impl Prim for $t { fn ty(&self) -> Ty { Ty::$v(*self) } } )* };
    }

    prims!(bool => Bool, i8 => I8, i16 => I16, i32 => I32, i64 => I64, i128 => I128, isize => Isize, u8 => U8, u16 => U16, u32 => U32, u64 => U64, u128 => U128, usize => Usize, f32 => F32, f64 => F64, char => Char,);

    impl Prim for str {
        fn ty(&self) -> Ty {
            Ty::Str(self.to_string())
        }
    }

    impl Prim for String {
        fn ty(&self) -> Ty {
            Ty::Str(self.clone())
        }
    }

    impl<'a, T: Prim + ?Sized> Prim for &'a T {
        fn ty(&self) -> Ty {
            (**self).ty()
        }
    }

    type DirectJson = (Result<String, String>, Result<String, String>);

    /// The ORIGINAL value serialised directly by each reference consumer.
    pub trait Direct {
        fn direct(&self) -> DirectJson;
    }

    macro_rules! direct {
        (both: $($t:ty),*; serde_only: $($s:ty),*) => {
            $( impl Direct for $t {
                fn direct(&self) -> DirectJson {
                    (serde_json::to_string(self).map_err(|e| e.to_string()), sval_json::stream_to_string(self).map_err(|e| e.to_string()))
                }
            } )*
            // sval has no impl for the pointer-sized integers: only serde_json has a direct image of the original
            $( impl Direct for $s {
                fn direct(&self) -> DirectJson {
                    (serde_json::to_string(self).map_err(|e| e.to_string()), Err("sval::Value is not implemented for this type".into()))
                }
            } )*
        };
    }

    direct!(both: bool, i8, i16, i32, i64, i128, u8, u16, u32, u64, u128, f32, f64, char, str, String, Option<i64>, Option<u32>, Option<bool>, Option<f64>,
        Point, Meters, Pair, Shape, Tags, Route, AppError, Celsius; serde_only: isize, usize);

    impl<'a, T: Direct + ?Sized> Direct for &'a T {
        fn direct(&self) -> DirectJson {
            (**self).direct()
        }
    }

    fn json_of<T: Direct + ?Sized>(v: &T) -> DirectJson {
        v.direct()
    }

    /// What one capture promises (same fields as the hand-written C19 monitor's `Expect`).
    #[derive(Clone, Debug, Default)]
    pub struct Exp {
        /// `false`: the key must be absent (optional None)
        pub present: bool,
        /// present with a null value (`as_value` of `None`)
        pub null: bool,
        /// the value may read as null (an `Option` original whose JSON image is what is compared)
        pub null_ok: bool,
        /// the primitive that must be pulled back
        pub typed: Option<Ty>,
        /// `to_string()` must equal this
        pub text: Option<String>,
        /// `{:?}` (and, where given, `{:#?}`) of the captured value must equal these
        pub debug: Option<(String, Option<String>)>,
        /// serde_json / sval_json of the captured value must equal these (direct serialisation of the original)
        pub json: Option<DirectJson>,
        /// messages along `source()`
        pub chain: Option<Vec<String>>,
    }

    impl Exp {
        fn some() -> Exp {
            Exp { present: true, ..Default::default() }
        }

        /// `#[emit::optional]` of `None`: no key at all
        pub fn absent() -> Exp {
            Exp::default()
        }

        /// `#[emit::as_value]` of `None::<T>`: the key with a null value
        pub fn null() -> Exp {
            Exp { null: true, ..Exp::some() }
        }

        /// present, nothing else is settled (counted, not judged)
        pub fn unjudged() -> Exp {
            Exp::some()
        }

        /// present, possibly as a null value, nothing else is settled (counted, not judged)
        pub fn unjudged_nullable() -> Exp {
            Exp { null_ok: true, ..Exp::some() }
        }

        /// A typed capture of a primitive: pulled back as the same typed value, Display text and JSON of the
        /// original. An f32 is stored widened to f64 (DESIGN 12.7a, unjudged): compared numerically only.
        pub fn typed<T: Prim + fmt::Display + Direct + ?Sized>(v: &T) -> Exp {
            let ty = v.ty();
            let widened = matches!(ty, Ty::F32(_));
            Exp { typed: Some(ty), text: (!widened).then(|| v.to_string()), json: (!widened).then(|| json_of(v)), ..Exp::some() }
        }

        /// `#[emit::as_debug(inspect: true)]` of a primitive: typed; `{:?}` of the value is the original's
        /// Debug text; `to_string()` is judged where Debug and Display text coincide (integers, booleans).
        pub fn typed_debug<T: Prim + fmt::Debug + Direct + ?Sized>(v: &T) -> Exp {
            let ty = v.ty();
            let widened = matches!(ty, Ty::F32(_));
            Exp {
                text: ty.is_int_or_bool().then(|| format!("{:?}", v)),
                debug: (!widened).then(|| (format!("{:?}", v), None)),
                json: (!widened).then(|| json_of(v)),
                typed: Some(ty),
                ..Exp::some()
            }
        }

        pub fn display<T: fmt::Display + ?Sized>(v: &T) -> Exp {
            Exp { text: Some(format!("{}", v)), ..Exp::some() }
        }

        pub fn debug<T: fmt::Debug + ?Sized>(v: &T) -> Exp {
            Exp { text: Some(format!("{:?}", v)), debug: Some((format!("{:?}", v), Some(format!("{:#?}", v)))), ..Exp::some() }
        }

        /// structure-preserving capture (`as_serde` / `as_sval` / a `ToValue` built on one of them)
        pub fn json<T: Direct + ?Sized>(v: &T) -> Exp {
            Exp { json: Some(json_of(v)), ..Exp::some() }
        }

        /// structure-preserving capture of an `Option<T>` original: `None` may be stored as a null value
        pub fn json_nullable<T: Direct + ?Sized>(v: &T) -> Exp {
            Exp { null_ok: true, ..Exp::json(v) }
        }

        pub fn error<E: Error + ?Sized>(e: &E) -> Exp {
            let mut chain = vec![e.to_string()];
            let mut cur = e.source();
            while let Some(s) = cur {
                chain.push(s.to_string());
                cur = s.source();
            }
            Exp { chain: Some(chain), ..Exp::some() }
        }
    }

    /// One property of a generated site.
    #[derive(Clone, Debug)]
    pub struct Want {
        /// the FINAL key (after `#[emit::key]`)
        pub key: &'static str,
        /// capture form, e.g. `default`, `as_debug`, `as_sval-inspect`, `optional+as_serde`
        pub cap: &'static str,
        /// value class of the pool entry
        pub kind: &'static str,
        /// `pair`, `short`, `hole`, `hole-attrs`, `hole+pair`, `hole-pair`
        pub place: &'static str,
        pub exp: Exp,
    }

    impl Want {
        pub fn new(key: &'static str, cap: &'static str, kind: &'static str, place: &'static str, exp: Exp) -> Want {
            Want { key, cap, kind, place, exp }
        }
    }

    // ---- observations ----

    #[derive(Clone, Debug, Default, PartialEq)]
    struct Casts {
        bool_: Option<bool>,
        i8_: Option<i8>,
        i16_: Option<i16>,
        i32_: Option<i32>,
        i64_: Option<i64>,
        i128_: Option<i128>,
        isize_: Option<isize>,
        u8_: Option<u8>,
        u16_: Option<u16>,
        u32_: Option<u32>,
        u64_: Option<u64>,
        u128_: Option<u128>,
        usize_: Option<usize>,
        f64_: Option<f64>,
        string: Option<String>,
        cow: Option<String>,
        borrowed: Option<String>,
    }

    fn casts_of_value(v: &Value) -> Casts {
        Casts {
            bool_: v.by_ref().cast(),
            i8_: v.by_ref().cast(),
            i16_: v.by_ref().cast(),
            i32_: v.by_ref().cast(),
            i64_: v.by_ref().cast(),
            i128_: v.by_ref().cast(),
            isize_: v.by_ref().cast(),
            u8_: v.by_ref().cast(),
            u16_: v.by_ref().cast(),
            u32_: v.by_ref().cast(),
            u64_: v.by_ref().cast(),
            u128_: v.by_ref().cast(),
            usize_: v.by_ref().cast(),
            f64_: v.by_ref().cast(),
            string: v.by_ref().cast::<String>(),
            cow: v.to_cow_str().map(|c| c.into_owned()),
            borrowed: v.to_borrowed_str().map(|s| s.to_string()),
        }
    }

    fn casts_of_props<P: Props + ?Sized>(p: &P, key: &str) -> Casts {
        Casts {
            bool_: p.pull::<bool, _>(key),
            i8_: p.pull::<i8, _>(key),
            i16_: p.pull::<i16, _>(key),
            i32_: p.pull::<i32, _>(key),
            i64_: p.pull::<i64, _>(key),
            i128_: p.pull::<i128, _>(key),
            isize_: p.pull::<isize, _>(key),
            u8_: p.pull::<u8, _>(key),
            u16_: p.pull::<u16, _>(key),
            u32_: p.pull::<u32, _>(key),
            u64_: p.pull::<u64, _>(key),
            u128_: p.pull::<u128, _>(key),
            usize_: p.pull::<usize, _>(key),
            f64_: p.pull::<f64, _>(key),
            string: p.pull::<String, _>(key),
            cow: p.pull::<std::borrow::Cow<str>, _>(key).map(|c| c.into_owned()),
            borrowed: p.pull::<&str, _>(key).map(|s| s.to_string()),
        }
    }

    fn f64_same(a: f64, b: f64) -> bool {
        (a.is_nan() && b.is_nan()) || a.to_bits() == b.to_bits()
    }

    /// Does the typed read give the original back (as the SAME type)?
    fn casts_match(c: &Casts, t: &Ty) -> bool {
        match t {
            Ty::Bool(x) => c.bool_ == Some(*x),
            Ty::I8(x) => c.i8_ == Some(*x),
            Ty::I16(x) => c.i16_ == Some(*x),
            Ty::I32(x) => c.i32_ == Some(*x),
            Ty::I64(x) => c.i64_ == Some(*x),
            Ty::I128(x) => c.i128_ == Some(*x),
            Ty::Isize(x) => c.isize_ == Some(*x),
            Ty::U8(x) => c.u8_ == Some(*x),
            Ty::U16(x) => c.u16_ == Some(*x),
            Ty::U32(x) => c.u32_ == Some(*x),
            Ty::U64(x) => c.u64_ == Some(*x),
            Ty::U128(x) => c.u128_ == Some(*x),
            Ty::Usize(x) => c.usize_ == Some(*x),
            // no FromValue for f32: stored widened (unjudged), compared numerically
            Ty::F32(x) => c.f64_.map_or(false, |g| f64_same(g, *x as f64)),
            Ty::F64(x) => c.f64_.map_or(false, |g| f64_same(g, *x)),
            // no typed conversion exists for char: checked through its text and JSON
            Ty::Char(_) => true,
            Ty::Str(x) => c.string.as_deref() == Some(x.as_str()) && c.cow.as_deref() == Some(x.as_str()),
        }
    }

    /// Everything one read of a value shows, as owned data.
    #[derive(Clone, Debug)]
    struct Obs {
        null: bool,
        display: String,
        debug: String,
        debug_alt: String,
        serde: Result<String, String>,
        sval: Result<String, String>,
        casts: Casts,
        chain: Option<Vec<String>>,
    }

    fn observe(v: Value) -> Obs {
        // as the hand-written monitor does: `to_borrowed_error`, then `source()` along the chain
        let chain = v.to_borrowed_error().map(|e| {
            let mut out = vec![e.to_string()];
            let mut cur = e.source();
            while let Some(s) = cur {
                out.push(s.to_string());
                cur = s.source();
            }
            out
        });
        Obs {
            null: v.is_null(),
            display: v.to_string(),
            debug: format!("{:?}", v),
            debug_alt: format!("{:#?}", v),
            serde: serde_json::to_string(&v).map_err(|e| e.to_string()),
            sval: sval_json::stream_to_string(&v).map_err(|e| e.to_string()),
            casts: casts_of_value(&v),
            chain,
        }
    }

    /// What the checks of one site found; written into the report by [`cap_flush`] (the emitter-side
    /// checks run inside a closure that cannot hold the report).
    #[derive(Default)]
    pub struct CapOut {
        counts: BTreeMap<String, u64>,
        bad: Vec<(String, String)>,
        pub events: u64,
    }

    impl CapOut {
        fn observe(&mut self, what: &str, n: u64) {
            *self.counts.entry(what.to_string()).or_insert(0) += n;
        }

        fn bad(&mut self, what: &str, w: &Want, path: &str, msg: String) {
            self.bad.push((format!("C19:gen:{}:{}:{}", what, w.cap, path), format!("key {:?} ({} value, {} capture, placed as {}), read path {}: {}", w.key, w.kind, w.cap, w.place, path, msg)));
        }
    }

    #[derive(Clone, Copy, PartialEq, Debug)]
    enum Level {
        /// direct / erased (also on the emitter's side): everything the capture form promises
        Full,
        /// owned / shared / ctxt / thread: numbers, booleans, strings and structured values (the statement lists
        /// only those; Display/Debug-captured text and error chains are not constrained once buffered - an error
        /// buffered through to_shared() loses its source chain, DESIGN 12.7a, unjudged)
        Buffered,
    }

    fn clip(s: &str) -> String {
        if s.len() > 300 {
            let mut cut = 300;
            while !s.is_char_boundary(cut) {
                cut -= 1;
            }
            format!("{}…", &s[..cut])
        } else {
            s.to_string()
        }
    }

    fn check_obs(out: &mut CapOut, w: &Want, obs: Option<Obs>, path: &str, level: Level, in_emitter: bool) {
        out.observe(&format!("path:{}", path), 1);
        let exp = &w.exp;
        let obs = match (exp.present, obs) {
            (false, None) => {
                out.observe("check:none-adds-no-key", 1);
                return;
            }
            (false, Some(o)) => return out.bad("none-adds-key", w, path, format!("optional None produced a property: {:?}", clip(&o.display))),
            (true, None) => return out.bad("missing", w, path, "the captured property is missing".into()),
            (true, Some(o)) => o,
        };
        if exp.null {
            out.observe("check:null", 1);
            if !obs.null {
                out.bad("not-null", w, path, format!("None captured as a value must be null, got {:?}", clip(&obs.display)));
            }
            return;
        }
        if obs.null && !exp.null_ok {
            return out.bad("unexpected-null", w, path, "the captured value reads as null".into());
        }
        if let Some(t) = &exp.typed {
            out.observe("check:typed-pull", 1);
            if !casts_match(&obs.casts, t) {
                out.bad("typed-pull", w, path, format!("pulling back {:?} gave {:?}", t, obs.casts));
            }
            if let (Ty::Str(x), Level::Full) = (t, level) {
                // a borrowed string is promised on the unbuffered paths only (as in the hand-written monitor:
                // not for as_value, not on the emitter's side)
                if w.cap != "as_value" && w.cap != "optional+as_value" && !in_emitter {
                    out.observe("check:borrowed-str", 1);
                    if obs.casts.borrowed.as_deref() != Some(x.as_str()) {
                        out.bad("borrowed-str", w, path, format!("&str pull of {:?} gave {:?}", x, obs.casts.borrowed));
                    }
                }
            }
        }
        let constrained_text = level != Level::Buffered || exp.typed.is_some();
        if let (Some(want), true) = (&exp.text, constrained_text) {
            out.observe("check:text", 1);
            if &obs.display != want {
                out.bad("text", w, path, format!("to_string() = {:?}, the original's text is {:?}", clip(&obs.display), clip(want)));
            }
        }
        if let (Some((want, want_alt)), Level::Full) = (&exp.debug, level) {
            out.observe("check:debug", 1);
            if &obs.debug != want {
                out.bad("debug", w, path, format!("{{:?}} = {:?}, the original's = {:?}", clip(&obs.debug), clip(want)));
            }
            if let Some(want_alt) = want_alt {
                if &obs.debug_alt != want_alt {
                    out.bad("debug-alt", w, path, format!("{{:#?}} = {:?}, the original's = {:?}", clip(&obs.debug_alt), clip(want_alt)));
                }
            }
        }
        if let (Some(want), Level::Full) = (&exp.chain, level) {
            out.observe("check:error-chain", 1);
            if obs.chain.as_ref() != Some(want) {
                out.bad("error-chain", w, path, format!("source chain {:?}, the original's {:?}", obs.chain, want));
            }
        }
        if let Some((direct_serde, direct_sval)) = &exp.json {
            for (consumer, direct, got) in [("serde_json", direct_serde, &obs.serde), ("sval_json", direct_sval, &obs.sval)] {
                let want = match direct {
                    Ok(w) => w,
                    Err(_) => {
                        // the consumer cannot express the original: nothing to compare with
                        out.observe("json:direct-inexpressible", 1);
                        continue;
                    }
                };
                out.observe(&format!("check:json:via-{}", consumer), 1);
                if got.as_ref() != Ok(want) {
                    let got_text = match got {
                        Ok(g) => g.clone(),
                        Err(e) => format!("<error: {}>", e),
                    };
                    out.bad(&format!("json-via-{}", consumer), w, path, format!("{} of the captured value = {:?}, of the original = {:?}", consumer, clip(&got_text), clip(want)));
                }
            }
        }
    }

    fn check_value(out: &mut CapOut, w: &Want, v: Option<Value>, path: &str, level: Level, in_emitter: bool) {
        match catch(|| v.map(observe)) {
            Ok(o) => check_obs(out, w, o, path, level, in_emitter),
            Err(p) => out.bad("panic", w, path, format!("reading the value panicked: {}", p)),
        }
    }

    /// One unbuffered view of a property set: `get`, `pull::<T>` and the enumeration.
    fn check_view<P: Props + ?Sized>(out: &mut CapOut, p: &P, wants: &[Want], path: &str, in_emitter: bool) {
        for w in wants {
            check_value(out, w, p.get(w.key), path, Level::Full, in_emitter);
            if let Some(t) = &w.exp.typed {
                out.observe("check:props-pull", 1);
                match catch(|| casts_of_props(p, w.key)) {
                    Ok(c) => {
                        if !casts_match(&c, t) {
                            out.bad("props-pull", w, path, format!("Props::pull of {:?} gave {:?}", t, c));
                        }
                    }
                    Err(e) => out.bad("panic", w, path, format!("Props::pull panicked: {}", e)),
                }
            }
            let mut n = 0usize;
            let _ = p.for_each(|k, _| {
                if k == w.key {
                    n += 1;
                }
                ControlFlow::Continue(())
            });
            out.observe("check:enumeration", 1);
            if n != w.exp.present as usize {
                out.bad("enumeration", w, path, format!("the key is enumerated {} times, expected {}", n, w.exp.present as usize));
            }
        }
    }

    /// All read paths over one property set.
    pub fn cap_check_props<P: Props>(out: &mut CapOut, p: &P, wants: &[Want], in_emitter: bool) {
        check_view(out, p, wants, "direct", in_emitter);
        {
            let erased: &dyn emit::props::ErasedProps = p;
            check_view(out, erased, wants, "erased", in_emitter);
        }
        // owned / shared copies of each value, a clone of the shared one, and both moved to another thread
        let mut moved: Vec<(usize, emit::value::OwnedValue, emit::value::OwnedValue)> = Vec::new();
        for (i, w) in wants.iter().enumerate() {
            let v = match p.get(w.key) {
                Some(v) => v,
                None => continue,
            };
            match catch(|| (v.to_owned(), v.to_shared())) {
                Err(e) => out.bad("panic", w, "owned", format!("to_owned / to_shared panicked: {}", e)),
                Ok((o, s)) => {
                    check_value(out, w, Some(o.by_ref()), "owned", Level::Buffered, in_emitter);
                    check_value(out, w, Some(s.by_ref()), "shared", Level::Buffered, in_emitter);
                    let s2 = s.clone();
                    drop(s);
                    check_value(out, w, Some(s2.by_ref()), "shared-clone", Level::Buffered, in_emitter);
                    moved.push((i, o.by_ref().to_owned(), s2));
                }
            }
        }
        if !moved.is_empty() {
            let res = std::thread::scope(|sc| sc.spawn(move || moved.iter().map(|(i, o, s)| (*i, catch(|| (observe(o.by_ref()), observe(s.by_ref()))))).collect::<Vec<_>>()).join());
            match res {
                Ok(seen) => {
                    for (i, r) in seen {
                        match r {
                            Ok((a, b)) => {
                                check_obs(out, &wants[i], Some(a), "thread", Level::Buffered, in_emitter);
                                check_obs(out, &wants[i], Some(b), "thread-shared", Level::Buffered, in_emitter);
                            }
                            Err(e) => out.bad("panic", &wants[i], "thread", format!("reading on another thread panicked: {}", e)),
                        }
                    }
                }
                Err(_) => out.bad("panic", &wants[0], "thread", "the reader thread died".into()),
            }
        }
        // buffered through an ambient frame: every property of the set pushed at once, read inside with_current
        let ctxt = emit::platform::thread_local_ctxt::ThreadLocalCtxt::new();
        let res = catch(|| {
            let mut frame = emit::Frame::push(&ctxt, p);
            let _g = frame.enter();
            emit::Ctxt::with_current(&ctxt, |cur| wants.iter().map(|w| cur.get(w.key).map(observe)).collect::<Vec<_>>())
        });
        match res {
            Ok(seen) => {
                for (w, o) in wants.iter().zip(seen) {
                    check_obs(out, w, o, "ctxt", Level::Buffered, in_emitter);
                }
            }
            Err(e) => out.bad("panic", &wants[0], "ctxt", format!("buffering through the context panicked: {}", e)),
        }
    }

    /// An event (built by `evt!`, or handed to an emitter): its props on every path, and once more through
    /// the type-erased EVENT.
    pub fn cap_check_event<P: Props>(out: &mut CapOut, evt: &emit::Event<P>, wants: &[Want], in_emitter: bool) {
        out.events += 1;
        cap_check_props(out, evt.props(), wants, in_emitter);
        let erased = evt.erase();
        check_view(out, erased.props(), wants, "erased-event", in_emitter);
    }

    /// Write what one site's checks found into the report. `expect_events`: how many events an `emit!`-style
    /// site must have delivered to its emitter.
    pub fn cap_flush(r: &mut Report, seed: u64, site: &Site, wants: &[Want], out: CapOut, expect_events: Option<u64>) {
        r.observe(&format!("form:{}", site.form), 1);
        r.observe("properties", wants.len() as u64);
        for w in wants {
            r.observe(&format!("cap:{}", w.cap), 1);
            r.observe(&format!("value:{}", w.kind), 1);
            r.observe(&format!("place:{}", w.place), 1);
            if w.exp.present && !w.exp.null && w.exp.typed.is_none() && w.exp.text.is_none() && w.exp.debug.is_none() && w.exp.json.is_none() && w.exp.chain.is_none() {
                r.observe(&format!("unjudged:{}:{}", w.cap, w.kind), 1);
            }
        }
        for (k, n) in &out.counts {
            r.observe(k, *n);
        }
        if let Some(n) = expect_events {
            r.observe("events-emitted", out.events);
            if out.events != n {
                r.violation(&format!("C19:gen:emitted-count:{}", site.form), &format!("site {}: emitted {} events, expected {}", site.id, out.events, n), site.case(seed));
            }
        }
        for (sig, what) in out.bad {
            r.violation(&sig, &format!("site {} ({} {}): {}", site.id, site.form, site.mix, what), site.case(seed));
        }
    }
}
