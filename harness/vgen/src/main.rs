/*!
Generated-programs lane. `gen/sites.rs` is written by `bin/genlane` from the seed: a `run` function
with hundreds of macro call sites (`props!`, `evt!`, `emit!`, `tpl!`, `format!`, capture attributes …),
each followed by a call into the checkers below with the generator's expectation as plain data.
The oracle lives here (hand-written, independent of the macros); the generator only decides *what*
to write at each call site and what the site is expected to mean.
*/

#![allow(unused_imports, unused_variables, dead_code, non_snake_case, unused_mut, unused_braces)]

use std::{collections::BTreeMap, ops::ControlFlow};

use emit::{Props, Value};
use vcommon::*;

#[path = "../gen/sites.rs"]
mod sites;

/// Static description of one generated call site.
pub struct Site {
    pub id: u32,
    /// macro form, e.g. `props!`, `evt!`, `emit!`
    pub form: &'static str,
    /// attribute mix class, e.g. `key+optional`
    pub mix: &'static str,
    /// the generated source text of the call site (the replayable case)
    pub src: &'static str,
}

impl Site {
    pub fn case(&self, seed: u64) -> Json {
        json!({"site": self.id, "form": self.form, "mix": self.mix, "seed": seed, "program": self.src})
    }
}

pub fn enumerate<P: Props + ?Sized>(p: &P) -> Vec<(String, String)> {
    let mut out = Vec::new();
    let _ = p.for_each(|k, v| {
        out.push((k.get().to_string(), v.to_string()));
        ControlFlow::Continue(())
    });
    out
}

/// The C02 checks on one collection: returns problems as (signature suffix, description).
pub fn props_problems<P: Props + ?Sized>(
    p: &P,
    expected: &[(&str, &str)],
    absent: &[&str],
) -> Vec<(String, String)> {
    let mut bad = Vec::new();
    let listed = enumerate(p);

    // enumeration = expected, as multisets
    let mut a: Vec<(String, String)> = listed.clone();
    let mut b: Vec<(String, String)> = expected.iter().map(|(k, v)| (k.to_string(), v.to_string())).collect();
    a.sort();
    b.sort();
    if a != b {
        bad.push(("enumeration-vs-expected".into(), format!("enumerated {:?}, the call site means {:?}", listed, expected)));
    }

    // first-wins map from the enumeration itself
    let mut first: BTreeMap<&str, &str> = BTreeMap::new();
    let mut dup = false;
    for (k, v) in &listed {
        if first.contains_key(k.as_str()) {
            dup = true;
        } else {
            first.insert(k, v);
        }
    }
    if dup && p.is_unique() {
        bad.push(("is-unique-but-duplicate".into(), format!("is_unique() but enumerates a key twice: {:?}", listed)));
    }
    for (k, v) in &first {
        match p.get(*k) {
            Some(got) if got.to_string() == **v => {}
            Some(got) => bad.push(("get-vs-enumeration".into(), format!("get({:?}) = {:?} but enumeration yields {:?} first", k, got.to_string(), v))),
            None => bad.push(("get-misses-enumerated-key".into(), format!("get({:?}) = None but enumeration yields {:?}", k, v))),
        }
    }
    for k in absent {
        if first.contains_key(k) {
            continue;
        }
        if let Some(got) = p.get(*k) {
            bad.push(("get-finds-unenumerated-key".into(), format!("get({:?}) = {:?} but enumeration never yields it", k, got.to_string())));
        }
    }

    // break at every position
    for stop in 0..listed.len() {
        let mut calls = 0usize;
        let flow = p.for_each(|_, _| {
            calls += 1;
            if calls == stop + 1 {
                ControlFlow::Break(())
            } else {
                ControlFlow::Continue(())
            }
        });
        if calls != stop + 1 || flow != ControlFlow::Break(()) {
            bad.push(("break-not-honoured".into(), format!("visitor broke at call {} but was called {} times, for_each returned {:?}", stop + 1, calls, flow)));
            break;
        }
    }
    bad
}

pub fn check_props<P: Props>(r: &mut Report, seed: u64, site: &Site, p: &P, expected: &[(&str, &str)], absent: &[&str]) {
    r.observe("collections-checked", 3);
    r.observe("props-enumerated", expected.len() as u64);
    let erased: &dyn emit::props::ErasedProps = p;
    for (view, bad) in [
        ("value", props_problems(p, expected, absent)),
        ("ref", props_problems(&&*p, expected, absent)),
        ("erased", props_problems(erased, expected, absent)),
    ] {
        for (sig, what) in bad {
            r.violation(
                &format!("C02:gen:{}:{}", sig, site.form),
                &format!("site {} ({} {}, {} view): {}", site.id, site.form, site.mix, view, what),
                site.case(seed),
            );
        }
    }
}

pub fn check_text(r: &mut Report, seed: u64, prop: &str, site: &Site, what: &str, got: &str, expected: &str) {
    r.observe("texts-compared", 1);
    if got != expected {
        r.violation(
            &format!("{}:gen:{}:{}", prop, what, site.form),
            &format!("site {} ({} {}): {} is {:?}, the call site means {:?}", site.id, site.form, site.mix, what, got, expected),
            site.case(seed),
        );
    }
}

fn main() {
    let args = Args::parse();
    let mut r = Report::new(sites::PROPERTY, &args, sites::RULE);
    r.set("generated_sites", json!(sites::N_SITES));
    sites::run(&mut r, args.seed);
    unicode_probe(&mut r, &args);
    std::process::exit(r.finish());
}

/// The directed `emit::format!("caf\u{e9}")` site (src/bin/unicode_probe.rs), built and run by
/// `bin/genlane` on its own because it may be rejected at compile time. `--unicode-probe-text =TEXT`
/// carries what it rendered; `--unicode-probe-rejected WHY` that it did not compile.
fn unicode_probe(r: &mut Report, args: &Args) {
    if sites::PROPERTY != "C16" {
        return;
    }
    let program = "let e9 = 5; emit::format!(\"caf\\u{e9}\")";
    if let Some(text) = args.get("unicode-probe-text") {
        let text = text.strip_prefix('=').unwrap_or(text);
        r.eval();
        r.observe("texts-compared", 1);
        r.set("unicode_escape_directed_site", json!({"program": program, "rendered": text}));
        if text != "caf\u{e9}" {
            r.violation(
                "C16:gen:unicode-escape-parsed-as-hole",
                &format!("{} rendered {:?}, the Rust literal \"caf\\u{{e9}}\" is {:?}: the braces of the unicode escape were read as a hole", program, text, "caf\u{e9}"),
                json!({"site": "directed-unicode-escape", "program": program, "rendered": text, "seed": args.seed}),
            );
        }
    } else if let Some(why) = args.get("unicode-probe-rejected") {
        // a compile-time rejection is not a runtime verdict (the statement quantifies over literals the macros accept)
        r.set("unicode_escape_directed_site", json!({"program": program, "rejected_at_compile_time": why}));
    }
}

// ---------------------------------------------------------------------------
// C05: span macro forms
// ---------------------------------------------------------------------------

use std::sync::{atomic::{AtomicU64, Ordering}, Mutex};
use vcommon::rec::Captured;

pub static SPAN_EVENTS: Mutex<Vec<Captured>> = Mutex::new(Vec::new());

fn span_emitter(evt: emit::Event<&dyn emit::props::ErasedProps>) {
    SPAN_EVENTS.lock().unwrap_or_else(|e| e.into_inner()).push(Captured::of(&evt));
}

pub struct StepClock;
static STEP_CLOCK: AtomicU64 = AtomicU64::new(1_000_000_000);
impl emit::Clock for StepClock {
    fn now(&self) -> Option<emit::Timestamp> {
        Some(vcommon::rec::ts_from_nanos(STEP_CLOCK.fetch_add(1_000, Ordering::SeqCst)))
    }
}

pub struct SeqRng;
static SEQ_RNG: AtomicU64 = AtomicU64::new(1);
impl emit::Rng for SeqRng {
    fn fill<A: AsMut<[u8]>>(&self, mut arr: A) -> Option<A> {
        let n = SEQ_RNG.fetch_add(1, Ordering::SeqCst);
        let buf = arr.as_mut();
        for b in buf.iter_mut() {
            *b = 0;
        }
        let len = buf.len().min(8);
        buf[..len].copy_from_slice(&n.to_le_bytes()[..len]);
        Some(arr)
    }
}

pub type SpanRt = emit::runtime::Runtime<emit::emitter::FromFn, emit::Empty, emit::platform::thread_local_ctxt::ThreadLocalCtxt, StepClock, SeqRng>;

pub static SRT: SpanRt = emit::runtime::Runtime::build(
    emit::emitter::FromFn::new(span_emitter),
    emit::Empty,
    emit::platform::thread_local_ctxt::ThreadLocalCtxt::shared(),
    StepClock,
    SeqRng,
);

pub fn as_err(err: &std::io::Error) -> &(dyn std::error::Error + 'static) {
    err
}

pub fn span_events_take() -> Vec<Captured> {
    std::mem::take(&mut *SPAN_EVENTS.lock().unwrap_or_else(|e| e.into_inner()))
}

/// Minimal executor for the generated async span functions.
pub fn block_on<F: std::future::Future>(fut: F) -> F::Output {
    use std::task::{Context, Poll, RawWaker, RawWakerVTable, Waker};
    fn raw() -> RawWaker {
        fn clone(_: *const ()) -> RawWaker {
            raw()
        }
        fn noop(_: *const ()) {}
        static VT: RawWakerVTable = RawWakerVTable::new(clone, noop, noop, noop);
        RawWaker::new(std::ptr::null(), &VT)
    }
    let waker = unsafe { Waker::from_raw(raw()) };
    let mut cx = Context::from_waker(&waker);
    let mut fut = std::pin::pin!(fut);
    loop {
        if let Poll::Ready(v) = fut.as_mut().poll(&mut cx) {
            return v;
        }
    }
}

/// A future that is Pending once (so async spans are suspended between polls).
pub struct YieldOnce(pub bool);
impl std::future::Future for YieldOnce {
    type Output = ();
    fn poll(mut self: std::pin::Pin<&mut Self>, _: &mut std::task::Context<'_>) -> std::task::Poll<()> {
        if self.0 {
            std::task::Poll::Ready(())
        } else {
            self.0 = true;
            std::task::Poll::Pending
        }
    }
}

/// Poll `fut` up to `k` times, then drop it wherever it is suspended. Returns whether it finished.
pub fn poll_then_drop<F: std::future::Future>(fut: F, k: u32) -> bool {
    let mut cx = std::task::Context::from_waker(std::task::Waker::noop());
    let mut fut = std::pin::pin!(fut);
    for _ in 0..k {
        if fut.as_mut().poll(&mut cx).is_ready() {
            return true;
        }
    }
    false
}

/// A span site whose future was polled `k` times and then dropped (cancelled). `e` describes the
/// span event a DROP must produce (default completion: the attribute's level, no err). With
/// `nested` the body awaits `inner(9)` (a plain `#[span]` async fn with one yield) between its two
/// yields: 1 poll = outer suspended at its first yield, 2 = inside the inner span (both frames are
/// dropped at once), 3 = inner finished, outer at its second yield.
pub fn check_span_cancelled(r: &mut Report, seed: u64, site: &Site, evts: &[Captured], e: &SpanExpect, k: u32, nested: bool, finished: bool, ambient_after: usize) {
    r.observe("span-invocations", 1);
    r.observe("span-events", evts.len() as u64);
    r.observe(&format!("cancelled-after-{}-polls", k), 1);
    let mut bad: Vec<(String, String)> = Vec::new();
    if finished {
        bad.push(("generator:finished-or-panicked".into(), "the future finished (or panicked) before it could be dropped".into()));
    }
    let inner: Vec<&Captured> = evts.iter().filter(|c| c.get("span_name") == Some("inner {z}")).collect();
    let outer: Vec<&Captured> = evts.iter().filter(|c| c.get("span_name") != Some("inner {z}")).collect();
    let want_outer = if e.enabled && k >= 1 { 1 } else { 0 };
    let want_inner = if nested && k >= 2 { 1 } else { 0 };
    if outer.len() != want_outer || inner.len() != want_inner {
        bad.push((
            "completion-count".into(),
            format!("{} span event(s) of the cancelled fn and {} of the nested one, expected {} and {}", outer.len(), inner.len(), want_outer, want_inner),
        ));
    }
    if ambient_after != 0 {
        bad.push(("ambient-left-behind".into(), format!("{} ambient properties visible after the future was dropped", ambient_after)));
    }
    if let (1, Some(evt)) = (want_outer, outer.first()) {
        r.observe("cancelled-span-events-judged", 1);
        if evt.msg != e.msg {
            bad.push(("message".into(), format!("span message {:?}, expected {:?}", evt.msg, e.msg)));
        }
        if evt.get("evt_kind") != Some("span") {
            bad.push(("kind".into(), format!("evt_kind {:?}", evt.get("evt_kind"))));
        }
        match evt.extent {
            Some((Some(s), t)) if s <= t => {}
            other => bad.push(("extent".into(), format!("extent {:?} is not a forward range (start .. drop)", other))),
        }
        if evt.get("lvl") != e.lvl {
            bad.push(("level".into(), format!("lvl {:?}, a dropped span gets {:?} (no panic level)", evt.get("lvl"), e.lvl)));
        }
        if evt.get("err").is_some() {
            bad.push(("error".into(), format!("err {:?} on a span that was dropped, not panicked", evt.get("err"))));
        }
        for (key, v) in e.props {
            if evt.get(key) != Some(*v) {
                bad.push(("props-missing".into(), format!("property {:?} is {:?}, expected {:?}", key, evt.get(key), v)));
            }
        }
        for key in ["trace_id", "span_id"] {
            if evt.get(key).is_none() {
                bad.push(("ids-missing".into(), format!("the cancelled span carries no {}", key)));
            }
        }
    }
    if let (1, Some(i)) = (want_inner, inner.first()) {
        r.observe("cancelled-span-events-judged", 1);
        if i.get("z") != Some("9") || i.get("trace_id").is_none() || i.get("span_id").is_none() {
            bad.push(("nested:props-or-ids-missing".into(), format!("nested span: z={:?} trace_id={:?} span_id={:?}", i.get("z"), i.get("trace_id"), i.get("span_id"))));
        }
        if let Some(o) = outer.first() {
            if want_outer == 1 && (i.get("span_parent") != o.get("span_id") || i.get("trace_id") != o.get("trace_id")) {
                bad.push((
                    "nested:wrong-parent".into(),
                    format!(
                        "nested span trace/parent = {:?}/{:?}, the span it runs in has trace/span = {:?}/{:?}",
                        i.get("trace_id"),
                        i.get("span_parent"),
                        o.get("trace_id"),
                        o.get("span_id")
                    ),
                ));
            }
        }
    }
    for (sig, what) in bad {
        r.violation(
            &format!("C05:gen:cancelled-after-k-polls:{}:{}", sig, site.form),
            &format!("site {} ({} {}), {} poll(s) then dropped: {}", site.id, site.form, site.mix, k, what),
            site.case(seed),
        );
    }
}

pub struct SpanExpect {
    pub enabled: bool,
    pub msg: &'static str,
    /// expected `lvl` text; None = no lvl property
    pub lvl: Option<&'static str>,
    /// expected `err` text; None = no err property
    pub err: Option<&'static str>,
    pub props: &'static [(&'static str, &'static str)],
    pub panics: bool,
}

pub fn check_span(r: &mut Report, seed: u64, site: &Site, evts: &[Captured], e: &SpanExpect, panicked: bool, ambient_after: usize) {
    r.observe("span-invocations", 1);
    r.observe("span-events", evts.len() as u64);
    let mut bad: Vec<(String, String)> = Vec::new();
    if panicked != e.panics {
        bad.push(("panic-mismatch".into(), format!("invocation {} but the site {}", if panicked { "panicked" } else { "returned" }, if e.panics { "must panic" } else { "must return" })));
    }
    let want = if e.enabled { 1 } else { 0 };
    if evts.len() != want {
        bad.push(("completion-count".into(), format!("{} span events for one invocation, expected {}", evts.len(), want)));
    }
    if ambient_after != 0 {
        bad.push(("ambient-left-behind".into(), format!("{} ambient properties visible after the span function returned", ambient_after)));
    }
    if let (true, Some(evt)) = (e.enabled, evts.first()) {
        if evt.msg != e.msg {
            bad.push(("message".into(), format!("span message {:?}, expected {:?}", evt.msg, e.msg)));
        }
        if evt.get("evt_kind") != Some("span") {
            bad.push(("kind".into(), format!("evt_kind {:?}", evt.get("evt_kind"))));
        }
        match evt.extent {
            Some((Some(s), t)) if s <= t => {}
            other => bad.push(("extent".into(), format!("extent {:?} is not a forward range", other))),
        }
        if evt.get("lvl") != e.lvl {
            bad.push(("level".into(), format!("lvl {:?}, expected {:?}", evt.get("lvl"), e.lvl)));
        }
        if evt.get("err") != e.err {
            bad.push(("error".into(), format!("err {:?}, expected {:?}", evt.get("err"), e.err)));
        }
        for (k, v) in e.props {
            if evt.get(k) != Some(*v) {
                bad.push(("props".into(), format!("property {:?} is {:?}, expected {:?}", k, evt.get(k), v)));
            }
        }
        for k in ["trace_id", "span_id"] {
            if evt.get(k).is_none() {
                bad.push(("ids".into(), format!("completed span carries no {}", k)));
            }
        }
        for k in ["evt_kind", "lvl", "err", "span_name", "trace_id", "span_id"] {
            if evt.props.iter().filter(|(pk, _, _)| pk == k).count() > 1 && k != "lvl" {
                // `lvl` may legitimately be shadowed (completion level first-wins over the default)
                bad.push(("duplicate-well-known".into(), format!("{} appears more than once", k)));
            }
        }
    }
    for (sig, what) in bad {
        r.violation(
            &format!("C05:gen:{}:{}", sig, site.form),
            &format!("site {} ({} {}): {}", site.id, site.form, site.mix, what),
            site.case(seed),
        );
    }
}

pub fn ambient_count() -> usize {
    use emit::Ctxt;
    let mut n = 0;
    SRT.ctxt().with_current(|p| {
        let _ = p.for_each(|_, _| {
            n += 1;
            ControlFlow::Continue(())
        });
    });
    n
}
