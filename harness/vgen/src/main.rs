/*!
Generated-programs lane. `gen/sites.rs` is written by `bin/genlane` from the seed: a `run` function
with hundreds of macro call sites (`props!`, `evt!`, `emit!`, `tpl!`, `format!`, capture attributes …),
each followed by a call into the checkers below with the generator's expectation as plain data.
The oracle lives here (hand-written, independent of the macros); the generator only decides *what*
to write at each call site and what the site is expected to mean.
*/

#![allow(unused_imports, unused_variables, dead_code, non_snake_case, unused_mut, unused_braces)]

use std::{collections::BTreeMap, ops::ControlFlow};

use emit::{Props, Value};
use vcommon::*;

#[path = "../gen/sites.rs"]
mod sites;

/// Static description of one generated call site.
pub struct Site {
    pub id: u32,
    /// macro form, e.g. `props!`, `evt!`, `emit!`
    pub form: &'static str,
    /// attribute mix class, e.g. `key+optional`
    pub mix: &'static str,
    /// the generated source text of the call site (the replayable case)
    pub src: &'static str,
}

impl Site {
    pub fn case(&self, seed: u64) -> Json {
        json!({"site": self.id, "form": self.form, "mix": self.mix, "seed": seed, "program": self.src})
    }
}

pub fn enumerate<P: Props + ?Sized>(p: &P) -> Vec<(String, String)> {
    let mut out = Vec::new();
    let _ = p.for_each(|k, v| {
        out.push((k.get().to_string(), v.to_string()));
        ControlFlow::Continue(())
    });
    out
}

/// The C02 checks on one collection: returns problems as (signature suffix, description).
pub fn props_problems<P: Props + ?Sized>(
    p: &P,
    expected: &[(&str, &str)],
    absent: &[&str],
) -> Vec<(String, String)> {
    let mut bad = Vec::new();
    let listed = enumerate(p);

    // enumeration = expected, as multisets
    let mut a: Vec<(String, String)> = listed.clone();
    let mut b: Vec<(String, String)> = expected.iter().map(|(k, v)| (k.to_string(), v.to_string())).collect();
    a.sort();
    b.sort();
    if a != b {
        bad.push(("enumeration-vs-expected".into(), format!("enumerated {:?}, the call site means {:?}", listed, expected)));
    }

    // first-wins map from the enumeration itself
    let mut first: BTreeMap<&str, &str> = BTreeMap::new();
    let mut dup = false;
    for (k, v) in &listed {
        if first.contains_key(k.as_str()) {
            dup = true;
        } else {
            first.insert(k, v);
        }
    }
    if dup && p.is_unique() {
        bad.push(("is-unique-but-duplicate".into(), format!("is_unique() but enumerates a key twice: {:?}", listed)));
    }
    for (k, v) in &first {
        match p.get(*k) {
            Some(got) if got.to_string() == **v => {}
            Some(got) => bad.push(("get-vs-enumeration".into(), format!("get({:?}) = {:?} but enumeration yields {:?} first", k, got.to_string(), v))),
            None => bad.push(("get-misses-enumerated-key".into(), format!("get({:?}) = None but enumeration yields {:?}", k, v))),
        }
    }
    for k in absent {
        if first.contains_key(k) {
            continue;
        }
        if let Some(got) = p.get(*k) {
            bad.push(("get-finds-unenumerated-key".into(), format!("get({:?}) = {:?} but enumeration never yields it", k, got.to_string())));
        }
    }

    // break at every position
    for stop in 0..listed.len() {
        let mut calls = 0usize;
        let flow = p.for_each(|_, _| {
            calls += 1;
            if calls == stop + 1 {
                ControlFlow::Break(())
            } else {
                ControlFlow::Continue(())
            }
        });
        if calls != stop + 1 || flow != ControlFlow::Break(()) {
            bad.push(("break-not-honoured".into(), format!("visitor broke at call {} but was called {} times, for_each returned {:?}", stop + 1, calls, flow)));
            break;
        }
    }
    bad
}

pub fn check_props<P: Props>(r: &mut Report, seed: u64, site: &Site, p: &P, expected: &[(&str, &str)], absent: &[&str]) {
    r.observe("collections-checked", 3);
    r.observe("props-enumerated", expected.len() as u64);
    let erased: &dyn emit::props::ErasedProps = p;
    for (view, bad) in [
        ("value", props_problems(p, expected, absent)),
        ("ref", props_problems(&&*p, expected, absent)),
        ("erased", props_problems(erased, expected, absent)),
    ] {
        for (sig, what) in bad {
            r.violation(
                &format!("C02:gen:{}:{}", sig, site.form),
                &format!("site {} ({} {}, {} view): {}", site.id, site.form, site.mix, view, what),
                site.case(seed),
            );
        }
    }
}

pub fn check_text(r: &mut Report, seed: u64, prop: &str, site: &Site, what: &str, got: &str, expected: &str) {
    r.observe("texts-compared", 1);
    if got != expected {
        r.violation(
            &format!("{}:gen:{}:{}", prop, what, site.form),
            &format!("site {} ({} {}): {} is {:?}, the call site means {:?}", site.id, site.form, site.mix, what, got, expected),
            site.case(seed),
        );
    }
}

fn main() {
    let args = Args::parse();
    let mut r = Report::new(sites::PROPERTY, &args, sites::RULE);
    r.set("generated_sites", json!(sites::N_SITES));
    sites::run(&mut r, args.seed);
    std::process::exit(r.finish());
}
