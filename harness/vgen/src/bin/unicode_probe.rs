/*!
Directed C16 site (kept out of the generated crate because it may not compile):
`emit::format!("caf\u{e9}")` with a variable `e9` in scope.

The external fv-template parser works on the source text of the literal and reads the braces of a
`\u{..}` escape as a hole named `e9`. Depending on the tree this is
* rejected at compile time (the text fragment `caf\u` is not a valid string once escapes in text are
  evaluated, or there is no `e9` in scope): not a runtime verdict, `bin/genlane` records it as such;
* or compiled with a hole: then the rendered text is not "café" and the generated-programs lane
  reports it under `C16:gen:unicode-escape-parsed-as-hole`.

Prints exactly the rendered text.
*/

#![allow(unused_variables)]

fn main() {
    let e9 = 5;
    print!("{}", emit::format!("caf\u{e9}"));
}
