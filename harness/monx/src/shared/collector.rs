/*!
Scripted local OTLP collectors (used by the C12 / C14 monitors and the OTLP end-to-end lanes of
C07 / C08).

One [`Collector`] owns up to three *endpoints* (one per OTLP signal), each on its own
`127.0.0.1:<ephemeral>` port so that a signal can be made unreachable on its own:

* `Wire::Http1` - HTTP/1.1 written by hand over a tokio `TcpStream` (request line, headers,
  `Content-Length` bodies, keep-alive) so that every fault is under the script's control;
* `Wire::Grpc`  - the `h2` crate's server; gRPC framing (1 byte flag + 4 byte big-endian length +
  message), `grpc-status` in trailers (or in a trailers-only response); responses that begin (`200`
  HEADERS, optionally the message) and then break or end without any `grpc-status` - RST_STREAM with a
  chosen error code, connection reset / closed, END_STREAM without trailers - and statuses that are not
  numbers ([`Decision::AfterHeaders`], [`Decision::GrpcStatusUnreadable`]).

Every request that reaches an endpoint takes the next [`Decision`] of that endpoint's script
(acknowledge when the script is exhausted) and is recorded as a [`Record`]: connection id, path,
headers, the body un-gzipped and de-framed, the decision, and global stamps (`vcommon::stamp`)
for "request head received", "body read", "about to write the response" and "response written".

A port that must *refuse* connections is a socket that is bound but not listening (`connect`
gets ECONNREFUSED and nobody else can grab the port); [`Collector::listen`] turns it into a
listening endpoint later (transient outage).

Bodies are decoded on demand by the oracles ([`Record::items`]) with the prost types generated
for emit_otlp's own tests (`#[path]`-included through the `harness/repo` symlink, because they are
`cfg(test)`-only inside the crate) or with serde_json.

The collector never judges anything. It is an instrument: tokio, h2, prost, serde_json and
flate2 are in the trusted base.
*/
#![allow(dead_code)]

use std::{
    collections::VecDeque,
    io::Read as _,
    os::fd::{AsRawFd, FromRawFd, OwnedFd, RawFd},
    sync::{
        atomic::{AtomicU64, Ordering},
        Arc, Condvar, Mutex, OnceLock,
    },
    time::{Duration, Instant},
};

use tokio::{
    io::{AsyncReadExt, AsyncWriteExt},
    net::TcpStream,
    sync::{watch, Notify},
};

use vcommon::stamp;

// ---------------------------------------------------------------------------
// prost types (generated for emit_otlp's own tests)
// ---------------------------------------------------------------------------

#[path = ""]
pub mod pb {
    #[path = ""]
    pub mod common {
        #[path = "../../../repo/emitter/otlp/src/data/generated/opentelemetry.proto.common.v1.rs"]
        pub mod v1;
    }
    #[path = ""]
    pub mod resource {
        #[path = "../../../repo/emitter/otlp/src/data/generated/opentelemetry.proto.resource.v1.rs"]
        pub mod v1;
    }
    #[path = ""]
    pub mod logs {
        #[path = "../../../repo/emitter/otlp/src/data/generated/opentelemetry.proto.logs.v1.rs"]
        pub mod v1;
    }
    #[path = ""]
    pub mod trace {
        #[path = "../../../repo/emitter/otlp/src/data/generated/opentelemetry.proto.trace.v1.rs"]
        pub mod v1;
    }
    #[path = ""]
    pub mod metrics {
        #[path = "../../../repo/emitter/otlp/src/data/generated/opentelemetry.proto.metrics.v1.rs"]
        pub mod v1;
    }
    #[path = ""]
    pub mod collector {
        #[path = ""]
        pub mod logs {
            #[path = "../../../repo/emitter/otlp/src/data/generated/opentelemetry.proto.collector.logs.v1.rs"]
            pub mod v1;
        }
        #[path = ""]
        pub mod trace {
            #[path = "../../../repo/emitter/otlp/src/data/generated/opentelemetry.proto.collector.trace.v1.rs"]
            pub mod v1;
        }
        #[path = ""]
        pub mod metrics {
            #[path = "../../../repo/emitter/otlp/src/data/generated/opentelemetry.proto.collector.metrics.v1.rs"]
            pub mod v1;
        }
    }
}

// ---------------------------------------------------------------------------
// vocabulary
// ---------------------------------------------------------------------------

#[derive(Clone, Copy, Debug, PartialEq, Eq, Hash, PartialOrd, Ord)]
pub enum Signal {
    Logs,
    Traces,
    Metrics,
}

impl Signal {
    pub const ALL: [Signal; 3] = [Signal::Logs, Signal::Traces, Signal::Metrics];

    pub fn name(self) -> &'static str {
        match self {
            Signal::Logs => "logs",
            Signal::Traces => "traces",
            Signal::Metrics => "metrics",
        }
    }

    pub fn bit(self) -> u8 {
        match self {
            Signal::Logs => 1,
            Signal::Traces => 2,
            Signal::Metrics => 4,
        }
    }

    pub fn http_path(self) -> &'static str {
        match self {
            Signal::Logs => "/v1/logs",
            Signal::Traces => "/v1/traces",
            Signal::Metrics => "/v1/metrics",
        }
    }

    pub fn grpc_path(self) -> &'static str {
        match self {
            Signal::Logs => "/opentelemetry.proto.collector.logs.v1.LogsService/Export",
            Signal::Traces => "/opentelemetry.proto.collector.trace.v1.TraceService/Export",
            Signal::Metrics => "/opentelemetry.proto.collector.metrics.v1.MetricsService/Export",
        }
    }

    /// The signal a request path denotes (HTTP or gRPC form).
    pub fn of_path(path: &str) -> Option<Signal> {
        Signal::ALL.into_iter().find(|s| path == s.http_path() || path == s.grpc_path())
    }
}

/// `"L"`, `"LT"`, `"-"` … for a bit set of signals.
pub fn subset_name(bits: u8) -> String {
    let mut s = String::new();
    for (sig, c) in Signal::ALL.into_iter().zip(['L', 'T', 'M']) {
        if bits & sig.bit() != 0 {
            s.push(c);
        }
    }
    if s.is_empty() {
        s.push('-');
    }
    s
}

#[derive(Clone, Copy, Debug, PartialEq, Eq, Hash)]
pub enum Wire {
    Http1,
    Grpc,
}

#[derive(Clone, Copy, Debug, PartialEq, Eq, Hash)]
pub enum GrpcForm {
    /// `200` response headers, then a trailers frame carrying `grpc-status`
    Trailers,
    /// a single headers frame with END_STREAM carrying `:status 200` and `grpc-status`
    TrailersOnly,
}

/// Where in its response the collector stops and stalls (with the connection left open).
#[derive(Clone, Copy, Debug, PartialEq, Eq, Hash)]
pub enum Phase {
    /// HTTP/1: in the middle of the response head (`HTTP/1.1 200 OK\r\nContent-Le`). gRPC: like `AfterHeaders`
    InHead,
    /// HTTP/1: after a complete head announcing a body (`Content-Length: 64`), before the body.
    /// gRPC: after the response HEADERS frame (`:status 200`, content-type), no message, no trailers
    AfterHeaders,
    /// HTTP/1: after 10 of the 64 body bytes. gRPC: after 3 of the 5 bytes of the message prefix
    InBody,
    /// gRPC: after a complete (empty) response message, before the trailers. HTTP/1: like `InBody`
    BeforeTrailers,
}

impl Phase {
    pub const ALL: [Phase; 4] = [Phase::InHead, Phase::AfterHeaders, Phase::InBody, Phase::BeforeTrailers];

    pub fn name(self) -> &'static str {
        match self {
            Phase::InHead => "in-head",
            Phase::AfterHeaders => "after-headers",
            Phase::InBody => "in-body",
            Phase::BeforeTrailers => "before-trailers",
        }
    }
}

/// gRPC: how a response fails AFTER its `200` HEADERS frame was sent and before any `grpc-status`.
#[derive(Clone, Copy, Debug, PartialEq, Eq, Hash)]
pub enum HeadThen {
    /// RST_STREAM with this HTTP/2 error code on that stream (2 INTERNAL_ERROR, 8 CANCEL, 11
    /// ENHANCE_YOUR_CALM ...); the connection stays. Code 0 (NO_ERROR) is special: HTTP clients treat it
    /// as a clean end of the response (RFC 7540 8.1), so the response simply ends without any status
    Reset(u32),
    /// the TCP connection is dropped mid-response (`reset`: RST, else FIN)
    DropConnection { reset: bool },
    /// the stream ends cleanly - END_STREAM on an empty DATA frame - without any trailers
    EndStream,
}

pub fn h2_reason_name(code: u32) -> &'static str {
    match code {
        0 => "no-error",
        1 => "protocol-error",
        2 => "internal-error",
        3 => "flow-control-error",
        5 => "stream-closed",
        7 => "refused-stream",
        8 => "cancel",
        11 => "enhance-your-calm",
        _ => "other-error-code",
    }
}

/// What the collector does with one request.
#[derive(Clone, Copy, Debug, PartialEq, Eq, Hash)]
pub enum Decision {
    /// HTTP: respond with this 2xx status; gRPC: `grpc-status: 0` (the number is ignored)
    Ack(u16),
    /// hold the request until [`Collector::release_gate`] (at most this many ms), then acknowledge
    HoldAck(u32),
    /// acknowledge after this many ms
    DelayAck(u32),
    /// HTTP/1: write a complete `200` head that announces a body (`Content-Length: 64`, or
    /// `Transfer-Encoding: chunked` when `chunked`), optionally the first 10 bytes of that body
    /// (`in_body`), flush, then close the connection gracefully (FIN, not RST: TCP delivers the head
    /// before the EOF, so the peer necessarily sees the 2xx before the close). gRPC: a plain acknowledgement
    AckThenClose { chunked: bool, in_body: bool },
    /// Answer normally and completely (200 / grpc-status 0), THEN close the established connection
    /// (`reset`: RST, else FIN) - a proxy's idle timeout, a collector restart: the peer's next request
    /// finds its cached connection dead
    AckThenDrop { reset: bool },
    /// HTTP: respond with this non-2xx status. gRPC: that `:status` without any `grpc-status`
    Status(u16),
    /// gRPC: respond with this non-zero `grpc-status`
    GrpcStatus(u32, GrpcForm),
    /// read the body, never answer (the connection stays open until the peer gives up)
    Stall,
    /// read the body, begin a response (HTTP/1: with this status; gRPC: always `:status 200`), stop at
    /// the given phase and stall with the connection open
    StallAt(Phase, u16),
    /// close a *new* connection without reading anything (on an established connection: like `DropBeforeBody`)
    DropOnAccept,
    /// reset the connection after the request head, before reading the body
    DropBeforeBody,
    /// read the whole body, then close the connection without answering
    DropAfterRead,
    /// gRPC: read the whole request, send the `200` response HEADERS (content-type application/grpc),
    /// optionally (`true`) a complete empty response message as well, and THEN fail as told before any
    /// `grpc-status` was sent. Never an acknowledgement. HTTP/1: like `DropAfterRead`
    AfterHeaders(HeadThen, bool),
    /// gRPC: a complete response whose `grpc-status` is not a number ([`UNREADABLE_STATUS`]`[n % len]`), in a
    /// trailers frame after the response message or in a trailers-only response. The status is mandatory and
    /// numeric: this acknowledges nothing. HTTP/1: like `Status(503)`
    GrpcStatusUnreadable(GrpcForm, u8),
}

/// Values of a `grpc-status` that is present but not a number.
pub const UNREADABLE_STATUS: [&str; 4] = ["OK", "", "zero", "0x0"];

impl Decision {
    pub fn is_ack(self) -> bool {
        matches!(self, Decision::Ack(_) | Decision::HoldAck(_) | Decision::DelayAck(_) | Decision::AckThenClose { .. } | Decision::AckThenDrop { .. })
    }

    pub fn is_ack_then_drop(self) -> bool {
        matches!(self, Decision::AckThenDrop { .. })
    }

    pub fn is_ack_then_close(self) -> bool {
        matches!(self, Decision::AckThenClose { .. })
    }

    pub fn is_fault(self) -> bool {
        !self.is_ack()
    }

    /// The collector breaks (or abandons) the connection as part of this decision.
    pub fn breaks_connection(self) -> bool {
        matches!(
            self,
            Decision::Stall
                | Decision::StallAt(..)
                | Decision::DropOnAccept
                | Decision::DropBeforeBody
                | Decision::DropAfterRead
                | Decision::AckThenClose { .. }
                | Decision::AckThenDrop { .. }
                | Decision::AfterHeaders(HeadThen::DropConnection { .. }, _)
        )
    }

    /// gRPC: the response began (`200` HEADERS) and then failed / ended before any `grpc-status`.
    pub fn is_after_headers(self) -> bool {
        matches!(self, Decision::AfterHeaders(..))
    }

    /// gRPC: the response ENDS CLEANLY after its HEADERS without any `grpc-status` (END_STREAM on an empty
    /// DATA frame, or RST_STREAM(NO_ERROR), which clients read as a clean end). The status is mandatory:
    /// that is not an acknowledgement.
    pub fn ends_without_grpc_status(self) -> bool {
        matches!(self, Decision::AfterHeaders(HeadThen::EndStream, _) | Decision::AfterHeaders(HeadThen::Reset(0), _))
    }

    /// Attempts this fault costs the peer that the collector never sees: after a connection that died
    /// mid-response the peer's next attempt may fail on the dead cached connection before it reconnects.
    pub fn hidden_attempts(self) -> usize {
        match self {
            Decision::AfterHeaders(HeadThen::DropConnection { .. }, _) | Decision::AckThenDrop { .. } => 1,
            _ => 0,
        }
    }

    /// Any of the decisions that leave the request hanging.
    pub fn is_stall(self) -> bool {
        matches!(self, Decision::Stall | Decision::StallAt(..))
    }

    /// The phase name for signatures (`no-response` for a plain stall).
    pub fn stall_phase(self) -> Option<&'static str> {
        match self {
            Decision::Stall => Some("no-response"),
            Decision::StallAt(p, _) => Some(p.name()),
            _ => None,
        }
    }

    /// A stalled HTTP/1 response whose complete head carried a 2xx status: the statement does not
    /// settle whether that is an acknowledgement (the emitter has seen the 2xx) or a timeout.
    pub fn http1_2xx_head_then_stall(self) -> bool {
        matches!(self, Decision::StallAt(p, c) if p != Phase::InHead && (200..300).contains(&c))
    }

    pub fn reads_body(self) -> bool {
        !matches!(self, Decision::DropOnAccept | Decision::DropBeforeBody)
    }

    /// Stable short name (used in signatures and evidence).
    pub fn name(self) -> String {
        match self {
            Decision::Ack(c) => format!("ack{}", c),
            Decision::HoldAck(_) => "hold-ack".into(),
            Decision::DelayAck(_) => "delay-ack".into(),
            Decision::AckThenClose { chunked, in_body } => format!("ack200-{}-then-close-{}", if chunked { "chunked" } else { "content-length" }, if in_body { "inside-the-body" } else { "before-the-body" }),
            Decision::AckThenDrop { reset } => format!("ack200-then-connection-{}", if reset { "reset" } else { "closed" }),
            Decision::Status(c) => format!("status{}", c),
            Decision::GrpcStatus(c, GrpcForm::Trailers) => format!("grpc{}", c),
            Decision::GrpcStatus(c, GrpcForm::TrailersOnly) => format!("grpc{}-trailers-only", c),
            Decision::Stall => "stall".into(),
            Decision::StallAt(p, c) => format!("stall-{}-{}", p.name(), c),
            Decision::DropOnAccept => "drop-on-accept".into(),
            Decision::DropBeforeBody => "drop-before-body".into(),
            Decision::DropAfterRead => "drop-after-read".into(),
            Decision::GrpcStatusUnreadable(form, n) => format!(
                "grpc-status-not-a-number-{}{}",
                ["OK", "empty", "zero", "0x0"][n as usize % UNREADABLE_STATUS.len()],
                if form == GrpcForm::TrailersOnly { "-trailers-only" } else { "" }
            ),
            Decision::AfterHeaders(how, msg) => {
                let at = if msg { "after-headers-and-message" } else { "after-headers" };
                match how {
                    HeadThen::Reset(code) => format!("reset-stream-{}-{}", h2_reason_name(code), at),
                    HeadThen::DropConnection { reset } => format!("connection-{}-{}", if reset { "reset" } else { "closed" }, at),
                    HeadThen::EndStream => format!("end-stream-without-trailers-{}", at),
                }
            }
        }
    }

    /// Fault class without numbers (for signatures).
    pub fn class(self) -> &'static str {
        match self {
            Decision::Ack(_) | Decision::HoldAck(_) | Decision::DelayAck(_) => "ack",
            Decision::AckThenClose { .. } => "ack-then-close",
            Decision::AckThenDrop { .. } => "ack-then-idle-connection-closed",
            Decision::Status(_) => "non-2xx",
            Decision::GrpcStatus(_, GrpcForm::Trailers) => "grpc-status",
            Decision::GrpcStatus(_, GrpcForm::TrailersOnly) => "grpc-status-trailers-only",
            Decision::Stall => "stall",
            Decision::StallAt(Phase::InHead, _) => "stall-in-head",
            Decision::StallAt(Phase::AfterHeaders, _) => "stall-after-headers",
            Decision::StallAt(Phase::InBody, _) => "stall-in-body",
            Decision::StallAt(Phase::BeforeTrailers, _) => "stall-before-trailers",
            Decision::DropOnAccept => "drop-on-accept",
            Decision::DropBeforeBody => "drop-before-body",
            Decision::DropAfterRead => "drop-after-read",
            // the response ends cleanly without any status (END_STREAM without trailers, RST_STREAM(NO_ERROR))
            Decision::AfterHeaders(HeadThen::Reset(0), _) | Decision::AfterHeaders(HeadThen::EndStream, _) => "no-grpc-status",
            Decision::AfterHeaders(HeadThen::Reset(_), _) => "reset-after-headers",
            Decision::AfterHeaders(HeadThen::DropConnection { .. }, _) => "connection-dropped-after-headers",
            Decision::GrpcStatusUnreadable(..) => "unreadable-grpc-status",
        }
    }
}

/// One request as the collector saw it.
#[derive(Clone, Debug)]
pub struct Record {
    /// position in the collector's log (arrival order over all endpoints)
    pub idx: usize,
    /// the endpoint (port) it arrived at
    pub endpoint: Signal,
    /// arrival index on that endpoint = position in its script
    pub seq: usize,
    pub conn: u64,
    pub wire: Wire,
    /// empty for `DropOnAccept` (nothing was read)
    pub path: String,
    /// lower-cased names
    pub headers: Vec<(String, String)>,
    pub decision: Decision,
    /// un-gzipped and de-framed; `None` = not (completely) read
    pub body: Option<Arc<Vec<u8>>>,
    /// bytes on the wire (compressed, framed)
    pub wire_len: usize,
    pub gzip: bool,
    /// the body is unusable: framing / compression problems, aborted bodies
    pub note: Option<String>,
    /// the response could not be written
    pub io_note: Option<String>,
    pub received: u64,
    pub body_read: Option<u64>,
    /// taken immediately *before* the response is handed to the socket
    pub responding: Option<u64>,
    /// taken after the response was written (HTTP/1: `write_all` + `flush` returned; h2: queued)
    pub responded: Option<u64>,
    /// `StallAt`: the partial response was written (stamp after the write)
    pub partial_written: Option<u64>,
    /// the collector is finished with the request (answered, dropped, or the peer went away)
    pub done: Option<u64>,
    /// the peer closed / reset while the request was unanswered
    pub peer_gone: bool,
    /// a validating endpoint ([`Collector::set_validator`]) found the request malformed and answered
    /// 400 / grpc-status 3 instead of the scripted acknowledgement (`decision` says so too)
    pub rejected: Option<String>,
}

impl Record {
    pub fn header(&self, name: &str) -> Option<&str> {
        self.headers.iter().find(|(k, _)| k == name).map(|(_, v)| v.as_str())
    }

    /// A success response was written for this request.
    pub fn acked(&self) -> bool {
        (self.decision.is_ack() && self.responded.is_some()) || self.acked_by_status_line()
    }

    /// HTTP/1 only: a complete response head with a 2xx status was written, then the body stalled.
    /// Counted as an acknowledgement (the peer has the 2xx); whether the peer also retries is left open.
    pub fn acked_by_status_line(&self) -> bool {
        self.wire == Wire::Http1 && self.decision.http1_2xx_head_then_stall() && self.partial_written.is_some()
    }

    /// The signal the *path* denotes.
    pub fn path_signal(&self) -> Option<Signal> {
        Signal::of_path(&self.path)
    }

    pub fn is_json(&self) -> bool {
        self.header("content-type").map(|c| c.starts_with("application/json")).unwrap_or(false)
    }

    /// Decode the body into its records (log records / spans / metrics).
    pub fn items(&self) -> Result<Vec<Item>, String> {
        let body = self.body.as_ref().ok_or_else(|| "body was not read".to_string())?;
        if let Some(n) = &self.note {
            return Err(format!("body is unusable: {}", n));
        }
        let sig = self.path_signal().ok_or_else(|| format!("unknown path {:?}", self.path))?;
        if self.is_json() {
            decode_json(sig, body)
        } else {
            decode_proto(sig, body)
        }
    }

    pub fn brief(&self) -> vcommon::Json {
        vcommon::json!({
            "endpoint": self.endpoint.name(), "seq": self.seq, "conn": self.conn, "path": self.path,
            "decision": self.decision.name(), "wire_len": self.wire_len, "gzip": self.gzip,
            "body_len": self.body.as_ref().map(|b| b.len()), "note": self.note, "io_note": self.io_note,
            "received": self.received, "responding": self.responding, "responded": self.responded, "partial_written": self.partial_written, "done": self.done,
            "peer_gone": self.peer_gone, "rejected": self.rejected,
        })
    }
}

#[derive(Clone, Debug)]
pub struct ConnInfo {
    pub id: u64,
    pub endpoint: Signal,
    pub accepted: u64,
    pub closed: Option<u64>,
    pub closed_by_collector: bool,
}

/// One exported record (log record, span or metric).
#[derive(Clone, Debug, PartialEq)]
pub struct Item {
    /// the `vid` attribute (metrics: taken from the data points; they all repeat the attributes)
    pub vid_attr: Option<u64>,
    /// log body / span name / metric name
    pub name: String,
    /// metrics: number of data points
    pub points: Option<usize>,
}

impl Item {
    /// The id of the event this record was made from: the `vid` attribute, else `v<digits>` in the name.
    pub fn vid(&self) -> Option<u64> {
        self.vid_attr.or_else(|| self.name.strip_prefix('v').and_then(|d| d.parse().ok()))
    }
}

// ---------------------------------------------------------------------------
// decoding
// ---------------------------------------------------------------------------

fn vid_of_proto(attrs: &[pb::common::v1::KeyValue]) -> Option<u64> {
    use pb::common::v1::any_value::Value as V;
    for kv in attrs {
        if kv.key == "vid" {
            return match kv.value.as_ref().and_then(|v| v.value.as_ref()) {
                Some(V::IntValue(i)) => Some(*i as u64),
                Some(V::StringValue(s)) => s.parse().ok(),
                Some(V::DoubleValue(d)) => Some(*d as u64),
                _ => None,
            };
        }
    }
    None
}

pub fn decode_proto(sig: Signal, body: &[u8]) -> Result<Vec<Item>, String> {
    use prost::Message;
    let mut out = Vec::new();
    match sig {
        Signal::Logs => {
            let req = pb::collector::logs::v1::ExportLogsServiceRequest::decode(body).map_err(|e| format!("prost: {}", e))?;
            for rl in &req.resource_logs {
                for sl in &rl.scope_logs {
                    for lr in &sl.log_records {
                        let name = match lr.body.as_ref().and_then(|b| b.value.as_ref()) {
                            Some(pb::common::v1::any_value::Value::StringValue(s)) => s.clone(),
                            _ => String::new(),
                        };
                        out.push(Item { vid_attr: vid_of_proto(&lr.attributes), name, points: None });
                    }
                }
            }
        }
        Signal::Traces => {
            let req = pb::collector::trace::v1::ExportTraceServiceRequest::decode(body).map_err(|e| format!("prost: {}", e))?;
            for rs in &req.resource_spans {
                for ss in &rs.scope_spans {
                    for sp in &ss.spans {
                        out.push(Item { vid_attr: vid_of_proto(&sp.attributes), name: sp.name.clone(), points: None });
                    }
                }
            }
        }
        Signal::Metrics => {
            use pb::metrics::v1::metric::Data;
            let req = pb::collector::metrics::v1::ExportMetricsServiceRequest::decode(body).map_err(|e| format!("prost: {}", e))?;
            for rm in &req.resource_metrics {
                for sm in &rm.scope_metrics {
                    for m in &sm.metrics {
                        let (n, vid) = match &m.data {
                            Some(Data::Gauge(g)) => (g.data_points.len(), g.data_points.iter().find_map(|p| vid_of_proto(&p.attributes))),
                            Some(Data::Sum(s)) => (s.data_points.len(), s.data_points.iter().find_map(|p| vid_of_proto(&p.attributes))),
                            Some(Data::Histogram(h)) => (h.data_points.len(), h.data_points.iter().find_map(|p| vid_of_proto(&p.attributes))),
                            Some(Data::ExponentialHistogram(h)) => (h.data_points.len(), h.data_points.iter().find_map(|p| vid_of_proto(&p.attributes))),
                            Some(Data::Summary(s)) => (s.data_points.len(), s.data_points.iter().find_map(|p| vid_of_proto(&p.attributes))),
                            None => (0, None),
                        };
                        out.push(Item { vid_attr: vid, name: m.name.clone(), points: Some(n) });
                    }
                }
            }
        }
    }
    Ok(out)
}

fn vid_of_json(attrs: Option<&vcommon::Json>) -> Option<u64> {
    let attrs = attrs?.as_array()?;
    for kv in attrs {
        if kv.get("key").and_then(|k| k.as_str()) == Some("vid") {
            let v = kv.get("value")?;
            for f in ["intValue", "stringValue", "doubleValue"] {
                if let Some(x) = v.get(f) {
                    if let Some(n) = x.as_u64() {
                        return Some(n);
                    }
                    if let Some(s) = x.as_str() {
                        return s.parse().ok();
                    }
                    if let Some(d) = x.as_f64() {
                        return Some(d as u64);
                    }
                }
            }
            return None;
        }
    }
    None
}

fn arr<'a>(v: &'a vcommon::Json, key: &str) -> impl Iterator<Item = &'a vcommon::Json> {
    v.get(key).and_then(|a| a.as_array()).map(|a| a.iter()).into_iter().flatten()
}

pub fn decode_json(sig: Signal, body: &[u8]) -> Result<Vec<Item>, String> {
    let v: vcommon::Json = serde_json::from_slice(body).map_err(|e| format!("serde_json: {}", e))?;
    let mut out = Vec::new();
    match sig {
        Signal::Logs => {
            for rl in arr(&v, "resourceLogs") {
                for sl in arr(rl, "scopeLogs") {
                    for lr in arr(sl, "logRecords") {
                        let name = lr.get("body").and_then(|b| b.get("stringValue")).and_then(|s| s.as_str()).unwrap_or("").to_string();
                        out.push(Item { vid_attr: vid_of_json(lr.get("attributes")), name, points: None });
                    }
                }
            }
        }
        Signal::Traces => {
            for rs in arr(&v, "resourceSpans") {
                for ss in arr(rs, "scopeSpans") {
                    for sp in arr(ss, "spans") {
                        let name = sp.get("name").and_then(|s| s.as_str()).unwrap_or("").to_string();
                        out.push(Item { vid_attr: vid_of_json(sp.get("attributes")), name, points: None });
                    }
                }
            }
        }
        Signal::Metrics => {
            for rm in arr(&v, "resourceMetrics") {
                for sm in arr(rm, "scopeMetrics") {
                    for m in arr(sm, "metrics") {
                        let name = m.get("name").and_then(|s| s.as_str()).unwrap_or("").to_string();
                        let mut n = 0;
                        let mut vid = None;
                        for data in ["gauge", "sum", "histogram", "exponentialHistogram", "summary"] {
                            if let Some(d) = m.get(data) {
                                for p in arr(d, "dataPoints") {
                                    n += 1;
                                    if vid.is_none() {
                                        vid = vid_of_json(p.get("attributes"));
                                    }
                                }
                            }
                        }
                        out.push(Item { vid_attr: vid, name, points: Some(n) });
                    }
                }
            }
        }
    }
    Ok(out)
}

// ---------------------------------------------------------------------------
// validation (what a real collector does before it acknowledges)
// ---------------------------------------------------------------------------

fn pb_varint(b: &[u8], at: &mut usize) -> Option<u64> {
    let mut v = 0u64;
    for shift in (0..64).step_by(7) {
        let byte = *b.get(*at)?;
        *at += 1;
        v |= ((byte & 0x7f) as u64) << shift;
        if byte & 0x80 == 0 {
            return Some(v);
        }
    }
    None
}

/// The top-level fields of one protobuf message: (field number, payload of a LEN field / empty otherwise).
/// `None` = not a well-formed sequence of fields.
fn pb_fields(b: &[u8]) -> Option<Vec<(u64, &[u8])>> {
    let mut at = 0;
    let mut out = Vec::new();
    while at < b.len() {
        let key = pb_varint(b, &mut at)?;
        let (field, wt) = (key >> 3, key & 7);
        match wt {
            0 => {
                pb_varint(b, &mut at)?;
                out.push((field, &b[0..0]));
            }
            1 => {
                at = at.checked_add(8).filter(|e| *e <= b.len())?;
                out.push((field, &b[0..0]));
            }
            5 => {
                at = at.checked_add(4).filter(|e| *e <= b.len())?;
                out.push((field, &b[0..0]));
            }
            2 => {
                let len = pb_varint(b, &mut at)? as usize;
                let end = at.checked_add(len).filter(|e| *e <= b.len())?;
                out.push((field, &b[at..end]));
                at = end;
            }
            _ => return None,
        }
    }
    Some(out)
}

fn resource_keys_proto(res: &pb::resource::v1::Resource) -> Vec<String> {
    res.attributes.iter().map(|kv| kv.key.clone()).collect()
}

/// Validate one export request the way a real collector does for the content type of the request:
/// `application/json` bodies must parse as the JSON object of the endpoint's signal, everything else must
/// decode as its protobuf message - INCLUDING the `resource` of every `Resource*` element, which must be a
/// Resource in that same encoding and carry an attribute for each of `resource_keys`.
/// `Err` starts with `resource:` when the envelope around the resource is fine and only the resource part is
/// not, with `body:` otherwise.
pub fn validate_export_request(rec: &Record, resource_keys: &[String]) -> Result<(), String> {
    use prost::Message;
    let body = rec.body.as_ref().ok_or_else(|| "body: not read".to_string())?;
    if let Some(n) = &rec.note {
        return Err(format!("body: {}", n));
    }
    let sig = rec.path_signal().ok_or_else(|| format!("body: unknown path {:?}", rec.path))?;
    let (top_key, scope_key) = match sig {
        Signal::Logs => ("resourceLogs", "scopeLogs"),
        Signal::Traces => ("resourceSpans", "scopeSpans"),
        Signal::Metrics => ("resourceMetrics", "scopeMetrics"),
    };
    let check_keys = |have: &[String]| -> Result<(), String> {
        for k in resource_keys {
            if !have.iter().any(|h| h == k) {
                return Err(format!("resource: attribute {:?} is missing (attributes present: {:?})", k, have));
            }
        }
        Ok(())
    };
    if rec.is_json() {
        let parsed: Result<vcommon::Json, _> = serde_json::from_slice(body);
        let v = match parsed {
            Ok(v) => v,
            Err(e) => {
                // is it only the resource part? cut `"resource":<...>,"scope*"` out and try again
                let open = format!("\"resource\":");
                let close = format!(",\"{}\"", scope_key);
                if let (Some(a), Some(b)) = (find(body, open.as_bytes()), find(body, close.as_bytes())) {
                    if a < b {
                        let mut cut = body[..a + open.len()].to_vec();
                        cut.extend_from_slice(b"{}");
                        cut.extend_from_slice(&body[b..]);
                        if serde_json::from_slice::<vcommon::Json>(&cut).is_ok() {
                            let part = &body[a + open.len()..b];
                            return Err(format!("resource: the JSON request parses only without its resource, which is {} bytes that are not JSON ({}): {}", part.len(), e, vcommon::show_bytes(&part[..part.len().min(48)])));
                        }
                    }
                }
                return Err(format!("body: not JSON: {}", e));
            }
        };
        let top = v.get(top_key).and_then(|a| a.as_array()).ok_or_else(|| format!("body: JSON object without a {} array", top_key))?;
        for el in top {
            if el.get(scope_key).and_then(|a| a.as_array()).is_none() {
                return Err(format!("body: a {} element has no {} array", top_key, scope_key));
            }
            match el.get("resource") {
                None | Some(vcommon::Json::Null) => check_keys(&[])?,
                Some(res) => {
                    let attrs = match res.get("attributes") {
                        None => Vec::new(),
                        Some(a) => a.as_array().ok_or_else(|| "resource: attributes is not an array".to_string())?.clone(),
                    };
                    if !res.is_object() {
                        return Err(format!("resource: not a JSON object: {}", res));
                    }
                    let mut have = Vec::new();
                    for kv in &attrs {
                        let k = kv.get("key").and_then(|k| k.as_str()).ok_or_else(|| format!("resource: attribute without a string key: {}", kv))?;
                        if !kv.get("value").map(|v| v.is_object()).unwrap_or(false) {
                            return Err(format!("resource: attribute {:?} without an AnyValue object", k));
                        }
                        have.push(k.to_string());
                    }
                    check_keys(&have)?;
                }
            }
        }
        Ok(())
    } else {
        // the envelope by hand, so that a bad resource can be told from a bad request
        let envelope = pb_fields(body).and_then(|top| {
            let mut resources: Vec<Option<&[u8]>> = Vec::new();
            for (f, payload) in top {
                if f == 1 {
                    let inner = pb_fields(payload)?;
                    resources.push(inner.iter().find(|(f, _)| *f == 1).map(|(_, p)| *p));
                }
            }
            Some(resources)
        });
        let whole = match sig {
            Signal::Logs => pb::collector::logs::v1::ExportLogsServiceRequest::decode(&body[..]).map(|_| ()),
            Signal::Traces => pb::collector::trace::v1::ExportTraceServiceRequest::decode(&body[..]).map(|_| ()),
            Signal::Metrics => pb::collector::metrics::v1::ExportMetricsServiceRequest::decode(&body[..]).map(|_| ()),
        };
        match envelope {
            Some(resources) => {
                for res in resources {
                    match res {
                        None => check_keys(&[])?,
                        Some(bytes) => match pb::resource::v1::Resource::decode(bytes) {
                            Ok(r) => {
                                // field 1 = attributes, 2 = dropped_attributes_count: anything else is not a Resource
                                if pb_fields(bytes).map(|fs| fs.iter().any(|(f, _)| *f == 0 || *f > 3)).unwrap_or(true) {
                                    return Err(format!("resource: {} bytes that are not a protobuf Resource: {}", bytes.len(), vcommon::show_bytes(&bytes[..bytes.len().min(48)])));
                                }
                                check_keys(&resource_keys_proto(&r))?
                            }
                            Err(e) => return Err(format!("resource: {} bytes that do not decode as a protobuf Resource ({}): {}", bytes.len(), e, vcommon::show_bytes(&bytes[..bytes.len().min(48)]))),
                        },
                    }
                }
                whole.map_err(|e| format!("body: prost: {}", e))
            }
            None => Err(format!("body: not a protobuf message{}", whole.err().map(|e| format!(" (prost: {})", e)).unwrap_or_default())),
        }
    }
}

fn gunzip(data: &[u8]) -> Result<Vec<u8>, String> {
    let mut out = Vec::with_capacity(data.len() * 2);
    flate2::read::GzDecoder::new(data).read_to_end(&mut out).map_err(|e| format!("gzip: {}", e))?;
    Ok(out)
}

/// Strip the gRPC message frame (and its compression).
fn deframe_grpc(data: &[u8]) -> (Vec<u8>, bool, Option<String>) {
    if data.len() < 5 {
        return (data.to_vec(), false, Some(format!("gRPC frame shorter than its prefix ({} bytes)", data.len())));
    }
    let flag = data[0];
    let len = u32::from_be_bytes([data[1], data[2], data[3], data[4]]) as usize;
    let msg = &data[5..];
    if len != msg.len() {
        return (msg.to_vec(), flag == 1, Some(format!("gRPC length prefix {} but {} message bytes", len, msg.len())));
    }
    match flag {
        0 => (msg.to_vec(), false, None),
        1 => match gunzip(msg) {
            Ok(b) => (b, true, None),
            Err(e) => (msg.to_vec(), true, Some(e)),
        },
        f => (msg.to_vec(), false, Some(format!("gRPC compression flag {}", f))),
    }
}

// ---------------------------------------------------------------------------
// the collector
// ---------------------------------------------------------------------------

/// One tokio runtime for all collectors of the process.
pub fn runtime() -> &'static tokio::runtime::Runtime {
    static RT: OnceLock<tokio::runtime::Runtime> = OnceLock::new();
    RT.get_or_init(|| {
        tokio::runtime::Builder::new_multi_thread()
            .worker_threads(6)
            .thread_name("verif_collector")
            .enable_all()
            .build()
            .expect("collector runtime")
    })
}

pub struct EndpointCfg {
    pub signal: Signal,
    pub wire: Wire,
    /// false = bound but refusing connections until [`Collector::listen`]
    pub listen: bool,
    pub script: Vec<Decision>,
}

struct ScriptState {
    /// while set, every request gets this decision and the script is left alone
    repeat: Option<Decision>,
    script: VecDeque<Decision>,
    seq: usize,
    consumed_faults: usize,
}

struct Endpoint {
    signal: Signal,
    wire: Wire,
    port: u16,
    /// the bound socket while it is not listening yet
    bound: Mutex<Option<OwnedFd>>,
    script: Mutex<ScriptState>,
    /// when set, a request that was about to be acknowledged is validated first
    validator: Mutex<Option<Validator>>,
}

/// Decides whether a completely read request is well formed (`Err` = why not).
pub type Validator = Arc<dyn Fn(&Record) -> Result<(), String> + Send + Sync>;

impl Endpoint {
    /// A validating endpoint answers a malformed request like a real collector: 400 (HTTP) /
    /// grpc-status 3 INVALID_ARGUMENT, instead of the scripted acknowledgement.
    fn validated(&self, shared: &Shared, idx: usize, d: Decision) -> Decision {
        if !matches!(d, Decision::Ack(_) | Decision::HoldAck(_) | Decision::DelayAck(_)) {
            return d;
        }
        let Some(v) = self.validator.lock().unwrap().clone() else { return d };
        let rec = shared.log.lock().unwrap().records[idx].clone();
        match v(&rec) {
            Ok(()) => d,
            Err(e) => {
                let nd = if self.wire == Wire::Grpc { Decision::GrpcStatus(3, GrpcForm::TrailersOnly) } else { Decision::Status(400) };
                shared.update(idx, |r| {
                    r.decision = nd;
                    r.rejected = Some(e);
                });
                nd
            }
        }
    }

    fn next_decision(&self, new_connection: bool) -> (usize, Decision) {
        let mut s = self.script.lock().unwrap();
        let mut d = match s.repeat {
            Some(d) => d,
            None => s.script.pop_front().unwrap_or(Decision::Ack(200)),
        };
        if d == Decision::DropOnAccept && !new_connection {
            d = Decision::DropBeforeBody;
        }
        let seq = s.seq;
        s.seq += 1;
        if d.is_fault() {
            s.consumed_faults += 1;
        }
        (seq, d)
    }

    fn take_drop_on_accept(&self) -> Option<usize> {
        let mut s = self.script.lock().unwrap();
        let head = s.repeat.or_else(|| s.script.front().copied());
        if head == Some(Decision::DropOnAccept) {
            if s.repeat.is_none() {
                s.script.pop_front();
            }
            let seq = s.seq;
            s.seq += 1;
            s.consumed_faults += 1;
            Some(seq)
        } else {
            None
        }
    }
}

struct Log {
    records: Vec<Record>,
    conns: Vec<ConnInfo>,
}

struct Shared {
    log: Mutex<Log>,
    changed: Condvar,
    progress: AtomicU64,
    next_conn: AtomicU64,
    gate: watch::Sender<bool>,
    shutdown: watch::Sender<bool>,
}

impl Shared {
    fn touch(&self) {
        self.progress.fetch_add(1, Ordering::SeqCst);
        self.changed.notify_all();
    }

    fn new_conn(&self, endpoint: Signal) -> u64 {
        let id = self.next_conn.fetch_add(1, Ordering::SeqCst);
        self.log.lock().unwrap().conns.push(ConnInfo { id, endpoint, accepted: stamp(), closed: None, closed_by_collector: false });
        self.touch();
        id
    }

    fn close_conn(&self, id: u64, by_collector: bool) {
        {
            let mut log = self.log.lock().unwrap();
            if let Some(c) = log.conns.iter_mut().find(|c| c.id == id) {
                if c.closed.is_none() {
                    c.closed = Some(stamp());
                    c.closed_by_collector = by_collector;
                }
            }
            // whatever was unanswered on this connection is over now
            for r in log.records.iter_mut().filter(|r| r.conn == id && r.done.is_none()) {
                r.done = Some(stamp());
                if !by_collector {
                    r.peer_gone = true;
                }
            }
        }
        self.touch();
    }

    fn push(&self, ep: &Endpoint, seq: usize, conn: u64, path: String, headers: Vec<(String, String)>, decision: Decision) -> usize {
        let idx = {
            let mut log = self.log.lock().unwrap();
            let idx = log.records.len();
            log.records.push(Record {
                idx,
                endpoint: ep.signal,
                seq,
                conn,
                wire: ep.wire,
                path,
                headers,
                decision,
                body: None,
                wire_len: 0,
                gzip: false,
                note: None,
                io_note: None,
                received: stamp(),
                body_read: None,
                responding: None,
                responded: None,
                partial_written: None,
                done: None,
                peer_gone: false,
                rejected: None,
            });
            idx
        };
        self.touch();
        idx
    }

    fn update(&self, idx: usize, f: impl FnOnce(&mut Record)) {
        {
            let mut log = self.log.lock().unwrap();
            f(&mut log.records[idx]);
        }
        self.touch();
    }
}

pub struct Collector {
    shared: Arc<Shared>,
    endpoints: Vec<Arc<Endpoint>>,
}

fn bind_local() -> (OwnedFd, u16) {
    // socket + bind without listen: connecting to it is refused, and the port is reserved
    unsafe {
        let fd = libc::socket(libc::AF_INET, libc::SOCK_STREAM | libc::SOCK_CLOEXEC, 0);
        assert!(fd >= 0, "socket(): {}", std::io::Error::last_os_error());
        let mut addr: libc::sockaddr_in = std::mem::zeroed();
        addr.sin_family = libc::AF_INET as libc::sa_family_t;
        addr.sin_port = 0;
        addr.sin_addr = libc::in_addr { s_addr: u32::from_ne_bytes([127, 0, 0, 1]) };
        let rc = libc::bind(fd, &addr as *const _ as *const libc::sockaddr, std::mem::size_of::<libc::sockaddr_in>() as libc::socklen_t);
        assert!(rc == 0, "bind(): {}", std::io::Error::last_os_error());
        let mut len = std::mem::size_of::<libc::sockaddr_in>() as libc::socklen_t;
        let rc = libc::getsockname(fd, &mut addr as *mut _ as *mut libc::sockaddr, &mut len);
        assert!(rc == 0, "getsockname(): {}", std::io::Error::last_os_error());
        (OwnedFd::from_raw_fd(fd), u16::from_be(addr.sin_port))
    }
}

fn set_linger0(fd: RawFd) {
    // close() will send RST instead of FIN
    unsafe {
        let l = libc::linger { l_onoff: 1, l_linger: 0 };
        libc::setsockopt(fd, libc::SOL_SOCKET, libc::SO_LINGER, &l as *const _ as *const libc::c_void, std::mem::size_of::<libc::linger>() as libc::socklen_t);
    }
}

impl Collector {
    pub fn start(cfgs: Vec<EndpointCfg>) -> Collector {
        let (gate, _) = watch::channel(false);
        let (shutdown, _) = watch::channel(false);
        let shared = Arc::new(Shared {
            log: Mutex::new(Log { records: Vec::new(), conns: Vec::new() }),
            changed: Condvar::new(),
            progress: AtomicU64::new(0),
            next_conn: AtomicU64::new(1),
            gate,
            shutdown,
        });
        let mut endpoints = Vec::new();
        for cfg in cfgs {
            let (fd, port) = bind_local();
            endpoints.push(Arc::new(Endpoint {
                signal: cfg.signal,
                wire: cfg.wire,
                port,
                bound: Mutex::new(Some(fd)),
                script: Mutex::new(ScriptState { repeat: None, script: cfg.script.into(), seq: 0, consumed_faults: 0 }),
                validator: Mutex::new(None),
            }));
            if cfg.listen {
                Self::listen_on(&shared, endpoints.last().unwrap());
            }
        }
        Collector { shared, endpoints }
    }

    fn endpoint(&self, s: Signal) -> Option<&Arc<Endpoint>> {
        self.endpoints.iter().find(|e| e.signal == s)
    }

    fn listen_on(shared: &Arc<Shared>, ep: &Arc<Endpoint>) {
        let Some(fd) = ep.bound.lock().unwrap().take() else { return };
        let rc = unsafe { libc::listen(fd.as_raw_fd(), 256) };
        assert!(rc == 0, "listen(): {}", std::io::Error::last_os_error());
        let listener = std::net::TcpListener::from(fd);
        listener.set_nonblocking(true).expect("nonblocking");
        let shared = shared.clone();
        let ep = ep.clone();
        runtime().spawn(async move {
            let listener = tokio::net::TcpListener::from_std(listener).expect("tokio listener");
            accept_loop(shared, ep, listener).await;
        });
    }

    /// Start accepting on an endpoint that was refusing so far.
    pub fn listen(&self, s: Signal) {
        if let Some(ep) = self.endpoint(s) {
            Self::listen_on(&self.shared, ep);
        }
    }

    pub fn port(&self, s: Signal) -> u16 {
        self.endpoint(s).map(|e| e.port).unwrap_or(0)
    }

    /// The URL to configure on the emitter for this signal.
    pub fn url(&self, s: Signal) -> String {
        let ep = self.endpoint(s).expect("endpoint configured");
        match ep.wire {
            Wire::Http1 => format!("http://127.0.0.1:{}{}", ep.port, s.http_path()),
            Wire::Grpc => format!("http://127.0.0.1:{}", ep.port),
        }
    }

    /// While `Some`, every request on this endpoint gets that decision (the script is kept for later).
    /// Make the endpoint of `s` validate every request it was about to acknowledge.
    pub fn set_validator(&self, s: Signal, v: Validator) {
        if let Some(ep) = self.endpoint(s) {
            *ep.validator.lock().unwrap() = Some(v);
        }
    }

    pub fn set_repeat(&self, s: Signal, d: Option<Decision>) {
        if let Some(ep) = self.endpoint(s) {
            ep.script.lock().unwrap().repeat = d;
        }
    }

    /// Append decisions to the endpoint's script.
    pub fn push_script(&self, s: Signal, ds: &[Decision]) {
        if let Some(ep) = self.endpoint(s) {
            ep.script.lock().unwrap().script.extend(ds.iter().copied());
        }
    }

    /// Let every held request (`Decision::HoldAck`) go.
    pub fn release_gate(&self) {
        self.shared.gate.send_replace(true);
    }

    pub fn records(&self) -> Vec<Record> {
        self.shared.log.lock().unwrap().records.clone()
    }

    pub fn conns(&self) -> Vec<ConnInfo> {
        self.shared.log.lock().unwrap().conns.clone()
    }

    /// Bumped on every change of the log (new connection, request head, body, response, close).
    pub fn progress(&self) -> u64 {
        self.shared.progress.load(Ordering::SeqCst)
    }

    /// Requests on this endpoint the collector has not finished with.
    pub fn in_flight(&self, s: Signal) -> usize {
        self.shared.log.lock().unwrap().records.iter().filter(|r| r.endpoint == s && r.done.is_none()).count()
    }

    /// Faults of the script that were actually taken by a request.
    pub fn consumed_faults(&self, s: Signal) -> usize {
        self.endpoint(s).map(|e| e.script.lock().unwrap().consumed_faults).unwrap_or(0)
    }

    /// Block until `f(records)` holds; false when `max` elapsed first (a watchdog, never a verdict).
    pub fn wait_until(&self, max: Duration, f: impl Fn(&[Record]) -> bool) -> bool {
        let deadline = Instant::now() + max;
        let mut log = self.shared.log.lock().unwrap();
        loop {
            if f(&log.records) {
                return true;
            }
            let now = Instant::now();
            if now >= deadline {
                return false;
            }
            let (l, _) = self.shared.changed.wait_timeout(log, (deadline - now).min(Duration::from_millis(50))).unwrap();
            log = l;
        }
    }

    /// Wait until the collector's own bookkeeping has caught up: no response is half-recorded
    /// ("about to write" stamped, "written" not yet). The peer can see a response before the task
    /// that wrote it gets to note that it did. Call this before taking the records to judge them.
    pub fn settle(&self) -> bool {
        // (a response that was begun only to hang is never going to be "written")
        self.wait_until(Duration::from_secs(5), |recs| recs.iter().all(|r| r.decision.is_stall() || r.responding.is_none() || r.done.is_some()))
    }

    pub fn shutdown(&self) {
        self.shared.shutdown.send_replace(true);
        self.shared.gate.send_replace(true);
    }
}

impl Drop for Collector {
    fn drop(&mut self) {
        self.shutdown();
    }
}

async fn accept_loop(shared: Arc<Shared>, ep: Arc<Endpoint>, listener: tokio::net::TcpListener) {
    let mut shutdown = shared.shutdown.subscribe();
    if *shutdown.borrow() {
        return;
    }
    loop {
        tokio::select! {
            _ = shutdown.changed() => return,
            r = listener.accept() => {
                let Ok((stream, _)) = r else { continue };
                let _ = stream.set_nodelay(true);
                let conn = shared.new_conn(ep.signal);
                if let Some(seq) = ep.take_drop_on_accept() {
                    let idx = shared.push(&ep, seq, conn, String::new(), Vec::new(), Decision::DropOnAccept);
                    set_linger0(stream.as_raw_fd());
                    drop(stream);
                    shared.update(idx, |r| r.done = Some(stamp()));
                    shared.close_conn(conn, true);
                    continue;
                }
                let (shared, ep) = (shared.clone(), ep.clone());
                match ep.wire {
                    Wire::Http1 => { tokio::spawn(serve_http1(shared, ep, stream, conn)); }
                    Wire::Grpc => { tokio::spawn(serve_h2(shared, ep, stream, conn)); }
                }
            }
        }
    }
}

fn find(hay: &[u8], needle: &[u8]) -> Option<usize> {
    hay.windows(needle.len()).position(|w| w == needle)
}

async fn wait_gate(shared: &Shared, max_ms: u32) {
    let mut g = shared.gate.subscribe();
    if *g.borrow() {
        return;
    }
    tokio::select! {
        _ = g.changed() => {}
        _ = tokio::time::sleep(Duration::from_millis(max_ms as u64)) => {}
    }
}

fn reason(code: u16) -> &'static str {
    match code {
        200 => "OK",
        202 => "Accepted",
        204 => "No Content",
        301 => "Moved Permanently",
        400 => "Bad Request",
        401 => "Unauthorized",
        404 => "Not Found",
        408 => "Request Timeout",
        413 => "Payload Too Large",
        429 => "Too Many Requests",
        500 => "Internal Server Error",
        502 => "Bad Gateway",
        503 => "Service Unavailable",
        504 => "Gateway Timeout",
        _ => "Scripted",
    }
}

async fn serve_http1(shared: Arc<Shared>, ep: Arc<Endpoint>, mut stream: TcpStream, conn: u64) {
    let mut shutdown = shared.shutdown.subscribe();
    let mut buf: Vec<u8> = Vec::with_capacity(16 * 1024);
    let mut first = true;
    loop {
        // ---- request head ----
        let head_end = loop {
            if let Some(p) = find(&buf, b"\r\n\r\n") {
                break p + 4;
            }
            if buf.len() > 64 * 1024 {
                shared.close_conn(conn, true);
                return;
            }
            tokio::select! {
                _ = shutdown.changed() => { shared.close_conn(conn, true); return }
                n = stream.read_buf(&mut buf) => match n {
                    Ok(0) | Err(_) => { shared.close_conn(conn, false); return }
                    Ok(_) => {}
                }
            }
        };
        let head = String::from_utf8_lossy(&buf[..head_end]).into_owned();
        buf.drain(..head_end);
        let mut lines = head.split("\r\n");
        let request_line = lines.next().unwrap_or("");
        // hyper sends the absolute form (`POST http://host:port/v1/logs HTTP/1.1`), which servers must accept
        let target = request_line.split(' ').nth(1).unwrap_or("");
        let path = match target.find("://") {
            Some(p) => {
                let rest = &target[p + 3..];
                rest.find('/').map(|q| rest[q..].to_string()).unwrap_or_else(|| "/".to_string())
            }
            None => target.to_string(),
        };
        let path = path.split('?').next().unwrap_or("").to_string();
        let mut headers = Vec::new();
        for l in lines {
            if let Some((k, v)) = l.split_once(':') {
                headers.push((k.trim().to_ascii_lowercase(), v.trim().to_string()));
            }
        }
        let (seq, decision) = ep.next_decision(first);
        first = false;
        let is_json = headers.iter().any(|(k, v)| k == "content-type" && v.starts_with("application/json"));
        let gz = headers.iter().any(|(k, v)| k == "content-encoding" && v.eq_ignore_ascii_case("gzip"));
        let len: usize = headers.iter().find(|(k, _)| k == "content-length").and_then(|(_, v)| v.parse().ok()).unwrap_or(0);
        let idx = shared.push(&ep, seq, conn, path, headers, decision);

        if !decision.reads_body() {
            set_linger0(stream.as_raw_fd());
            drop(stream);
            shared.update(idx, |r| r.done = Some(stamp()));
            shared.close_conn(conn, true);
            return;
        }

        // ---- body ----
        while buf.len() < len {
            tokio::select! {
                _ = shutdown.changed() => { shared.close_conn(conn, true); return }
                n = stream.read_buf(&mut buf) => match n {
                    Ok(0) | Err(_) => {
                        let got = buf.len();
                        shared.update(idx, |r| { r.note = Some(format!("peer went away after {} of {} body bytes", got, len)); });
                        shared.close_conn(conn, false);
                        return
                    }
                    Ok(_) => {}
                }
            }
        }
        let wire: Vec<u8> = buf.drain(..len).collect();
        let (body, note) = if gz {
            match gunzip(&wire) {
                Ok(b) => (b, None),
                Err(e) => (wire.clone(), Some(e)),
            }
        } else {
            (wire.clone(), None)
        };
        shared.update(idx, |r| {
            r.wire_len = wire.len();
            r.gzip = gz;
            r.note = note;
            r.body = Some(Arc::new(body));
            r.body_read = Some(stamp());
        });
        let decision = ep.validated(&shared, idx, decision);

        // ---- decision ----
        let code = match decision {
            Decision::DropAfterRead | Decision::AfterHeaders(..) => {
                drop(stream);
                shared.update(idx, |r| r.done = Some(stamp()));
                shared.close_conn(conn, true);
                return;
            }
            // never answered: keep reading, so that the peer's close - or a request wrongly sent on
            // this abandoned connection - is seen
            Decision::Stall => continue,
            Decision::AckThenClose { chunked, in_body } => {
                let mut out = format!(
                    "HTTP/1.1 200 OK\r\nContent-Type: {}\r\n{}\r\n\r\n",
                    if is_json { "application/json" } else { "application/x-protobuf" },
                    if chunked { "Transfer-Encoding: chunked" } else { "Content-Length: 64" }
                )
                .into_bytes();
                if in_body {
                    if chunked {
                        out.extend_from_slice(b"40\r\n");
                    }
                    out.extend_from_slice(b"{\"partial");
                }
                shared.update(idx, |r| r.responding = Some(stamp()));
                let res = async {
                    stream.write_all(&out).await?;
                    stream.flush().await
                }
                .await;
                match res {
                    Ok(()) => shared.update(idx, |r| {
                        r.responded = Some(stamp());
                        r.done = r.responded;
                    }),
                    Err(e) => shared.update(idx, |r| {
                        r.io_note = Some(format!("writing the response head failed: {}", e));
                        r.done = Some(stamp());
                        r.peer_gone = true;
                    }),
                }
                // FIN, then wait for the peer's own close so that nothing unread turns the close into a reset
                let _ = stream.shutdown().await;
                let mut sink = [0u8; 1024];
                loop {
                    tokio::select! {
                        _ = shutdown.changed() => break,
                        n = stream.read(&mut sink) => match n { Ok(0) | Err(_) => break, Ok(_) => {} }
                    }
                }
                shared.close_conn(conn, true);
                return;
            }
            Decision::StallAt(phase, status) => {
                let head = format!(
                    "HTTP/1.1 {} {}\r\nContent-Type: {}\r\nContent-Length: 64\r\n\r\n",
                    status,
                    reason(status),
                    if is_json { "application/json" } else { "application/x-protobuf" }
                );
                let mut out = head.into_bytes();
                match phase {
                    Phase::InHead => out.truncate(27.min(out.len())),
                    Phase::AfterHeaders => {}
                    Phase::InBody | Phase::BeforeTrailers => out.extend_from_slice(b"{\"partial"),
                }
                shared.update(idx, |r| r.responding = Some(stamp()));
                let res = async {
                    stream.write_all(&out).await?;
                    stream.flush().await
                }
                .await;
                match res {
                    Ok(()) => shared.update(idx, |r| r.partial_written = Some(stamp())),
                    Err(e) => shared.update(idx, |r| r.io_note = Some(format!("writing the partial response failed: {}", e))),
                }
                // and nothing more: keep reading like a plain stall
                continue;
            }
            Decision::HoldAck(max) => {
                wait_gate(&shared, max).await;
                200
            }
            Decision::DelayAck(ms) => {
                tokio::time::sleep(Duration::from_millis(ms as u64)).await;
                200
            }
            Decision::Ack(c) => c,
            Decision::AckThenDrop { .. } => 200,
            Decision::Status(c) => c,
            Decision::GrpcStatus(..) | Decision::GrpcStatusUnreadable(..) => 503,
            Decision::DropOnAccept | Decision::DropBeforeBody => unreachable!(),
        };
        let payload: &[u8] = if code == 204 {
            b""
        } else if is_json {
            b"{}"
        } else {
            b""
        };
        let mut out = format!("HTTP/1.1 {} {}\r\n", code, reason(code));
        if code != 204 {
            out.push_str(&format!(
                "Content-Type: {}\r\nContent-Length: {}\r\n",
                if is_json { "application/json" } else { "application/x-protobuf" },
                payload.len()
            ));
        }
        out.push_str("\r\n");
        let mut out = out.into_bytes();
        out.extend_from_slice(payload);
        shared.update(idx, |r| r.responding = Some(stamp()));
        let res = async {
            stream.write_all(&out).await?;
            stream.flush().await
        }
        .await;
        match res {
            Ok(()) => {
                shared.update(idx, |r| {
                    r.responded = Some(stamp());
                    r.done = r.responded;
                });
                if let Decision::AckThenDrop { reset } = decision {
                    // the answer is complete and flushed: now the established connection goes away
                    if reset {
                        set_linger0(stream.as_raw_fd());
                    } else {
                        let _ = stream.shutdown().await;
                    }
                    drop(stream);
                    shared.close_conn(conn, true);
                    return;
                }
            }
            Err(e) => {
                shared.update(idx, |r| {
                    r.io_note = Some(format!("writing the response failed: {}", e));
                    r.done = Some(stamp());
                    r.peer_gone = true;
                });
                shared.close_conn(conn, false);
                return;
            }
        }
    }
}

async fn serve_h2(shared: Arc<Shared>, ep: Arc<Endpoint>, stream: TcpStream, conn: u64) {
    let mut shutdown = shared.shutdown.subscribe();
    let fd = stream.as_raw_fd();
    // Large flow-control windows: with the default 64 KiB window a 1 MiB request needs a dozen
    // WINDOW_UPDATE round trips, and Nagle + delayed ACKs on loopback make each of them cost tens of
    // milliseconds - more than the hook-shortened request timeout allows.
    let mut builder = h2::server::Builder::new();
    builder.initial_window_size(16 * 1024 * 1024).initial_connection_window_size(64 * 1024 * 1024).max_frame_size(1024 * 1024);
    let mut h2 = match builder.handshake(stream).await {
        Ok(c) => c,
        Err(_) => {
            shared.close_conn(conn, false);
            return;
        }
    };
    let kill = Arc::new(Notify::new());
    let close = Arc::new(Notify::new());
    let mut first = true;
    loop {
        tokio::select! {
            _ = shutdown.changed() => { shared.close_conn(conn, true); return }
            _ = close.notified() => {
                // a plain close (FIN)
                drop(h2);
                shared.close_conn(conn, true);
                return
            }
            _ = kill.notified() => {
                // `fd` is still owned by `h2` here, so it is valid
                set_linger0(fd);
                drop(h2);
                shared.close_conn(conn, true);
                return
            }
            r = h2.accept() => match r {
                Some(Ok((req, respond))) => {
                    let (seq, decision) = ep.next_decision(first);
                    first = false;
                    tokio::spawn(handle_h2(shared.clone(), ep.clone(), conn, seq, decision, req, respond, kill.clone(), close.clone()));
                }
                Some(Err(_)) | None => { shared.close_conn(conn, false); return }
            }
        }
    }
}

#[allow(clippy::too_many_arguments)]
async fn handle_h2(
    shared: Arc<Shared>,
    ep: Arc<Endpoint>,
    conn: u64,
    seq: usize,
    decision: Decision,
    req: http::Request<h2::RecvStream>,
    mut respond: h2::server::SendResponse<bytes::Bytes>,
    kill: Arc<Notify>,
    close: Arc<Notify>,
) {
    let mut shutdown = shared.shutdown.subscribe();
    let (parts, mut body) = req.into_parts();
    let headers: Vec<(String, String)> = parts
        .headers
        .iter()
        .map(|(k, v)| (k.as_str().to_ascii_lowercase(), String::from_utf8_lossy(v.as_bytes()).into_owned()))
        .collect();
    let idx = shared.push(&ep, seq, conn, parts.uri.path().to_string(), headers, decision);

    if !decision.reads_body() {
        shared.update(idx, |r| r.done = Some(stamp()));
        kill.notify_one();
        // keep the stream handle alive until the connection is gone, so that what the peer sees is
        // the broken connection and not a stream reset
        let _ = std::future::poll_fn(|cx| respond.poll_reset(cx)).await;
        return;
    }

    let mut data: Vec<u8> = Vec::new();
    loop {
        match body.data().await {
            Some(Ok(chunk)) => {
                let _ = body.flow_control().release_capacity(chunk.len());
                data.extend_from_slice(&chunk);
            }
            Some(Err(e)) => {
                let got = data.len();
                shared.update(idx, |r| {
                    r.note = Some(format!("request stream failed after {} body bytes: {}", got, e));
                    r.done = Some(stamp());
                    r.peer_gone = true;
                });
                return;
            }
            None => break,
        }
    }
    let (msg, gz, note) = deframe_grpc(&data);
    shared.update(idx, |r| {
        r.wire_len = data.len();
        r.gzip = gz;
        r.note = note;
        r.body = Some(Arc::new(msg));
        r.body_read = Some(stamp());
    });
    let decision = ep.validated(&shared, idx, decision);

    let grpc_response = |status: http::StatusCode| http::Response::builder().status(status).header("content-type", "application/grpc").body(()).unwrap();
    let result: Result<(), h2::Error> = match decision {
        Decision::DropAfterRead => {
            shared.update(idx, |r| r.done = Some(stamp()));
            kill.notify_one();
            let _ = std::future::poll_fn(|cx| respond.poll_reset(cx)).await;
            return;
        }
        Decision::Stall => {
            tokio::select! {
                _ = shutdown.changed() => {}
                _ = std::future::poll_fn(|cx| respond.poll_reset(cx)) => {}
            }
            shared.update(idx, |r| {
                r.done = Some(stamp());
                r.peer_gone = true;
            });
            return;
        }
        Decision::StallAt(phase, _) => {
            shared.update(idx, |r| r.responding = Some(stamp()));
            let started = (|| {
                let mut send = respond.send_response(grpc_response(http::StatusCode::OK), false)?;
                match phase {
                    Phase::InHead | Phase::AfterHeaders => {}
                    Phase::InBody => send.send_data(bytes::Bytes::from_static(&[0, 0, 0]), false)?,
                    Phase::BeforeTrailers => send.send_data(bytes::Bytes::from_static(&[0, 0, 0, 0, 0]), false)?,
                }
                Ok::<_, h2::Error>(send)
            })();
            match started {
                Ok(mut send) => {
                    shared.update(idx, |r| r.partial_written = Some(stamp()));
                    // hold the stream open until the peer resets it (its timeout) or the scenario ends
                    tokio::select! {
                        _ = shutdown.changed() => {}
                        _ = std::future::poll_fn(|cx| send.poll_reset(cx)) => {}
                    }
                }
                Err(e) => shared.update(idx, |r| r.io_note = Some(format!("sending the partial response failed: {}", e))),
            }
            shared.update(idx, |r| {
                r.done = Some(stamp());
                r.peer_gone = true;
            });
            return;
        }
        Decision::AfterHeaders(how, with_message) => {
            shared.update(idx, |r| r.responding = Some(stamp()));
            let started = (|| {
                let mut send = respond.send_response(grpc_response(http::StatusCode::OK), false)?;
                if with_message {
                    // a complete, empty Export*ServiceResponse message
                    send.send_data(bytes::Bytes::from_static(&[0, 0, 0, 0, 0]), false)?;
                }
                Ok::<_, h2::Error>(send)
            })();
            match started {
                Ok(mut send) => {
                    shared.update(idx, |r| r.partial_written = Some(stamp()));
                    match how {
                        HeadThen::EndStream => {
                            if let Err(e) = send.send_data(bytes::Bytes::new(), true) {
                                shared.update(idx, |r| r.io_note = Some(format!("ending the stream failed: {}", e)));
                            }
                        }
                        HeadThen::Reset(code) => {
                            // `send_reset` discards what is still queued for the stream: let the HEADERS (and
                            // the message) leave first, so that the peer sees a response that began and THEN
                            // broke. (If they did not leave in time the peer sees a bare reset: a failure too.)
                            tokio::time::sleep(Duration::from_millis(30)).await;
                            send.send_reset(h2::Reason::from(code));
                        }
                        HeadThen::DropConnection { reset } => {
                            tokio::time::sleep(Duration::from_millis(30)).await;
                            if reset {
                                kill.notify_one();
                            } else {
                                close.notify_one();
                            }
                            // keep the stream handle until the connection is gone
                            tokio::select! {
                                _ = shutdown.changed() => {}
                                _ = std::future::poll_fn(|cx| send.poll_reset(cx)) => {}
                            }
                        }
                    }
                }
                Err(e) => shared.update(idx, |r| r.io_note = Some(format!("beginning the response failed: {}", e))),
            }
            shared.update(idx, |r| r.done = Some(stamp()));
            return;
        }
        Decision::Ack(_) | Decision::HoldAck(_) | Decision::DelayAck(_) | Decision::AckThenClose { .. } | Decision::AckThenDrop { .. } => {
            match decision {
                Decision::HoldAck(max) => wait_gate(&shared, max).await,
                Decision::DelayAck(ms) => tokio::time::sleep(Duration::from_millis(ms as u64)).await,
                _ => {}
            }
            shared.update(idx, |r| r.responding = Some(stamp()));
            (|| {
                let mut send = respond.send_response(grpc_response(http::StatusCode::OK), false)?;
                // an empty Export*ServiceResponse message
                send.send_data(bytes::Bytes::from_static(&[0, 0, 0, 0, 0]), false)?;
                let mut t = http::HeaderMap::new();
                t.insert("grpc-status", http::HeaderValue::from_static("0"));
                send.send_trailers(t)
            })()
        }
        Decision::GrpcStatus(code, GrpcForm::Trailers) => {
            shared.update(idx, |r| r.responding = Some(stamp()));
            (|| {
                let mut send = respond.send_response(grpc_response(http::StatusCode::OK), false)?;
                let mut t = http::HeaderMap::new();
                t.insert("grpc-status", http::HeaderValue::from_str(&code.to_string()).unwrap());
                t.insert("grpc-message", http::HeaderValue::from_static("scripted"));
                send.send_trailers(t)
            })()
        }
        Decision::GrpcStatus(code, GrpcForm::TrailersOnly) => {
            shared.update(idx, |r| r.responding = Some(stamp()));
            let resp = http::Response::builder()
                .status(http::StatusCode::OK)
                .header("content-type", "application/grpc")
                .header("grpc-status", code.to_string())
                .header("grpc-message", "scripted")
                .body(())
                .unwrap();
            respond.send_response(resp, true).map(|_| ())
        }
        Decision::GrpcStatusUnreadable(form, n) => {
            shared.update(idx, |r| r.responding = Some(stamp()));
            let text = UNREADABLE_STATUS[n as usize % UNREADABLE_STATUS.len()];
            match form {
                GrpcForm::Trailers => (|| {
                    let mut send = respond.send_response(grpc_response(http::StatusCode::OK), false)?;
                    send.send_data(bytes::Bytes::from_static(&[0, 0, 0, 0, 0]), false)?;
                    let mut t = http::HeaderMap::new();
                    t.insert("grpc-status", http::HeaderValue::from_static(text));
                    send.send_trailers(t)
                })(),
                GrpcForm::TrailersOnly => {
                    let resp = http::Response::builder().status(http::StatusCode::OK).header("content-type", "application/grpc").header("grpc-status", text).body(()).unwrap();
                    respond.send_response(resp, true).map(|_| ())
                }
            }
        }
        Decision::Status(code) => {
            shared.update(idx, |r| r.responding = Some(stamp()));
            let status = http::StatusCode::from_u16(code).unwrap_or(http::StatusCode::SERVICE_UNAVAILABLE);
            respond.send_response(http::Response::builder().status(status).body(()).unwrap(), true).map(|_| ())
        }
        Decision::DropOnAccept | Decision::DropBeforeBody => unreachable!(),
    };
    match result {
        Ok(()) => {
            shared.update(idx, |r| {
                r.responded = Some(stamp());
                r.done = r.responded;
            });
            if let Decision::AckThenDrop { reset } = decision {
                // give the queued response frames time to leave, then the connection goes away
                tokio::time::sleep(Duration::from_millis(40)).await;
                if reset {
                    kill.notify_one();
                } else {
                    close.notify_one();
                }
            }
        }
        Err(e) => shared.update(idx, |r| {
            r.io_note = Some(format!("sending the response failed: {}", e));
            r.done = Some(stamp());
            r.peer_gone = true;
        }),
    }
}

// ---------------------------------------------------------------------------
// emitter-side helpers shared by the monitors
// ---------------------------------------------------------------------------

#[derive(Clone, Copy, Debug, PartialEq, Eq, Hash)]
pub enum Transport {
    HttpJson,
    HttpProto,
    Grpc,
}

impl Transport {
    pub const ALL: [Transport; 3] = [Transport::HttpJson, Transport::HttpProto, Transport::Grpc];

    pub fn name(self) -> &'static str {
        match self {
            Transport::HttpJson => "http-json",
            Transport::HttpProto => "http-proto",
            Transport::Grpc => "grpc",
        }
    }

    pub fn from_name(n: &str) -> Option<Transport> {
        Transport::ALL.into_iter().find(|t| t.name() == n)
    }

    pub fn wire(self) -> Wire {
        match self {
            Transport::Grpc => Wire::Grpc,
            _ => Wire::Http1,
        }
    }
}

/// The real `Otlp` emitter configured for the signals in `subset` (bit set of [`Signal::bit`])
/// against the endpoints of `col`.
pub fn build_otlp(col: &Collector, transport: Transport, gzip: bool, subset: u8) -> emit_otlp::Otlp {
    let tb = |s: Signal| {
        let t = match transport {
            Transport::Grpc => emit_otlp::grpc(col.url(s)),
            _ => emit_otlp::http(col.url(s)),
        };
        t.allow_compression(gzip)
    };
    let json = transport == Transport::HttpJson;
    let mut b = emit_otlp::new().resource(("service.name", "emit-verif"));
    if subset & Signal::Logs.bit() != 0 {
        b = b.logs(if json { emit_otlp::logs_json(tb(Signal::Logs)) } else { emit_otlp::logs_proto(tb(Signal::Logs)) });
    }
    if subset & Signal::Traces.bit() != 0 {
        b = b.traces(if json { emit_otlp::traces_json(tb(Signal::Traces)) } else { emit_otlp::traces_proto(tb(Signal::Traces)) });
    }
    if subset & Signal::Metrics.bit() != 0 {
        b = b.metrics(if json { emit_otlp::metrics_json(tb(Signal::Metrics)) } else { emit_otlp::metrics_proto(tb(Signal::Metrics)) });
    }
    b.spawn()
}

/// A timestamp `secs` after 2024-01-01T00:00:00Z.
pub fn ts(secs: u64, nanos: u32) -> emit::Timestamp {
    emit::Timestamp::from_unix(Duration::new(1_704_067_200 + secs, nanos)).expect("timestamp in range")
}

/// Sample one counter of the emitter's own metrics by name (`otlp_logs_queue_batch_failed`,
/// `event_discarded`, ...); 0 when absent.
pub fn emitter_metric(otlp: &emit_otlp::Otlp, name: &str) -> u64 {
    use emit::metric::Source as _;
    let found = std::cell::Cell::new(0u64);
    otlp.metric_source().sample_metrics(emit::metric::sampler::from_fn(|m| {
        if m.name() == name {
            if let Some(v) = m.value().by_ref().cast::<u64>().or_else(|| m.value().to_string().parse().ok()) {
                found.set(found.get() + v);
            }
        }
    }));
    found.get()
}

/// Number of threads of this process whose name starts with `prefix` (`/proc/self/task/*/comm`).
pub fn threads_named(prefix: &str) -> usize {
    let mut n = 0;
    if let Ok(dir) = std::fs::read_dir("/proc/self/task") {
        for e in dir.flatten() {
            if let Ok(comm) = std::fs::read_to_string(e.path().join("comm")) {
                if comm.trim_end().starts_with(prefix) {
                    n += 1;
                }
            }
        }
    }
    n
}
