/*!
Model events for C13: a seeded event (kind, module, template, extent, properties with their capture
path) from which the real `emit::Event` is built and from which every sink's expected output is
computed independently.
*/
#![allow(dead_code)]

use vcommon::{
    model::{ModelValue as M, *},
    rec::ts_from_nanos,
    Json, Rng,
};

use emit::{value::OwnedValue, Value};

/// How a property's `emit::Value` is produced from its model.
#[derive(Clone, Copy, Debug, PartialEq, Eq, Hash)]
pub enum Cap {
    /// what a macro's default capture does: typed primitive (`capture_display` / `From`)
    Typed,
    Serde,
    Sval,
    Display,
    Debug,
    Error,
    /// captured with serde, then `to_owned()`
    OwnedSerde,
    /// captured with sval, then `to_shared()`
    SharedSval,
    /// typed well-known values parsed from the model's text
    Level,
    TraceId,
    SpanId,
    Kind,
    /// re-entrant values: the impl the sink calls to encode the value itself emits an event through
    /// the same runtime (and therefore the same sink) on the caller thread
    NoisyDisplay,
    NoisyDebug,
    NoisySerde,
    NoisySval,
    /// values whose formatting fails part-way: some output, then an error
    FailDefault,
    FailDisplay,
    FailDebug,
    FailSerde,
    FailSval,
}

impl Cap {
    pub fn is_failing(self) -> bool {
        matches!(self, Cap::FailDefault | Cap::FailDisplay | Cap::FailDebug | Cap::FailSerde | Cap::FailSval)
    }

    pub fn is_noisy(self) -> bool {
        matches!(self, Cap::NoisyDisplay | Cap::NoisyDebug | Cap::NoisySerde | Cap::NoisySval)
    }

    pub fn name(self) -> &'static str {
        match self {
            Cap::Typed => "typed",
            Cap::Serde => "serde",
            Cap::Sval => "sval",
            Cap::Display => "display",
            Cap::Debug => "debug",
            Cap::Error => "error",
            Cap::OwnedSerde => "owned-serde",
            Cap::SharedSval => "shared-sval",
            Cap::Level => "level",
            Cap::TraceId => "trace-id",
            Cap::SpanId => "span-id",
            Cap::Kind => "kind",
            Cap::NoisyDisplay => "noisy-display",
            Cap::NoisyDebug => "noisy-debug",
            Cap::NoisySerde => "noisy-serde",
            Cap::NoisySval => "noisy-sval",
            Cap::FailDefault => "fail-default",
            Cap::FailDisplay => "fail-display",
            Cap::FailDebug => "fail-debug",
            Cap::FailSerde => "fail-serde",
            Cap::FailSval => "fail-sval",
        }
    }
}

#[derive(Clone, Debug)]
pub struct Prop {
    pub key: String,
    pub model: M,
    pub cap: Cap,
    /// the value reaches the sink through the ambient context (buffered with `to_shared`)
    pub buffered: bool,
}

#[derive(Clone, Copy, Debug, PartialEq, Eq, Hash)]
pub enum Kind {
    Log,
    Span,
    Metric,
}

#[derive(Clone, Debug)]
pub struct ModelEvent {
    pub vid: String,
    pub mdl: String,
    /// (is_hole, text or key)
    pub parts: Vec<(bool, String)>,
    /// (start, end) unix nanos
    pub extent: Option<(Option<u64>, u64)>,
    pub props: Vec<Prop>,
    pub kind: Kind,
    /// name of the directed case, if this event is one
    pub directed: Option<String>,
    /// ambient context frames, outermost first; each frame has unique keys
    pub ambient: Vec<Vec<Prop>>,
    /// what the runtime's clock reads when the event is emitted (used when `extent` is `None`)
    pub clock: Option<u64>,
    /// a hostile extent as (secs, nanos) pairs (start, end): inverted, beyond u64 nanoseconds, MAX.
    /// When set it replaces `extent`, and timestamps are unconstrained beyond well-formedness.
    pub wild: Option<(Option<(u64, u32)>, (u64, u32))>,
    /// `Some(k)`: the event is produced by hand-written macro call site `k`
    pub macro_site: Option<usize>,
}

pub enum Store {
    None,
    Failing(FailingVal),
    Noisy(NoisyVal),
    Owned(OwnedValue),
    Level(emit::Level),
    Trace(emit::TraceId),
    Span(emit::SpanId),
    Kind(emit::Kind),
}

impl Prop {
    pub fn new(key: &str, model: M, cap: Cap) -> Prop {
        Prop { key: key.to_string(), model, cap, buffered: false }
    }

    pub fn store(&self) -> Store {
        let text = match &self.model {
            M::Str(s) => s.as_str(),
            _ => "",
        };
        match self.cap {
            c if c.is_failing() => Store::Failing(FailingVal),
            Cap::OwnedSerde => Store::Owned(Value::from_serde(&self.model).to_owned()),
            Cap::SharedSval => Store::Owned(Value::from_sval(&self.model).to_shared()),
            Cap::Level => Store::Level(text.parse().expect("level text")),
            Cap::TraceId => Store::Trace(text.parse().expect("trace id text")),
            Cap::SpanId => Store::Span(text.parse().expect("span id text")),
            Cap::Kind => Store::Kind(text.parse().expect("kind text")),
            _ => Store::None,
        }
    }

    pub fn value<'a>(&'a self, store: &'a Store) -> Value<'a> {
        match (self.cap, store) {
            (Cap::FailDefault, Store::Failing(f)) => Value::capture_display(f),
            (Cap::FailDisplay, Store::Failing(f)) => Value::from_display(f),
            (Cap::FailDebug, Store::Failing(f)) => Value::from_debug(f),
            (Cap::FailSerde, Store::Failing(f)) => Value::from_serde(f),
            (Cap::FailSval, Store::Failing(f)) => Value::from_sval(f),
            (_, Store::Failing(_)) => Value::null(),
            (Cap::NoisyDisplay, Store::Noisy(nv)) => Value::from_display(nv),
            (Cap::NoisyDebug, Store::Noisy(nv)) => Value::from_debug(nv),
            (Cap::NoisySerde, Store::Noisy(nv)) => Value::from_serde(nv),
            (Cap::NoisySval, Store::Noisy(nv)) => Value::from_sval(nv),
            (_, Store::Noisy(_)) => Value::null(),
            (_, Store::Owned(o)) => o.by_ref(),
            (_, Store::Level(l)) => Value::from_any(l),
            (_, Store::Trace(t)) => Value::from_any(t),
            (_, Store::Span(s)) => Value::from_any(s),
            (_, Store::Kind(k)) => Value::from_any(k),
            (Cap::Typed, _) => match &self.model {
                M::Bool(x) => Value::capture_display(x),
                M::I8(x) => Value::capture_display(x),
                M::I16(x) => Value::capture_display(x),
                M::I32(x) => Value::capture_display(x),
                M::I64(x) => Value::from(*x),
                M::I128(x) => Value::capture_display(x),
                M::Isize(x) => Value::capture_display(x),
                M::U8(x) => Value::capture_display(x),
                M::U16(x) => Value::capture_display(x),
                M::U32(x) => Value::capture_display(x),
                M::U64(x) => Value::from(*x),
                M::U128(x) => Value::from(*x),
                M::Usize(x) => Value::capture_display(x),
                M::F32(x) => Value::capture_display(x),
                M::F64(x) => Value::from(*x),
                M::Char(x) => Value::capture_display(x),
                M::Str(x) => Value::from(x.as_str()),
                other => Value::from_serde(other),
            },
            (Cap::Serde, _) => Value::from_serde(&self.model),
            (Cap::Sval, _) => Value::from_sval(&self.model),
            (Cap::Display, _) => Value::from_display(&self.model),
            (Cap::Debug, _) => Value::from_debug(&self.model),
            (Cap::Error, _) => match &self.model {
                M::Error(e) => Value::capture_error(e),
                other => Value::from_serde(other),
            },
            _ => Value::from_serde(&self.model),
        }
    }

    /// Does the capture path keep the value's structure (as opposed to its text)?
    pub fn structural(&self) -> bool {
        !matches!(self.cap, Cap::Display | Cap::Debug | Cap::NoisyDisplay | Cap::NoisyDebug)
    }

    /// The text a text-only capture path carries.
    pub fn text(&self) -> String {
        match (self.cap, &self.model) {
            (Cap::NoisyDisplay, M::I64(n)) => format!("noisy{}", n),
            (Cap::NoisyDebug, M::I64(n)) => format!("Noisy({})", n),
            (Cap::Debug, _) => format!("{:?}", self.model),
            _ => self.model.to_string(),
        }
    }

    pub fn json_image(&self) -> Result<JsonImage, String> {
        if self.cap.is_failing() {
            return Err("failing-value".into());
        }
        if self.structural() {
            self.model.json_image(Framework::Sval)
        } else {
            Ok(JsonImage::Str(self.text()))
        }
    }

    pub fn any_image(&self) -> Result<AnyImage, String> {
        if self.cap.is_failing() {
            return Err("failing-value".into());
        }
        if self.structural() {
            self.model.any_image()
        } else {
            Ok(AnyImage::Str(self.text()))
        }
    }

    /// Key shapes of maps that neither JSON nor OTLP can carry (compound keys), from the model.
    pub fn compound_key_shapes(&self) -> Vec<&'static str> {
        if !self.structural() || self.cap.is_failing() {
            return Vec::new();
        }
        self.model.map_key_shapes().into_iter().filter(|s| COMPOUND_SHAPES.contains(s)).collect()
    }

    /// "Plain" values render the same through every formatter: usable in template holes.
    pub fn plain_text(&self) -> Option<String> {
        // values whose text is the same through `evt.msg()` (Display of the value) and through every
        // sink's own rendering of a hole: strings / chars / integers / booleans captured by default or
        // `as_value`, anything captured `as_display` (its Display text) or `as_debug` (its Debug text).
        // The text itself may be hostile: quotes, backslashes, control characters, non-ASCII, braces.
        match (&self.model, self.cap) {
            (M::Str(s), Cap::Typed) => Some(s.clone()),
            (M::Char(c), Cap::Typed) => Some(c.to_string()),
            (m, Cap::Typed) if m.as_int().is_some() => m.int_text(),
            (M::Bool(b), Cap::Typed) => Some(b.to_string()),
            (M::Error(_), _) => None,
            (m, Cap::Display) => Some(m.to_string()),
            (m, Cap::Debug) => Some(format!("{:?}", m)),
            (M::I64(n), Cap::NoisyDisplay) => Some(format!("noisy{}", n)),
            (M::I64(n), Cap::NoisySval) => Some(n.to_string()),
            _ => None,
        }
    }

    pub fn describe(&self) -> Json {
        serde_json::json!({"key": self.key, "cap": self.cap.name(), "value": self.model.describe()})
    }
}

pub const COMPOUND_SHAPES: &[&str] = &["bytes", "seq", "tuple", "map", "struct", "newtype-variant", "tuple-variant", "struct-variant"];
/// compound key shapes that hit `todo!()` in emit_otlp (newtype variants stream their payload)
pub const OTLP_PANIC_SHAPES: &[&str] = &["bytes", "seq", "tuple", "map", "struct", "tuple-variant", "struct-variant"];

impl ModelEvent {
    /// The properties a sink sees, in precedence order: the event's own, then the ambient frames
    /// from the innermost to the outermost.
    pub fn effective(&self) -> impl Iterator<Item = &Prop> {
        self.props.iter().chain(self.ambient.iter().rev().flat_map(|f| f.iter()))
    }

    /// First property with `key` (first value wins everywhere; the event wins over ambient frames,
    /// inner frames over outer ones).
    pub fn first(&self, key: &str) -> Option<&Prop> {
        self.effective().find(|p| p.key == key)
    }

    /// The extent the sink sees: the event's own or, through a runtime, the clock's reading.
    pub fn eff_extent(&self) -> Option<(Option<u64>, u64)> {
        self.extent.or(self.clock.map(|c| (None, c)))
    }

    /// Is the (possibly hostile) extent a range?
    pub fn is_range(&self) -> bool {
        match self.wild {
            Some((start, _)) => start.is_some(),
            None => matches!(self.eff_extent(), Some((Some(_), _))),
        }
    }

    /// Distinct keys in first-occurrence order.
    pub fn keys(&self) -> Vec<&str> {
        let mut out: Vec<&str> = Vec::new();
        for p in self.effective() {
            if !out.contains(&p.key.as_str()) {
                out.push(&p.key);
            }
        }
        out
    }

    pub fn has_duplicates(&self) -> bool {
        self.keys().len() != self.effective().count()
    }

    pub fn tpl_text(&self) -> String {
        let mut s = String::new();
        for (hole, t) in &self.parts {
            if *hole {
                s.push('{');
                s.push_str(t);
                s.push('}');
            } else {
                s.push_str(t);
            }
        }
        s
    }

    /// The rendered message computed from the model (holes only ever bind plain values).
    pub fn msg_text(&self) -> String {
        let mut s = String::new();
        for (hole, t) in &self.parts {
            if *hole {
                match self.first(t).and_then(|p| p.plain_text()) {
                    Some(v) => s.push_str(&v),
                    None => {
                        s.push('{');
                        s.push_str(t);
                        s.push('}');
                    }
                }
            } else {
                s.push_str(t);
            }
        }
        s
    }

    pub fn compound_key_shapes(&self) -> Vec<&'static str> {
        // only first values are ever encoded
        let mut out = Vec::new();
        for k in self.keys() {
            for s in self.first(k).unwrap().compound_key_shapes() {
                if !out.contains(&s) {
                    out.push(s);
                }
            }
        }
        out
    }

    /// `unit-variant` / `newtype-struct` if a first value holds a map keyed by an enum unit variant /
    /// a newtype struct (the sval_json quirk's trigger), from the model.
    pub fn tagged_key_shape(&self) -> Option<&'static str> {
        for k in self.keys() {
            let p = self.first(k).unwrap();
            if !p.structural() {
                continue;
            }
            let mut hit = None;
            p.model.walk(&mut |n| {
                if let M::Map(es) = n {
                    for (k, _) in es {
                        match k {
                            M::UnitVariant(..) => hit = hit.or(Some("unit-variant")),
                            M::NewtypeStruct(..) => hit = hit.or(Some("newtype-struct")),
                            _ => {}
                        }
                    }
                }
            });
            if hit.is_some() {
                return hit;
            }
        }
        None
    }

    pub fn describe(&self) -> Json {
        serde_json::json!({
            "vid": self.vid, "mdl": self.mdl, "tpl": self.tpl_text(), "extent": self.extent, "kind": format!("{:?}", self.kind),
            "directed": self.directed, "clock": self.clock, "wild": self.wild, "macro_site": self.macro_site,
            "ambient": self.ambient.iter().map(|f| f.iter().map(|p| p.describe()).collect::<Vec<_>>()).collect::<Vec<_>>(),
            "props": self.props.iter().map(|p| p.describe()).collect::<Vec<_>>(),
        })
    }

    /// The extent the real event is built with.
    pub fn emit_extent(&self) -> Option<emit::Extent> {
        let ts = |(s, n): (u64, u32)| emit::Timestamp::from_unix(std::time::Duration::new(s, n)).expect("timestamp in range");
        match self.wild {
            Some((Some(a), b)) => Some(emit::Extent::range(ts(a)..ts(b))),
            Some((None, b)) => Some(emit::Extent::point(ts(b))),
            None => self.extent.map(|(start, end)| match start {
                Some(s) => emit::Extent::range(ts_from_nanos(s)..ts_from_nanos(end)),
                None => emit::Extent::point(ts_from_nanos(end)),
            }),
        }
    }

    /// Push the ambient frames (outermost first) on `ctxt`, nested, and run `f` inside the innermost.
    pub fn with_frames<C: emit::Ctxt + Copy>(&self, ctxt: C, depth: usize, f: &mut dyn FnMut()) {
        if depth == self.ambient.len() {
            f();
            return;
        }
        let frame_props = &self.ambient[depth];
        let stores: Vec<Store> = frame_props.iter().map(|p| p.store()).collect();
        let props: Vec<(emit::Str, Value)> = frame_props.iter().zip(&stores).map(|(p, s)| (emit::Str::new_ref(&p.key), p.value(s))).collect();
        let mut frame = emit::Frame::push(ctxt, &props[..]);
        let _guard = frame.enter();
        self.with_frames(ctxt, depth + 1, f)
    }

    fn store_for(&self, p: &Prop) -> Store {
        match (&p.model, p.cap.is_noisy()) {
            (M::I64(n), true) => Store::Noisy(NoisyVal {
                n: *n,
                mode: p.cap,
                depth: 1 + (*n & 1) as u8,
                outer_vid: self.vid.clone(),
                ambient: self.ambient.clone(),
                base: self.clock.or(self.extent.map(|e| e.1)).unwrap_or(BASE_NANOS),
            }),
            _ => p.store(),
        }
    }

    /// Build the real event and hand it to `f`.
    pub fn with_event<R>(&self, f: impl FnOnce(&emit::Event<&[(emit::Str, Value)]>) -> R) -> R {
        let stores: Vec<Store> = self.props.iter().map(|p| self.store_for(p)).collect();
        let props: Vec<(emit::Str, Value)> = self.props.iter().zip(&stores).map(|(p, s)| (emit::Str::new_ref(&p.key), p.value(s))).collect();
        let parts: Vec<emit::template::Part> =
            self.parts.iter().map(|(hole, t)| if *hole { emit::template::Part::hole_ref(t) } else { emit::template::Part::text_ref(t) }).collect();
        let tpl = emit::Template::new_ref(&parts);
        let extent: Option<emit::Extent> = self.emit_extent();
        let mdl = emit::Path::new_ref(&self.mdl).expect("valid module path");
        let evt = emit::Event::new(mdl, tpl, extent, &props[..]);
        f(&evt)
    }
}

// ---------------------------------------------------------------------------
// generation
// ---------------------------------------------------------------------------

pub const MODULES: &[&str] = &["c13", "c13::files", "c13::otlp::deep", "app_x::mod_1"];
const USER_KEYS: &[&str] = &["a", "b", "user", "count", "elapsed_ms", "http.method", "key with space", "ключ", "x\"quoted\"", "é", "nested", "data", "UPPER", "a.b.c", "k\nnl", "k\ttab"];

fn cap_for(g: &mut Rng, m: &M) -> Cap {
    if let M::Error(_) = m {
        return Cap::Error;
    }
    if m.is_primitive() {
        *g.pick(&[Cap::Typed, Cap::Typed, Cap::Typed, Cap::Serde, Cap::Sval, Cap::Display, Cap::Debug, Cap::OwnedSerde, Cap::SharedSval])
    } else {
        *g.pick(&[Cap::Serde, Cap::Serde, Cap::Sval, Cap::Sval, Cap::OwnedSerde, Cap::SharedSval, Cap::Display, Cap::Debug])
    }
}

/// Key kinds for maps in the random sections: everything with a textual form.
pub fn scalar_and_text_keys() -> Vec<KeyKind> {
    vec![KeyKind::Str, KeyKind::Char, KeyKind::Int, KeyKind::BigInt, KeyKind::Bool, KeyKind::Float]
}

pub fn gen_user_value(g: &mut Rng, compound_keys: bool) -> M {
    let mut keys = scalar_and_text_keys();
    if compound_keys {
        keys.extend_from_slice(COMPOUND_KEYS);
    }
    let cfg = GenCfg::new(1 + g.below(3) as u32, 1 + g.usize(4)).with_keys(&keys);
    match g.below(10) {
        0..=3 => gen_prim(g),
        4 => M::Error(gen_error(g)),
        _ => gen_value(g, &cfg),
    }
}

fn hex(n: u128, width: usize) -> String {
    format!("{:0width$x}", n, width = width)
}

fn nonzero_u128(g: &mut Rng) -> u128 {
    match g.below(4) {
        0 => 1,
        1 => u128::MAX,
        _ => (((g.next() as u128) << 64) | g.next() as u128).max(1),
    }
}

fn nonzero_u64(g: &mut Rng) -> u64 {
    match g.below(4) {
        0 => 1,
        1 => u64::MAX,
        _ => g.next().max(1),
    }
}

/// A value for a well-known key: typed, textual or wrong-typed.
pub fn gen_well_known(g: &mut Rng, key: &str) -> Prop {
    let wrong = |g: &mut Rng| -> (M, Cap) {
        match g.below(5) {
            0 => (M::I32(3), Cap::Typed),
            1 => (M::Bool(true), Cap::Typed),
            2 => (M::Str("not a valid value".into()), Cap::Typed),
            3 => (M::Seq(vec![M::U8(1), M::U8(2)]), Cap::Serde),
            _ => (M::Struct("Point", vec![("a", M::I8(-1))]), Cap::Sval),
        }
    };
    let (m, cap) = match key {
        "lvl" => match g.below(4) {
            0 => (M::Str((*g.pick(&["debug", "info", "warn", "error"])).into()), Cap::Level),
            1 | 2 => (M::Str((*g.pick(&["debug", "info", "warn", "error"])).into()), *g.pick(&[Cap::Typed, Cap::Display, Cap::Serde])),
            _ => wrong(g),
        },
        "trace_id" => match g.below(5) {
            0 => (M::Str(hex(nonzero_u128(g), 32)), Cap::TraceId),
            1 => (M::Str(hex(nonzero_u128(g), 32)), *g.pick(&[Cap::Typed, Cap::Sval])),
            2 => (M::U128(nonzero_u128(g)), Cap::Typed),
            _ => wrong(g),
        },
        "span_id" | "span_parent" => match g.below(5) {
            0 => (M::Str(hex(nonzero_u64(g) as u128, 16)), Cap::SpanId),
            1 => (M::Str(hex(nonzero_u64(g) as u128, 16)), *g.pick(&[Cap::Typed, Cap::Serde])),
            2 => (M::U64(nonzero_u64(g)), Cap::Typed),
            _ => wrong(g),
        },
        "err" => match g.below(4) {
            0 | 1 => (M::Error(gen_error(g)), Cap::Error),
            2 => (M::Str(gen_string(g)), Cap::Typed),
            _ => wrong(g),
        },
        "evt_kind" => match g.below(4) {
            0 => (M::Str((*g.pick(&["span", "metric"])).into()), Cap::Kind),
            1 => (M::Str((*g.pick(&["span", "metric"])).into()), Cap::Typed),
            _ => wrong(g),
        },
        "span_name" | "metric_name" | "metric_unit" => match g.below(4) {
            0 | 1 => (M::Str((*g.pick(&["op", "http request", "bytes_written", "ms", "requêtes", "a/b"])).into()), Cap::Typed),
            2 => (M::Str(gen_string(g)), *g.pick(&[Cap::Typed, Cap::Display, Cap::Sval])),
            _ => wrong(g),
        },
        "metric_agg" => match g.below(3) {
            0 | 1 => (M::Str((*g.pick(&["count", "sum", "last", "min", "max"])).into()), Cap::Typed),
            _ => wrong(g),
        },
        "metric_value" => gen_metric_value(g),
        other => panic!("not a well-known key: {}", other),
    };
    Prop::new(key, m, cap)
}

fn small_num(g: &mut Rng) -> M {
    match g.below(6) {
        0 => M::I64(g.irange(-1000, 1000)),
        1 => M::U8(gen_u8(g)),
        2 => M::F64((g.irange(-10_000, 10_000) as f64) / 8.0),
        3 => M::I64(gen_i64(g)),
        4 => M::F64(gen_f64(g)),
        _ => M::U32(gen_u32(g)),
    }
}

pub fn gen_metric_value(g: &mut Rng) -> (M, Cap) {
    match g.below(8) {
        0 | 1 => {
            let v = small_num(g);
            (v, Cap::Typed)
        }
        2 => (small_num(g), *g.pick(&[Cap::Serde, Cap::Sval, Cap::OwnedSerde])),
        3 | 4 => {
            // homogeneous sequences of ints or floats
            let n = g.usize(9);
            let ints = g.bool();
            let v = (0..n).map(|_| if ints { M::I64(g.irange(-50, 500)) } else { M::F64((g.irange(-500, 5000) as f64) / 4.0) }).collect();
            (M::Seq(v), *g.pick(&[Cap::Serde, Cap::Sval, Cap::SharedSval]))
        }
        5 => {
            // mixed / extreme sequences
            let n = 1 + g.usize(6);
            (M::Seq((0..n).map(|_| small_num(g)).collect()), *g.pick(&[Cap::Serde, Cap::Sval]))
        }
        6 => (M::Str("12".into()), Cap::Typed),
        _ => match g.below(3) {
            0 => (M::Bool(true), Cap::Typed),
            1 => (M::Seq(vec![M::Seq(vec![M::I8(1)]), M::I8(2)]), Cap::Serde),
            _ => (M::None, Cap::Serde),
        },
    }
}

pub const BASE_NANOS: u64 = 1_700_000_000_000_000_000;

/// A seeded event. `idx` makes `vid` and the timestamps unique within a run.
pub fn gen_event(g: &mut Rng, seed: u64, section: &str, idx: u64, compound_keys: bool) -> ModelEvent {
    let kind = *g.pick(&[Kind::Log, Kind::Log, Kind::Span, Kind::Metric]);
    let vid = format!("v{}-{}-{}", seed, section, idx);
    let mut props: Vec<Prop> = vec![Prop::new("vid", M::Str(vid.clone()), Cap::Typed)];

    // extent
    let end = BASE_NANOS + idx * 1_000_003 + g.below(1000);
    let extent = match kind {
        Kind::Span => Some((Some(end - 1 - g.below(5_000_000_000)), end)),
        Kind::Log => match g.below(8) {
            0 => None,
            1 => Some((Some(end - g.below(1000)), end)),
            _ => Some((None, end)),
        },
        Kind::Metric => match g.below(4) {
            0 => None,
            1 => Some((None, end)),
            _ => Some((Some(end - 1 - g.below(60_000_000_000)), end)),
        },
    };

    // kind-specific well-known properties
    let mut wk: Vec<Prop> = Vec::new();
    match kind {
        Kind::Span => {
            wk.push(Prop::new("evt_kind", M::Str("span".into()), *g.pick(&[Cap::Kind, Cap::Kind, Cap::Typed])));
            for k in ["trace_id", "span_id", "span_parent", "span_name"] {
                if g.chance(3, 4) {
                    wk.push(gen_well_known(g, k));
                }
            }
        }
        Kind::Metric => {
            wk.push(Prop::new("evt_kind", M::Str("metric".into()), *g.pick(&[Cap::Kind, Cap::Kind, Cap::Typed])));
            wk.push(gen_well_known(g, "metric_value"));
            for k in ["metric_name", "metric_agg", "metric_unit"] {
                if g.chance(3, 4) {
                    wk.push(gen_well_known(g, k));
                }
            }
        }
        Kind::Log => {
            for k in ["trace_id", "span_id"] {
                if g.chance(1, 4) {
                    wk.push(gen_well_known(g, k));
                }
            }
        }
    }
    if g.chance(1, 2) {
        wk.push(gen_well_known(g, "lvl"));
    }
    if g.chance(1, 4) {
        wk.push(gen_well_known(g, "err"));
    }
    // now and then a well-known key of another kind shows up on this event
    if g.chance(1, 8) {
        let k = *g.pick(&["span_parent", "span_name", "metric_name", "metric_unit", "metric_agg", "trace_id", "evt_kind"]);
        if !(k == "evt_kind") {
            wk.push(gen_well_known(g, k));
        }
    }
    props.extend(wk);

    // user properties
    let n_user = g.usize(6);
    for _ in 0..n_user {
        let key = *g.pick(USER_KEYS);
        let m = gen_user_value(g, compound_keys);
        let cap = cap_for(g, &m);
        props.push(Prop::new(key, m, cap));
    }
    // duplicate keys: repeat some keys (incl. well-known ones and vid) with other values later in the list
    if g.chance(1, 3) && props.len() > 1 {
        let n_dup = 1 + g.usize(3);
        for _ in 0..n_dup {
            let k = props[g.usize(props.len())].key.clone();
            let p = if ["lvl", "trace_id", "span_id", "span_parent", "err", "span_name", "metric_name", "metric_unit", "metric_agg", "metric_value"].contains(&k.as_str()) && g.bool() {
                gen_well_known(g, &k)
            } else {
                let m = gen_user_value(g, compound_keys);
                let cap = cap_for(g, &m);
                Prop::new(&k, m, cap)
            };
            if k != "evt_kind" {
                props.push(p);
            }
        }
    }
    // keep `vid` first, shuffle the rest so well-known keys are not always in front
    let mut rest: Vec<Prop> = props.drain(1..).collect();
    // a stable partial shuffle that keeps duplicates' relative order meaningful (first wins is about order)
    g.shuffle(&mut rest);
    props.extend(rest);

    // template: text parts with holes bound to plain props (or no holes)
    let mut parts: Vec<(bool, String)> = Vec::new();
    let texts = ["event ", "did a thing", " with ", "ünïcode ✓ ", "quote \" and \\ ", "", " done", "{{not a hole}} "];
    parts.push((false, format!("{} ", vid)));
    let plain: Vec<String> = {
        let tmp = ModelEvent { vid: vid.clone(), mdl: String::new(), parts: Vec::new(), extent: None, props: props.clone(), kind, directed: None, ambient: Vec::new(), clock: None, wild: None, macro_site: None };
        tmp.keys().into_iter().filter(|k| tmp.first(k).unwrap().plain_text().is_some() && !k.contains(['{', '}', '\n', '\t'])).map(|k| k.to_string()).collect()
    };
    for _ in 0..g.usize(4) {
        parts.push((false, (*g.pick(&texts)).replace("{{", "(").replace("}}", ")")));
        if !plain.is_empty() && g.bool() {
            parts.push((true, g.pick(&plain).clone()));
        }
    }

    ModelEvent { vid, mdl: (*g.pick(MODULES)).to_string(), parts, extent, props, kind, directed: None, ambient: Vec::new(), clock: None, wild: None, macro_site: None }
}

/// The directed events that re-observe the known compound-map-key findings: one per key shape.
pub fn directed_compound_events(seed: u64) -> Vec<ModelEvent> {
    let mut out = Vec::new();
    let keys: Vec<(&str, M)> = vec![
        ("bytes", M::Bytes(vec![1, 2])),
        ("seq", M::Seq(vec![M::U8(1)])),
        ("tuple", M::Tuple(vec![M::U8(1), M::Str("t".into())])),
        ("map", M::Map(vec![(M::Str("a".into()), M::U8(1))])),
        ("struct", M::Struct("Point", vec![("a", M::U8(1))])),
        ("newtype-variant", M::NewtypeVariant("Shape", 1, "Second", Box::new(M::U8(1)))),
        ("tuple-variant", M::TupleVariant("Shape", 1, "Second", vec![M::U8(1), M::U8(2)])),
        ("struct-variant", M::StructVariant("Shape", 1, "Second", vec![("a", M::U8(1))])),
    ];
    for (i, (shape, key)) in keys.into_iter().enumerate() {
        for (j, cap) in [Cap::Sval, Cap::Serde].into_iter().enumerate() {
            let vid = format!("v{}-directed-{}-{}", seed, shape, cap.name());
            debug_assert_eq!(key.key_shape(), shape);
            out.push(ModelEvent {
                vid: vid.clone(),
                mdl: "c13".into(),
                parts: vec![(false, format!("{} compound key", vid))],
                extent: Some((None, BASE_NANOS + 900_000_000_000 + (i * 2 + j) as u64)),
                props: vec![
                    Prop::new("vid", M::Str(vid.clone()), Cap::Typed),
                    Prop::new("m", M::Map(vec![(key.clone(), M::U8(7))]), cap),
                    Prop::new("after", M::I32(1), Cap::Typed),
                ],
                kind: Kind::Log,
                directed: Some(format!("compound-key:{}", shape)),
                ambient: Vec::new(),
                clock: None,
                wild: None,
                macro_site: None,
            });
        }
    }
    out
}

/// Directed events for the other known findings: enum / newtype-struct typed map keys followed by a
/// labelled value (sval_json quirk, file sink), bytes (JSON bytesValue) and a null inside a sequence
/// (protobuf ArrayValue).
pub fn directed_other_known(seed: u64) -> Vec<ModelEvent> {
    let point = || M::Struct("Point", vec![("a", M::U8(1))]);
    let cases: Vec<(&str, M)> = vec![
        ("tagged-key:unit-variant", M::Map(vec![(M::UnitVariant("Kind", 1, "Second"), point()), (M::UnitVariant("Kind", 2, "Third"), point())])),
        ("tagged-key:newtype-struct", M::Map(vec![(M::NewtypeStruct("Wrapper", Box::new(M::U32(3))), point()), (M::NewtypeStruct("Wrapper", Box::new(M::U32(4))), point())])),
        ("bytes", M::Bytes(vec![112, 108, 97, 0, 255])),
        ("null-in-seq", M::Seq(vec![M::None, M::U8(75), M::Unit, M::Str("x".into())])),
    ];
    let mut out = Vec::new();
    // non-finite floats (JSON writes them as null): as an attribute - top level, inside a sequence,
    // inside a map - and as a metric sample (scalar, gauge bucket, sum)
    let nf_attr: Vec<(&str, M, Cap)> = vec![
        ("nan", M::F64(f64::NAN), Cap::Typed),
        ("inf-f32", M::F32(f32::INFINITY), Cap::Typed),
        ("in-seq", M::Seq(vec![M::F64(1.5), M::F64(f64::NEG_INFINITY), M::I8(2)]), Cap::Serde),
        ("in-map", M::Map(vec![(M::Str("a".into()), M::F64(f64::INFINITY)), (M::Str("b".into()), M::F64(0.25))]), Cap::Sval),
    ];
    for (i, (name, m, cap)) in nf_attr.into_iter().enumerate() {
        for (j, kind) in [Kind::Log, Kind::Span, Kind::Metric].into_iter().enumerate() {
            let vid = format!("v{}-directed-non-finite-attr-{}-{:?}", seed, name, kind);
            let end = BASE_NANOS + 650_000_000_000 + (i * 3 + j) as u64;
            let mut props = vec![Prop::new("vid", M::Str(vid.clone()), Cap::Typed), Prop::new("x", m.clone(), cap), Prop::new("after", M::F64(1.5), Cap::Typed)];
            let extent = match kind {
                Kind::Span => {
                    props.push(Prop::new("evt_kind", M::Str("span".into()), Cap::Kind));
                    Some((Some(end - 10), end))
                }
                Kind::Metric => {
                    props.push(Prop::new("evt_kind", M::Str("metric".into()), Cap::Kind));
                    props.push(Prop::new("metric_name", M::Str("nf".into()), Cap::Typed));
                    props.push(Prop::new("metric_agg", M::Str("last".into()), Cap::Typed));
                    props.push(Prop::new("metric_value", M::F64(2.5), Cap::Typed));
                    Some((None, end))
                }
                Kind::Log => Some((None, end)),
            };
            out.push(ModelEvent { vid: vid.clone(), mdl: "c13".into(), parts: vec![(false, format!("{} known", vid))], extent, props, kind, directed: Some(format!("non-finite-attr:{}", name)), ambient: Vec::new(), clock: None, wild: None, macro_site: None });
        }
    }
    let nf_points: Vec<(&str, M, Cap, &str)> = vec![
        ("scalar-nan-gauge", M::F64(f64::NAN), Cap::Typed, "last"),
        ("scalar-inf-count", M::F64(f64::INFINITY), Cap::Typed, "count"),
        ("bucket-inf-gauge", M::Seq(vec![M::F64(1.0), M::F64(f64::INFINITY), M::F64(3.0)]), Cap::Serde, "max"),
        ("sum-with-neg-inf", M::Seq(vec![M::F64(1.0), M::F64(f64::NEG_INFINITY)]), Cap::Sval, "sum"),
    ];
    for (i, (name, m, cap, agg)) in nf_points.into_iter().enumerate() {
        let vid = format!("v{}-directed-non-finite-point-{}", seed, name);
        out.push(ModelEvent {
            vid: vid.clone(),
            mdl: "c13".into(),
            parts: vec![(false, format!("{} known", vid))],
            extent: Some((Some(BASE_NANOS + 660_000_000_000 + i as u64), BASE_NANOS + 660_000_001_000 + i as u64)),
            props: vec![
                Prop::new("vid", M::Str(vid.clone()), Cap::Typed),
                Prop::new("evt_kind", M::Str("metric".into()), Cap::Kind),
                Prop::new("metric_name", M::Str("nf_point".into()), Cap::Typed),
                Prop::new("metric_agg", M::Str(agg.into()), Cap::Typed),
                Prop::new("metric_value", m, cap),
                Prop::new("after", M::F64(1.5), Cap::Typed),
            ],
            kind: Kind::Metric,
            directed: Some(format!("non-finite-point:{}", name)),
            ambient: Vec::new(),
            clock: None,
            wild: None,
            macro_site: None,
        });
    }
    for (i, (name, m)) in cases.into_iter().enumerate() {
        for (j, cap) in [Cap::Sval, Cap::Serde].into_iter().enumerate() {
            let vid = format!("v{}-directed-{}-{}", seed, name.replace(':', "-"), cap.name());
            out.push(ModelEvent {
                vid: vid.clone(),
                mdl: "c13".into(),
                parts: vec![(false, format!("{} known", vid))],
                extent: Some((None, BASE_NANOS + 600_000_000_000 + (i * 2 + j) as u64)),
                props: vec![Prop::new("vid", M::Str(vid.clone()), Cap::Typed), Prop::new("m", m.clone(), cap), Prop::new("after", M::I32(1), Cap::Typed)],
                kind: Kind::Log,
                directed: Some(name.to_string()),
                ambient: Vec::new(),
                clock: None,
                wild: None,
                macro_site: None,
            });
        }
    }
    out
}

/// Directed events for scalar-keyed maps (must be silent): kvlists / objects with stringified keys.
pub fn directed_scalar_key_events(seed: u64) -> Vec<ModelEvent> {
    let mut out = Vec::new();
    let kinds = [KeyKind::Str, KeyKind::Char, KeyKind::Int, KeyKind::BigInt, KeyKind::Bool, KeyKind::Float];
    for (i, kind) in kinds.into_iter().enumerate() {
        for (j, cap) in [Cap::Sval, Cap::Serde, Cap::SharedSval].into_iter().enumerate() {
            let mut g = Rng::stream(seed, &[13, 77, i as u64, j as u64]);
            let n = if kind == KeyKind::Bool { 2 } else { 3 };
            let m = M::Map((0..n).map(|x| (gen_key(&mut g, kind, x), M::I32(x as i32))).collect());
            let vid = format!("v{}-directed-scalar-{:?}-{}", seed, kind, cap.name());
            for ek in [Kind::Log, Kind::Metric] {
                let vid = format!("{}-{:?}", vid, ek);
                let mut props = vec![Prop::new("vid", M::Str(vid.clone()), Cap::Typed), Prop::new("m", m.clone(), cap)];
                if ek == Kind::Metric {
                    props.push(Prop::new("evt_kind", M::Str("metric".into()), Cap::Kind));
                    props.push(Prop::new("metric_name", M::Str("scalar_keys".into()), Cap::Typed));
                    props.push(Prop::new("metric_agg", M::Str("count".into()), Cap::Typed));
                    props.push(Prop::new("metric_value", M::I64(3), Cap::Typed));
                }
                out.push(ModelEvent {
                    vid: vid.clone(),
                    mdl: "c13".into(),
                    parts: vec![(false, format!("{} scalar keys", vid))],
                    extent: Some((None, BASE_NANOS + 800_000_000_000 + (i * 10 + j) as u64)),
                    props,
                    kind: ek,
                    directed: Some(format!("scalar-key:{:?}", kind)),
                    ambient: Vec::new(),
                    clock: None,
                    wild: None,
                    macro_site: None,
                });
            }
        }
    }
    out
}

/// The metric de-duplication case of DESIGN.md C13/D.
pub fn directed_metric_dedup(seed: u64) -> ModelEvent {
    let vid = format!("v{}-directed-metric-dedup", seed);
    ModelEvent {
        vid: vid.clone(),
        mdl: "c13".into(),
        parts: vec![(false, format!("{} metric", vid))],
        extent: Some((None, BASE_NANOS + 700_000_000_000)),
        props: vec![
            Prop::new("vid", M::Str(vid.clone()), Cap::Typed),
            Prop::new("evt_kind", M::Str("metric".into()), Cap::Kind),
            Prop::new("metric_name", M::Str("dedup".into()), Cap::Typed),
            Prop::new("metric_agg", M::Str("count".into()), Cap::Typed),
            Prop::new("metric_value", M::I64(3), Cap::Typed),
            Prop::new("a", M::I32(1), Cap::Typed),
            Prop::new("a", M::I32(2), Cap::Typed),
            Prop::new("metric_unit", M::Str("7".into()), Cap::Typed),
            Prop::new("metric_unit", M::Str("8".into()), Cap::Typed),
        ],
        kind: Kind::Metric,
        directed: Some("metric-dedup".into()),
        ambient: Vec::new(),
        clock: None,
        wild: None,
        macro_site: None,
    }
}

// ---------------------------------------------------------------------------
// events emitted through a runtime with ambient context, hostile extents
// ---------------------------------------------------------------------------

const AMBIENT_WELL_KNOWN: &[&str] = &["lvl", "trace_id", "span_id", "span_parent", "err"];

fn gen_ambient_prop(g: &mut Rng, key: &str) -> Prop {
    let mut p = if AMBIENT_WELL_KNOWN.contains(&key) || ["span_name", "metric_name", "metric_unit", "metric_agg"].contains(&key) {
        gen_well_known(g, key)
    } else {
        let m = gen_user_value(g, false);
        let cap = cap_for(g, &m);
        Prop::new(key, m, cap)
    };
    p.buffered = true;
    p
}

/// 1–3 nested frames holding some of the event's own keys (with other values) plus other keys.
pub fn gen_ambient(g: &mut Rng, own: &[Prop]) -> Vec<Vec<Prop>> {
    let depth = 1 + g.usize(3);
    let own_keys: Vec<String> = own.iter().map(|p| p.key.clone()).filter(|k| !["evt_kind", "metric_value"].contains(&k.as_str())).collect();
    let mut frames = Vec::new();
    for _ in 0..depth {
        let mut frame: Vec<Prop> = Vec::new();
        for _ in 0..1 + g.usize(4) {
            let key: String = match g.below(5) {
                0 | 1 if !own_keys.is_empty() => g.pick(&own_keys).clone(),
                2 => (*g.pick(AMBIENT_WELL_KNOWN)).to_string(),
                _ => (*g.pick(USER_KEYS)).to_string(),
            };
            if frame.iter().any(|p| p.key == key) {
                continue;
            }
            frame.push(gen_ambient_prop(g, &key));
        }
        frames.push(frame);
    }
    frames
}

pub const MACRO_SITES: usize = 7;

/// The model of what hand-written macro call site `k` (see `macro_site` in c13.rs) emits.
pub fn gen_macro_event(g: &mut Rng, seed: u64, section: &str, idx: u64) -> ModelEvent {
    let k = g.usize(MACRO_SITES);
    let vid = format!("v{}-{}-{}", seed, section, idx);
    let a = M::I64(gen_i64(g));
    let user = M::Str(["Rust", "user 42", "x"][g.usize(3)].to_string());
    let data = gen_structured(g, &GenCfg::new(2, 3).with_keys(&scalar_and_text_keys()));
    let err = M::Error(gen_error(g));
    let vidp = Prop::new("vid", M::Str(vid.clone()), Cap::Typed);
    let lvl = |l: &str| Prop::new("lvl", M::Str(l.into()), Cap::Level);
    let hole = |k: &str| (true, k.to_string());
    let text = |t: &str| (false, t.to_string());
    let clock = BASE_NANOS + 500_000_000_000 + idx * 1_000_003;
    let (parts, props, extent): (Vec<(bool, String)>, Vec<Prop>, Option<(Option<u64>, u64)>) = match k {
        0 => (vec![hole("vid"), text(" macro emit "), hole("a")], vec![vidp, Prop::new("a", a, Cap::Typed), Prop::new("user", user, Cap::Typed)], None),
        1 => (vec![hole("vid"), text(" macro info")], vec![vidp, Prop::new("data", data, Cap::Serde), Prop::new("a", a, Cap::Typed), lvl("info")], None),
        2 => (vec![hole("vid"), text(" macro warn "), hole("user")], vec![vidp, Prop::new("user", user, Cap::Typed), lvl("warn")], None),
        3 => (vec![hole("vid"), text(" macro error")], vec![vidp, Prop::new("err", err, Cap::Error), lvl("error")], None),
        4 => (vec![hole("vid"), text(" macro debug")], vec![vidp, Prop::new("data", data, Cap::Sval), Prop::new("key with space", a, Cap::Typed), lvl("debug")], None),
        5 => (vec![hole("vid"), text(" macro extent")], vec![vidp, Prop::new("a", a, Cap::Typed)], Some((None, clock + 17))),
        _ => (
            vec![hole("vid"), text(" macro span")],
            vec![vidp, Prop::new("evt_kind", M::Str("span".into()), Cap::Kind), Prop::new("user", user, Cap::Display)],
            Some((Some(clock - 1_000_000), clock)),
        ),
    };
    let ambient = gen_ambient(g, &props);
    ModelEvent {
        vid,
        mdl: "c13".into(),
        parts,
        extent,
        props,
        kind: if k == 6 { Kind::Span } else { Kind::Log },
        directed: None,
        ambient,
        clock: Some(clock),
        wild: None,
        macro_site: Some(k),
    }
}

/// An event for the runtime section: every third one comes from a macro call site, the others are
/// generated events handed to `rt.emit(..)` / `emit!(rt, evt: ..)`.
pub fn gen_rt_event(g: &mut Rng, seed: u64, section: &str, idx: u64) -> ModelEvent {
    if idx % 3 == 2 {
        return gen_macro_event(g, seed, section, idx);
    }
    let mut me = gen_event(g, seed, section, idx, false);
    me.ambient = gen_ambient(g, &me.props);
    me.clock = Some(BASE_NANOS + 500_000_000_000 + idx * 1_000_003);
    if g.bool() {
        add_noisy(g, &mut me);
    }
    if g.chance(1, 4) {
        widen(g, &mut me);
    }
    me
}

fn filler_value(g: &mut Rng, not_kind: Option<&str>) -> M {
    loop {
        let m = match g.below(4) {
            0 => M::I64(g.irange(-9, 99)),
            1 => M::Str((*g.pick(&["alpha", "3", "true", "zeta", ""])).to_string()),
            2 => M::Bool(g.bool()),
            _ => M::F64([2.5, -0.5, 1e9][g.usize(3)]),
        };
        let kind = match &m {
            M::I64(_) => "int",
            M::Str(_) => "str",
            M::Bool(_) => "bool",
            _ => "float",
        };
        if Some(kind) != not_kind {
            return m;
        }
    }
}

fn kind_of(m: &M) -> &'static str {
    match m {
        M::Str(_) | M::Char(_) => "str",
        M::Bool(_) => "bool",
        M::F32(_) | M::F64(_) => "float",
        other if other.as_int().is_some() => "int",
        _ => "other",
    }
}

/// Make the event WIDE: 20..24, 32..40 or 64..100 properties in total across its own properties and
/// its ambient frames, keys in no sorted order at any level, and own keys (also well-known ones)
/// shadowed in the frames — and repeated later in the own list — by values of another primitive type.
pub fn widen(g: &mut Rng, me: &mut ModelEvent) {
    let target = match g.below(3) {
        0 => 20 + g.usize(5),
        1 => 32 + g.usize(9),
        _ => 64 + g.usize(37),
    };
    if me.ambient.is_empty() {
        me.ambient.push(Vec::new());
    }
    let prefixes = ["w", "a_", "zz", "m.", "Vid", "vi", "vie", "k ", "é", "_"];
    let mut j = 0usize;
    let mut own_fillers: Vec<String> = Vec::new();
    let current = |me: &ModelEvent| me.props.len() + me.ambient.iter().map(|f| f.len()).sum::<usize>();
    while current(me) < target {
        j += 1;
        if g.bool() {
            // an own property at a random position after `vid`; sometimes a later repeat of an
            // earlier own key with another type (the first one wins)
            let (key, m) = if !own_fillers.is_empty() && g.chance(1, 5) {
                let k = g.pick(&own_fillers).clone();
                let first_kind = me.first(&k).map(|p| kind_of(&p.model));
                (k, filler_value(g, first_kind))
            } else {
                let k = format!("{}{}", g.pick(&prefixes), (j * 7919) % 1000);
                (k, filler_value(g, None))
            };
            let repeat = own_fillers.contains(&key);
            let pos = if repeat { me.props.len() } else { 1 + g.usize(me.props.len()) };
            if !repeat {
                own_fillers.push(key.clone());
            }
            me.props.insert(pos, Prop::new(&key, m, Cap::Typed));
        } else {
            // an ambient property, often shadowed by an own key (any own key, also `vid` / well-known ones)
            let fi = g.usize(me.ambient.len());
            let key = if g.chance(1, 3) && me.props.len() > 1 {
                me.props[g.usize(me.props.len())].key.clone()
            } else {
                format!("{}{}", g.pick(&prefixes), (j * 104_729) % 1000)
            };
            if ["evt_kind", "metric_value", "noisy"].contains(&key.as_str()) || me.ambient[fi].iter().any(|p| p.key == key) {
                continue;
            }
            let own_kind = me.props.iter().find(|p| p.key == key).map(|p| kind_of(&p.model));
            let mut p = Prop::new(&key, filler_value(g, own_kind), Cap::Typed);
            p.buffered = true;
            me.ambient[fi].push(p);
        }
    }
    me.directed = Some(format!("wide:{}", if target < 32 { "20-24" } else if target < 64 { "32-40" } else { "64+" }));
}

const U64_NANOS_SECS: u64 = 18_446_744_073; // u64::MAX nanoseconds ≈ 2554-07-21T23:34:33Z
const MAX_SECS: u64 = 253_402_300_799; // 9999-12-31T23:59:59Z

fn wild_instant(g: &mut Rng) -> (u64, u32) {
    match g.below(9) {
        0 => (0, 0),
        1 => (MAX_SECS, 999_999_999),
        2 => (U64_NANOS_SECS, 709_551_615),
        3 => (U64_NANOS_SECS, 709_551_616),
        4 => (U64_NANOS_SECS + 1 + g.below(1_000_000), g.below(1_000_000_000) as u32),
        5 => (U64_NANOS_SECS - g.below(100), g.below(1_000_000_000) as u32),
        6 => (MAX_SECS - g.below(100_000), 0),
        7 => (2 * U64_NANOS_SECS + g.below(10), 5),
        _ => (1_700_000_000 + g.below(1_000_000), g.below(1_000_000_000) as u32),
    }
}

/// Events with hostile extents: inverted and zero-length ranges, MIN / MAX, instants whose unix
/// nanoseconds do not fit in u64 — on every kind, with a bias to sequence-valued metrics on every
/// aggregation (incl. absent / unknown `metric_agg`).
pub fn gen_wild_event(g: &mut Rng, seed: u64, section: &str, idx: u64) -> ModelEvent {
    let mut me = gen_event(g, seed, section, idx, false);
    if g.chance(1, 2) {
        // a sequence-valued metric
        me.kind = Kind::Metric;
        me.props.retain(|p| !["evt_kind", "metric_value", "metric_agg", "metric_name"].contains(&p.key.as_str()));
        me.props.push(Prop::new("evt_kind", M::Str("metric".into()), Cap::Kind));
        me.props.push(Prop::new("metric_name", M::Str("wild".into()), Cap::Typed));
        let n = g.usize(12);
        let ints = g.bool();
        let seq = (0..n).map(|_| if ints { M::I64(g.irange(-5, 500)) } else { M::F64((g.irange(-50, 5000) as f64) / 4.0) }).collect();
        me.props.push(Prop::new("metric_value", M::Seq(seq), *g.pick(&[Cap::Serde, Cap::Sval, Cap::SharedSval])));
        match g.below(5) {
            0 => {}
            1 => me.props.push(Prop::new("metric_agg", M::Str("count".into()), Cap::Typed)),
            2 => me.props.push(Prop::new("metric_agg", M::Str("sum".into()), Cap::Typed)),
            3 => me.props.push(Prop::new("metric_agg", M::Str((*g.pick(&["last", "min", "max"])).into()), Cap::Typed)),
            _ => me.props.push(Prop::new("metric_agg", M::Str("no such aggregation".into()), Cap::Typed)),
        }
    }
    let b = wild_instant(g);
    me.wild = Some(match g.below(6) {
        0 => (None, b),
        1 => (Some(b), b),
        _ => {
            let a = wild_instant(g);
            // both orders: well-ordered, inverted, straddling the u64 boundary
            (Some(a), b)
        }
    });
    if me.kind == Kind::Span && me.wild.map_or(false, |w| w.0.is_none()) {
        me.wild = me.wild.map(|w| (Some(w.1), w.1));
    }
    me.extent = None;
    // the properties changed after the template was drawn: keep only holes that still bind plain values
    let keep: Vec<bool> = me.parts.iter().map(|(hole, k)| !*hole || me.first(k).and_then(|p| p.plain_text()).is_some()).collect();
    let mut it = keep.into_iter();
    me.parts.retain(|_| it.next().unwrap());
    me
}

// ---------------------------------------------------------------------------
// re-entrant ("instrumented") values
// ---------------------------------------------------------------------------

thread_local! {
    static REENTER: std::cell::Cell<Option<*const (dyn Fn(&ModelEvent) + 'static)>> = const { std::cell::Cell::new(None) };
    static INNER_LOG: std::cell::RefCell<Vec<ModelEvent>> = const { std::cell::RefCell::new(Vec::new()) };
    static INNER_SEQ: std::cell::Cell<u64> = const { std::cell::Cell::new(0) };
}

/// While `body` runs on this thread, noisy values emit their inner events through `f`.
pub fn with_reenter<R>(f: &dyn Fn(&ModelEvent), body: impl FnOnce() -> R) -> R {
    struct Reset(Option<*const (dyn Fn(&ModelEvent) + 'static)>);
    impl Drop for Reset {
        fn drop(&mut self) {
            REENTER.with(|r| r.set(self.0));
        }
    }
    // SAFETY: the pointer is only dereferenced while `body` runs (the guard clears it on the way
    // out, also when unwinding), and `f` outlives `body`
    let ptr: *const (dyn Fn(&ModelEvent) + 'static) = unsafe { std::mem::transmute(f as *const dyn Fn(&ModelEvent)) };
    let _reset = Reset(REENTER.with(|r| r.replace(Some(ptr))));
    INNER_SEQ.with(|s| s.set(0));
    body()
}

/// The inner events noisy values emitted on this thread since the last call, in completion order.
pub fn take_inner_log() -> Vec<ModelEvent> {
    INNER_LOG.with(|l| std::mem::take(&mut *l.borrow_mut()))
}

/// A value whose `Display` / `Debug` / `Serialize` / `sval::Value` impl emits an event through the
/// runtime it is being encoded for. As data it is the integer `n` (structured modes) or a short text.
pub struct NoisyVal {
    pub n: i64,
    pub mode: Cap,
    /// remaining nesting: 2 = the inner event carries a noisy value too
    pub depth: u8,
    pub outer_vid: String,
    pub ambient: Vec<Vec<Prop>>,
    pub base: u64,
}

impl NoisyVal {
    /// The model of the `k`th inner event this value emits.
    fn inner_model(&self, k: u64) -> ModelEvent {
        let vid = format!("{}-in{}", self.outer_vid, k);
        let mut props = vec![Prop::new("vid", M::Str(vid.clone()), Cap::Typed), Prop::new("n", M::I64(self.n), Cap::Typed)];
        if self.depth > 1 {
            // an even payload: the nested value's own inner event is plain
            props.push(Prop::new("noisy_inner", M::I64(self.n.wrapping_mul(2)), self.mode));
        }
        let mut parts = vec![(true, "vid".to_string()), (false, " formatting ".to_string()), (true, "n".to_string())];
        if self.depth > 1 && matches!(self.mode, Cap::NoisyDisplay | Cap::NoisySval) {
            // rendered messages (the terminal writer encodes nothing else) nest too
            parts.push((false, " via ".into()));
            parts.push((true, "noisy_inner".into()));
        }
        ModelEvent {
            vid,
            mdl: "c13::inner".into(),
            parts,
            extent: Some((None, self.base.wrapping_add(k + 1))),
            props,
            kind: Kind::Log,
            directed: None,
            // the outer event's frames are still active while its values are encoded
            ambient: self.ambient.clone(),
            clock: None,
            wild: None,
            macro_site: None,
        }
    }

    fn reenter(&self) {
        let f = match REENTER.with(|r| r.get()) {
            Some(f) => f,
            None => return,
        };
        let k = INNER_SEQ.with(|s| {
            let k = s.get();
            s.set(k + 1);
            k
        });
        let inner = self.inner_model(k);
        // SAFETY: see `with_reenter`
        unsafe { (*f)(&inner) };
        INNER_LOG.with(|l| l.borrow_mut().push(inner));
    }
}

impl std::fmt::Display for NoisyVal {
    fn fmt(&self, f: &mut std::fmt::Formatter) -> std::fmt::Result {
        self.reenter();
        write!(f, "noisy{}", self.n)
    }
}

impl std::fmt::Debug for NoisyVal {
    fn fmt(&self, f: &mut std::fmt::Formatter) -> std::fmt::Result {
        self.reenter();
        write!(f, "Noisy({})", self.n)
    }
}

impl serde::Serialize for NoisyVal {
    fn serialize<S: serde::Serializer>(&self, s: S) -> Result<S::Ok, S::Error> {
        self.reenter();
        s.serialize_i64(self.n)
    }
}

impl sval::Value for NoisyVal {
    fn stream<'sval, S: sval::Stream<'sval> + ?Sized>(&'sval self, stream: &mut S) -> sval::Result {
        self.reenter();
        stream.i64(self.n)
    }
}

/// Give an event of the runtime section a re-entrant property (and sometimes a hole bound to it).
pub fn add_noisy(g: &mut Rng, me: &mut ModelEvent) {
    let mode = *g.pick(&[Cap::NoisyDisplay, Cap::NoisyDebug, Cap::NoisySerde, Cap::NoisySval]);
    let n = g.irange(-1000, 1000);
    if me.props.iter().any(|p| p.key == "noisy") {
        return;
    }
    me.props.push(Prop::new("noisy", M::I64(n), mode));
    if matches!(mode, Cap::NoisyDisplay | Cap::NoisySval) && g.bool() {
        me.parts.push((false, " saw ".into()));
        me.parts.push((true, "noisy".into()));
    }
}

// ---------------------------------------------------------------------------
// values whose formatting fails part-way
// ---------------------------------------------------------------------------

pub const FAIL_PARTIAL: &str = "partial-output-before-the-error";

/// Writes some output, then fails: `Display` / `Debug` return `Err` after writing text, `Serialize` /
/// `sval::Value` error after emitting part of a sequence.
pub struct FailingVal;

impl std::fmt::Display for FailingVal {
    fn fmt(&self, f: &mut std::fmt::Formatter) -> std::fmt::Result {
        f.write_str(FAIL_PARTIAL)?;
        Err(std::fmt::Error)
    }
}

impl std::fmt::Debug for FailingVal {
    fn fmt(&self, f: &mut std::fmt::Formatter) -> std::fmt::Result {
        f.write_str(FAIL_PARTIAL)?;
        Err(std::fmt::Error)
    }
}

impl serde::Serialize for FailingVal {
    fn serialize<S: serde::Serializer>(&self, s: S) -> Result<S::Ok, S::Error> {
        use serde::ser::SerializeSeq;
        let mut q = s.serialize_seq(Some(3))?;
        q.serialize_element(FAIL_PARTIAL)?;
        Err(serde::ser::Error::custom("serialization fails part-way"))
    }
}

impl sval::Value for FailingVal {
    fn stream<'sval, S: sval::Stream<'sval> + ?Sized>(&'sval self, stream: &mut S) -> sval::Result {
        stream.seq_begin(Some(3))?;
        stream.seq_value_begin()?;
        stream.value(FAIL_PARTIAL)?;
        stream.seq_value_end()?;
        sval::error()
    }
}

impl ModelEvent {
    pub fn failing_prop(&self) -> Option<&Prop> {
        self.props.iter().find(|p| p.cap.is_failing())
    }

    /// Is the failing value bound to a template hole (so rendering the message fails)?
    pub fn failing_hole(&self) -> bool {
        self.parts.iter().any(|(hole, k)| *hole && self.props.iter().any(|p| p.cap.is_failing() && &p.key == k))
    }
}

/// The section of part-way failing values: three ordinary events, then one whose property `bad`
/// fails to format — as the 1st / a middle / the last property, on every kind, every fifth time
/// also bound to a template hole.
pub fn gen_failing_section_event(g: &mut Rng, seed: u64, section: &str, idx: u64) -> ModelEvent {
    let mut me = gen_event(g, seed, section, idx, false);
    if idx % 4 != 3 {
        return me;
    }
    let k = idx / 4;
    let cap = [Cap::FailDefault, Cap::FailDisplay, Cap::FailDebug, Cap::FailSerde, Cap::FailSval][(k % 5) as usize];
    me.kind = [Kind::Log, Kind::Span, Kind::Metric][((k / 5) % 3) as usize];
    // a clean event of that kind with a unique, findable timestamp
    let end = BASE_NANOS + idx * 1_000_003 + 7;
    me.props.retain(|p| !["evt_kind", "metric_value", "metric_agg", "metric_name", "metric_unit", "err", "span_name"].contains(&p.key.as_str()));
    match me.kind {
        Kind::Log => me.extent = Some((None, end)),
        Kind::Span => {
            me.extent = Some((Some(end - 1_000), end));
            me.props.push(Prop::new("evt_kind", M::Str("span".into()), Cap::Kind));
        }
        Kind::Metric => {
            me.extent = Some((None, end));
            me.props.push(Prop::new("evt_kind", M::Str("metric".into()), Cap::Kind));
            me.props.push(Prop::new("metric_name", M::Str("failing".into()), Cap::Typed));
            me.props.push(Prop::new("metric_agg", M::Str("count".into()), Cap::Typed));
            me.props.push(Prop::new("metric_value", M::I64(3), Cap::Typed));
        }
    }
    me.props.retain(|p| p.key != "bad");
    me.props.push(Prop::new("tail_marker", M::I64(1), Cap::Typed));
    let pos = match (k / 15) % 3 {
        0 => 0,
        1 => me.props.len() / 2,
        _ => me.props.len(),
    };
    me.props.insert(pos, Prop::new("bad", M::Str(FAIL_PARTIAL.into()), cap));
    me.directed = Some(format!("failing:{}:{}:{}", cap.name(), ["first", "middle", "last"][((k / 15) % 3) as usize], if (k / 45) % 5 == 4 { "hole" } else { "no-hole" }));
    // keep only holes that still bind plain values, then maybe bind the failing one
    let keep: Vec<bool> = me.parts.iter().map(|(hole, key)| !*hole || me.first(key).and_then(|p| p.plain_text()).is_some()).collect();
    let mut it = keep.into_iter();
    me.parts.retain(|_| it.next().unwrap());
    if (k / 45) % 5 == 4 {
        me.parts.push((false, " failing ".into()));
        me.parts.push((true, "bad".into()));
    }
    me
}
