/*!
A fault-injecting in-memory filesystem for the real `emit_file` worker (hook H-F), plus the rig
that plays the batcher's role around a `VerifWorker`.

Model (stated in the evidence of C10/C11):

* one flat namespace of files keyed by the exact path string the worker passes; a file has
  *synced* bytes, *unsynced* bytes (appended, not yet `sync_all`ed) and a flag saying whether its
  directory entry is durable (`sync_parent` after `open_new`); deletions are durable only after
  the next `sync_parent` of the directory;
* every call is an *operation* with a global index, logged with its arguments and outcome;
* a fault plan says "at op index i do {error | short write then error | benign short write | crash}";
* a crash unwinds out of the worker (`resume_unwind` with a marker payload). `crash()` then
  keeps, per file, the synced bytes plus a prefix of the unsynced bytes (none / all / seeded),
  files whose directory entry was never synced survive or vanish, unsynced deletions persist or
  are undone. What survives is durable afterwards;
* whenever a write is interrupted (injected error, or a crash cutting unsynced bytes) the
  filesystem logs a *cut* `(path, offset, rest)`: the file ended at `offset` and `rest` are the
  bytes that did not make it. The C10 oracle accepts a truncated record only at such a cut and
  only if record-prefix + rest is exactly one submitted record.
*/
#![allow(dead_code)]

use std::{
    collections::{BTreeMap, BTreeSet},
    io,
    panic::{self, AssertUnwindSafe},
    path::{Path, PathBuf},
    sync::{
        atomic::{AtomicUsize, Ordering},
        Arc, Condvar, Mutex, MutexGuard,
    },
};

use emit_file::verif::{VerifFile, VerifFilesystem, VerifRollBy, VerifWorker};
use vcommon::{json, quiet, rec::FakeClock, Json, Rng};

// ---------------------------------------------------------------------------
// operations, faults
// ---------------------------------------------------------------------------

#[derive(Clone, Copy, Debug, PartialEq, Eq, Hash, PartialOrd, Ord)]
pub enum OpKind {
    Mkdir,
    ReadDir,
    OpenExisting,
    Len,
    Remove,
    OpenNew,
    SyncDir,
    Write,
    Flush,
    Sync,
}

impl OpKind {
    pub fn name(self) -> &'static str {
        match self {
            OpKind::Mkdir => "mkdir",
            OpKind::ReadDir => "readdir",
            OpKind::OpenExisting => "open-existing",
            OpKind::Len => "len",
            OpKind::Remove => "remove",
            OpKind::OpenNew => "open-new",
            OpKind::SyncDir => "sync-dir",
            OpKind::Write => "write",
            OpKind::Flush => "flush",
            OpKind::Sync => "sync",
        }
    }
}

#[derive(Clone, Copy, Debug, PartialEq, Eq, Hash)]
pub enum FaultKind {
    /// the call fails without any effect
    Error,
    /// (write only) one byte is written and reported, the next write call fails
    ShortOne,
    /// (write only) all but one byte are written and reported, the next write call fails
    ShortMost,
    /// (write only) half of the buffer is written and reported, the next write call fails
    ShortMid,
    /// (write only) half of the buffer is written and reported, nothing fails afterwards
    ShortOk,
    /// the process dies before the call takes effect
    Crash,
}

impl FaultKind {
    pub fn name(self) -> &'static str {
        match self {
            FaultKind::Error => "error",
            FaultKind::ShortOne => "short1-then-error",
            FaultKind::ShortMost => "short-most-then-error",
            FaultKind::ShortMid => "short-half-then-error",
            FaultKind::ShortOk => "short-half-benign",
            FaultKind::Crash => "crash",
        }
    }

    pub fn from_name(s: &str) -> Option<FaultKind> {
        [
            FaultKind::Error,
            FaultKind::ShortOne,
            FaultKind::ShortMost,
            FaultKind::ShortMid,
            FaultKind::ShortOk,
            FaultKind::Crash,
        ]
        .into_iter()
        .find(|k| k.name() == s)
    }

    pub fn write_only(self) -> bool {
        matches!(self, FaultKind::ShortOne | FaultKind::ShortMost | FaultKind::ShortMid | FaultKind::ShortOk)
    }
}

#[derive(Clone, Copy, Debug, PartialEq, Eq, Hash)]
pub struct Fault {
    pub at: usize,
    pub kind: FaultKind,
}

#[derive(Clone, Copy, Debug, PartialEq, Eq)]
pub enum Res {
    Ok(usize),
    /// failed because the state says so (missing file, name taken, ...)
    NaturalErr,
    /// failed because the plan says so
    InjectedErr,
    /// short write of that many bytes (plan)
    Short(usize),
    Crash,
}

#[derive(Clone, Debug)]
pub struct OpRec {
    pub idx: usize,
    pub kind: OpKind,
    pub path: String,
    /// buffer length for writes
    pub len: usize,
    pub res: Res,
    /// set by the harness (`set_tag`), e.g. batch number * 16 + attempt
    pub tag: u64,
}

impl OpRec {
    pub fn ok(&self) -> bool {
        matches!(self.res, Res::Ok(_) | Res::Short(_))
    }

    pub fn to_json(&self) -> Json {
        json!([self.idx, self.kind.name(), self.path, self.len, format!("{:?}", self.res)])
    }
}

#[derive(Clone, Debug)]
pub struct Cut {
    pub path: String,
    pub offset: usize,
    pub rest: Vec<u8>,
    pub why: &'static str,
}

#[derive(Clone, Copy, Debug, PartialEq, Eq, Hash)]
pub enum Loss {
    /// nothing unsynced survives
    All,
    /// everything written survives
    Nothing,
    /// seeded prefix per file, seeded fate per directory entry
    Seeded,
}

impl Loss {
    pub fn name(self) -> &'static str {
        match self {
            Loss::All => "lose-all-unsynced",
            Loss::Nothing => "keep-all-unsynced",
            Loss::Seeded => "seeded-prefix",
        }
    }
    pub fn from_name(s: &str) -> Option<Loss> {
        [Loss::All, Loss::Nothing, Loss::Seeded].into_iter().find(|l| l.name() == s)
    }
}

/// The payload a simulated crash unwinds with.
pub struct CrashMarker;

#[derive(Clone, Debug, Default)]
pub struct FileNode {
    pub synced: Vec<u8>,
    pub unsynced: Vec<u8>,
    pub entry_synced: bool,
    /// identity of the file (an open handle keeps referring to it after it was unlinked)
    pub id: u64,
}

impl FileNode {
    pub fn len(&self) -> usize {
        self.synced.len() + self.unsynced.len()
    }

    pub fn content(&self) -> Vec<u8> {
        let mut v = self.synced.clone();
        v.extend_from_slice(&self.unsynced);
        v
    }
}

#[derive(Default)]
pub struct FsState {
    pub dirs: BTreeSet<String>,
    pub files: BTreeMap<String, FileNode>,
    /// removed, but the removal is not durable yet
    pub pending_deletes: Vec<(String, u64)>,
    /// unlinked files: gone from the directory, but (as on POSIX) a handle that was open keeps
    /// reading / appending / syncing them; they are freed by a crash
    pub orphans: Vec<(String, FileNode)>,
    next_id: u64,
    /// (path, synced bytes at the time of removal, harness tag at that time) of every file removed through the API
    pub graveyard: Vec<(String, Vec<u8>, u64)>,
    pub log: Vec<OpRec>,
    pub plan: Vec<Fault>,
    pub hits: Vec<(usize, FaultKind, OpKind)>,
    pub cuts: Vec<Cut>,
    /// files that disappeared in a crash because their directory entry was never synced: (path, content)
    pub vanished: Vec<(String, Vec<u8>)>,
    pub next_write_fails: bool,
    pub tag: u64,
    /// record separator (only used to describe what a crash cut lost)
    pub sep: Option<u8>,
    order: Option<Rng>,
}

struct Gate {
    closed: Mutex<bool>,
    cv: Condvar,
    waiting: AtomicUsize,
}

struct Inner {
    state: Mutex<FsState>,
    gate: Gate,
}

#[derive(Clone)]
pub struct FakeFs(Arc<Inner>);

enum Decision {
    Proceed,
    Fail,
    Short(FaultKind),
}

fn injected() -> io::Error {
    io::Error::new(io::ErrorKind::Other, "injected fault")
}

fn parent_of(path: &str) -> String {
    Path::new(path).parent().and_then(|p| p.to_str()).unwrap_or("").to_string()
}

fn pstr(path: &Path) -> String {
    path.to_str().expect("utf8 path").to_string()
}

impl FakeFs {
    /// `order_seed`: directory listings are returned in a seeded arbitrary order (0 = sorted).
    pub fn new(order_seed: u64) -> FakeFs {
        let mut st = FsState::default();
        if order_seed != 0 {
            st.order = Some(Rng::new(order_seed));
        }
        FakeFs(Arc::new(Inner {
            state: Mutex::new(st),
            gate: Gate { closed: Mutex::new(false), cv: Condvar::new(), waiting: AtomicUsize::new(0) },
        }))
    }

    pub fn lock(&self) -> MutexGuard<'_, FsState> {
        self.0.state.lock().unwrap_or_else(|e| e.into_inner())
    }

    pub fn set_plan(&self, plan: Vec<Fault>) {
        self.lock().plan = plan;
    }

    pub fn add_fault(&self, f: Fault) {
        self.lock().plan.push(f);
    }

    pub fn set_sep(&self, sep: u8) {
        self.lock().sep = Some(sep);
    }

    pub fn set_tag(&self, tag: u64) {
        self.lock().tag = tag;
    }

    pub fn op_count(&self) -> usize {
        self.lock().log.len()
    }

    pub fn add_dir(&self, dir: &str) {
        self.lock().dirs.insert(dir.to_string());
    }

    /// A durable pre-existing file.
    pub fn add_file(&self, path: &str, bytes: &[u8]) {
        let mut st = self.lock();
        st.dirs.insert(parent_of(path));
        st.next_id += 1;
        let id = st.next_id;
        st.files.insert(path.to_string(), FileNode { synced: bytes.to_vec(), unsynced: Vec::new(), entry_synced: true, id });
    }

    // ---- gate (C09): `write` blocks while the gate is closed ----

    pub fn close_gate(&self) {
        *self.0.gate.closed.lock().unwrap() = true;
    }

    pub fn open_gate(&self) {
        *self.0.gate.closed.lock().unwrap() = false;
        self.0.gate.cv.notify_all();
    }

    /// Number of writers currently parked on the gate.
    pub fn gate_waiting(&self) -> usize {
        self.0.gate.waiting.load(Ordering::SeqCst)
    }

    fn pass_gate(&self) {
        let g = &self.0.gate;
        let mut closed = g.closed.lock().unwrap();
        if *closed {
            g.waiting.fetch_add(1, Ordering::SeqCst);
            while *closed {
                closed = g.cv.wait(closed).unwrap();
            }
            g.waiting.fetch_sub(1, Ordering::SeqCst);
        }
    }

    // ---- the op protocol ----

    /// Log the op, consult the plan. Crashes unwind from here (lock released first).
    fn begin(&self, kind: OpKind, path: &str, buf: &[u8]) -> (MutexGuard<'_, FsState>, usize, Decision) {
        let mut st = self.lock();
        let idx = st.log.len();
        let tag = st.tag;
        let len = buf.len();
        st.log.push(OpRec { idx, kind, path: path.to_string(), len, res: Res::Ok(0), tag });
        if kind == OpKind::Write && st.next_write_fails {
            st.next_write_fails = false;
            return (st, idx, Decision::Fail);
        }
        let fault = st.plan.iter().find(|f| f.at == idx).copied();
        let Some(f) = fault else {
            return (st, idx, Decision::Proceed);
        };
        if f.kind.write_only() && kind != OpKind::Write {
            // not applicable to this op: behaves like a plain error
            st.hits.push((idx, FaultKind::Error, kind));
            return (st, idx, Decision::Fail);
        }
        st.hits.push((idx, f.kind, kind));
        match f.kind {
            FaultKind::Error => (st, idx, Decision::Fail),
            FaultKind::Crash => {
                st.log[idx].res = Res::Crash;
                if kind == OpKind::Write {
                    // the write in flight never happens: whatever was written of this record so far ends here
                    if let Some(cur) = st.files.get(path).map(|n| n.len()) {
                        st.cuts.push(Cut { path: path.to_string(), offset: cur, rest: buf.to_vec(), why: "crash-in-write" });
                    }
                }
                drop(st);
                panic::resume_unwind(Box::new(CrashMarker));
            }
            k => (st, idx, Decision::Short(k)),
        }
    }

    // ---- crash ----

    /// Apply the loss model after a crash. Everything that survives is durable afterwards.
    pub fn crash(&self, loss: Loss, rng: &mut Rng) {
        let mut st = self.lock();
        st.next_write_fails = false;
        // undo or keep unsynced deletions
        let pending = std::mem::take(&mut st.pending_deletes);
        let mut orphans = std::mem::take(&mut st.orphans);
        for (path, id) in pending {
            let Some(pos) = orphans.iter().position(|(_, n)| n.id == id) else { continue };
            let (_, node) = orphans.remove(pos);
            let persisted = match loss {
                Loss::All => false,
                Loss::Nothing => true,
                Loss::Seeded => rng.bool(),
            };
            if !persisted && !st.files.contains_key(&path) {
                st.files.insert(path, node);
            }
        }
        let paths: Vec<String> = st.files.keys().cloned().collect();
        for path in paths {
            let node = st.files.get(&path).unwrap().clone();
            if !node.entry_synced {
                let survives = match loss {
                    Loss::All => false,
                    Loss::Nothing => true,
                    Loss::Seeded => rng.bool(),
                };
                if !survives {
                    st.files.remove(&path);
                    st.vanished.push((path.clone(), node.content()));
                    continue;
                }
            }
            let keep = match loss {
                Loss::All => 0,
                Loss::Nothing => node.unsynced.len(),
                Loss::Seeded => match rng.below(4) {
                    0 => 0,
                    1 => node.unsynced.len(),
                    _ => rng.usize(node.unsynced.len() + 1),
                },
            };
            let full_len = node.len();
            let cut_at = node.synced.len() + keep;
            if keep < node.unsynced.len() {
                // The piece that spans the cut ended (before the crash) at the next separator at or
                // after the cut, or at the end of the file. If that piece was itself cut short there
                // (an older cut at that offset), the bytes that complete the record are the lost
                // bytes up to that point plus what the older cut lost.
                let x = node.content();
                let end = match st.sep {
                    Some(sep) => x[cut_at..].iter().position(|b| *b == sep).map(|p| cut_at + p).unwrap_or(full_len),
                    None => full_len,
                };
                let older: Vec<Vec<u8>> =
                    st.cuts.iter().filter(|c| c.path == path && c.offset == end).map(|c| c.rest.clone()).collect();
                let upto = if end < full_len { end + 1 } else { end };
                st.cuts.push(Cut { path: path.clone(), offset: cut_at, rest: x[cut_at..upto].to_vec(), why: "crash" });
                for o in older {
                    let mut rest = x[cut_at..end].to_vec();
                    rest.extend_from_slice(&o);
                    st.cuts.push(Cut { path: path.clone(), offset: cut_at, rest, why: "crash" });
                }
            }
            let n = st.files.get_mut(&path).unwrap();
            let kept: Vec<u8> = n.unsynced[..keep].to_vec();
            n.synced.extend_from_slice(&kept);
            n.unsynced.clear();
            n.entry_synced = true;
        }
    }
}

impl VerifFilesystem for FakeFs {
    fn create_dir_all(&self, path: &Path) -> io::Result<()> {
        let p = pstr(path);
        let (mut st, idx, d) = self.begin(OpKind::Mkdir, &p, &[]);
        if !matches!(d, Decision::Proceed) {
            st.log[idx].res = Res::InjectedErr;
            return Err(injected());
        }
        st.dirs.insert(p);
        Ok(())
    }

    fn sync_parent(&self, path: &Path) -> io::Result<()> {
        let p = pstr(path);
        let (mut st, idx, d) = self.begin(OpKind::SyncDir, &p, &[]);
        if !matches!(d, Decision::Proceed) {
            st.log[idx].res = Res::InjectedErr;
            return Err(injected());
        }
        let dir = parent_of(&p);
        for (fp, node) in st.files.iter_mut() {
            if parent_of(fp) == dir {
                node.entry_synced = true;
            }
        }
        st.pending_deletes.retain(|(fp, _)| parent_of(fp) != dir);
        Ok(())
    }

    fn read_dir_files(&self, path: &Path) -> io::Result<Vec<PathBuf>> {
        let p = pstr(path);
        let (mut st, idx, d) = self.begin(OpKind::ReadDir, &p, &[]);
        if !matches!(d, Decision::Proceed) {
            st.log[idx].res = Res::InjectedErr;
            return Err(injected());
        }
        if !st.dirs.contains(&p) {
            st.log[idx].res = Res::NaturalErr;
            return Err(io::Error::new(io::ErrorKind::NotFound, "no such directory"));
        }
        let mut out: Vec<PathBuf> = st.files.keys().filter(|fp| parent_of(fp) == p).map(PathBuf::from).collect();
        if let Some(o) = st.order.as_mut() {
            o.shuffle(&mut out);
        }
        st.log[idx].res = Res::Ok(out.len());
        Ok(out)
    }

    fn remove_file(&self, path: &Path) -> io::Result<()> {
        let p = pstr(path);
        let (mut st, idx, d) = self.begin(OpKind::Remove, &p, &[]);
        if !matches!(d, Decision::Proceed) {
            st.log[idx].res = Res::InjectedErr;
            return Err(injected());
        }
        match st.files.remove(&p) {
            Some(node) => {
                let tag = st.tag;
                st.graveyard.push((p.clone(), node.synced.clone(), tag));
                if node.entry_synced {
                    st.pending_deletes.push((p.clone(), node.id));
                }
                st.orphans.push((p, node));
                Ok(())
            }
            None => {
                st.log[idx].res = Res::NaturalErr;
                Err(io::Error::new(io::ErrorKind::NotFound, "no such file"))
            }
        }
    }

    fn open_new(&self, path: &Path) -> io::Result<Box<dyn VerifFile>> {
        let p = pstr(path);
        let (mut st, idx, d) = self.begin(OpKind::OpenNew, &p, &[]);
        if !matches!(d, Decision::Proceed) {
            st.log[idx].res = Res::InjectedErr;
            return Err(injected());
        }
        if !st.dirs.contains(&parent_of(&p)) {
            st.log[idx].res = Res::NaturalErr;
            return Err(io::Error::new(io::ErrorKind::NotFound, "no such directory"));
        }
        if st.files.contains_key(&p) {
            st.log[idx].res = Res::NaturalErr;
            return Err(io::Error::new(io::ErrorKind::AlreadyExists, "file exists"));
        }
        st.next_id += 1;
        let id = st.next_id;
        st.files.insert(p.clone(), FileNode { id, ..FileNode::default() });
        Ok(Box::new(FakeFile { fs: self.clone(), path: p, id }))
    }

    fn open_existing(&self, path: &Path) -> io::Result<Box<dyn VerifFile>> {
        let p = pstr(path);
        let (mut st, idx, d) = self.begin(OpKind::OpenExisting, &p, &[]);
        if !matches!(d, Decision::Proceed) {
            st.log[idx].res = Res::InjectedErr;
            return Err(injected());
        }
        let Some(id) = st.files.get(&p).map(|n| n.id) else {
            st.log[idx].res = Res::NaturalErr;
            return Err(io::Error::new(io::ErrorKind::NotFound, "no such file"));
        };
        Ok(Box::new(FakeFile { fs: self.clone(), path: p, id }))
    }
}

pub struct FakeFile {
    fs: FakeFs,
    path: String,
    id: u64,
}

impl FsState {
    /// The file a handle refers to: the directory entry if it still is that file, else the unlinked file.
    fn node_mut(&mut self, path: &str, id: u64) -> Option<&mut FileNode> {
        if self.files.get(path).map(|n| n.id) == Some(id) {
            return self.files.get_mut(path);
        }
        self.orphans.iter_mut().find(|(_, n)| n.id == id).map(|(_, n)| n)
    }

    /// Is the file behind this handle still linked in the directory?
    pub fn is_linked(&self, path: &str, id: u64) -> bool {
        self.files.get(path).map(|n| n.id) == Some(id)
    }
}

impl VerifFile for FakeFile {
    fn len(&self) -> io::Result<usize> {
        let (mut st, idx, d) = self.fs.begin(OpKind::Len, &self.path, &[]);
        if !matches!(d, Decision::Proceed) {
            st.log[idx].res = Res::InjectedErr;
            return Err(injected());
        }
        let (path, id) = (self.path.clone(), self.id);
        match st.node_mut(&path, id).map(|n| n.len()) {
            Some(n) => {
                st.log[idx].res = Res::Ok(n);
                Ok(n)
            }
            None => {
                st.log[idx].res = Res::NaturalErr;
                Err(io::Error::new(io::ErrorKind::NotFound, "file is gone"))
            }
        }
    }

    fn write(&mut self, buf: &[u8]) -> io::Result<usize> {
        self.fs.pass_gate();
        let (mut st, idx, d) = self.fs.begin(OpKind::Write, &self.path, buf);
        let path = self.path.clone();
        let id = self.id;
        let Some(cur) = st.node_mut(&path, id).map(|n| n.len()) else {
            st.log[idx].res = Res::NaturalErr;
            return Err(io::Error::new(io::ErrorKind::NotFound, "file is gone"));
        };
        match d {
            Decision::Proceed => {
                st.node_mut(&path, id).unwrap().unsynced.extend_from_slice(buf);
                st.log[idx].res = Res::Ok(buf.len());
                Ok(buf.len())
            }
            Decision::Fail => {
                st.log[idx].res = Res::InjectedErr;
                st.cuts.push(Cut { path, offset: cur, rest: buf.to_vec(), why: "write-error" });
                Err(injected())
            }
            Decision::Short(kind) => {
                if buf.len() < 2 {
                    // nothing to split: plain error
                    st.log[idx].res = Res::InjectedErr;
                    st.cuts.push(Cut { path, offset: cur, rest: buf.to_vec(), why: "write-error" });
                    return Err(injected());
                }
                let k = match kind {
                    FaultKind::ShortOne => 1,
                    FaultKind::ShortMost => buf.len() - 1,
                    _ => (buf.len() / 2).max(1),
                };
                st.node_mut(&path, id).unwrap().unsynced.extend_from_slice(&buf[..k]);
                st.log[idx].res = Res::Short(k);
                if kind != FaultKind::ShortOk {
                    st.next_write_fails = true;
                }
                Ok(k)
            }
        }
    }

    fn flush(&mut self) -> io::Result<()> {
        let (mut st, idx, d) = self.fs.begin(OpKind::Flush, &self.path, &[]);
        if !matches!(d, Decision::Proceed) {
            st.log[idx].res = Res::InjectedErr;
            return Err(injected());
        }
        Ok(())
    }

    fn sync_all(&mut self) -> io::Result<()> {
        let (mut st, idx, d) = self.fs.begin(OpKind::Sync, &self.path, &[]);
        if !matches!(d, Decision::Proceed) {
            st.log[idx].res = Res::InjectedErr;
            return Err(injected());
        }
        let path = self.path.clone();
        let id = self.id;
        match st.node_mut(&path, id) {
            Some(n) => {
                let u = std::mem::take(&mut n.unsynced);
                n.synced.extend_from_slice(&u);
                Ok(())
            }
            None => {
                st.log[idx].res = Res::NaturalErr;
                Err(io::Error::new(io::ErrorKind::NotFound, "file is gone"))
            }
        }
    }
}

// ---------------------------------------------------------------------------
// file ids
// ---------------------------------------------------------------------------

#[derive(Clone, Copy, Debug)]
pub enum IdMode {
    /// 1, 2, 3, ...
    Counting,
    /// seeded 32-bit values
    Random,
    /// seeded values below n (name collisions become likely)
    Small(u32),
}

/// The `emit::Rng` handed to the worker; it only draws file ids from it.
#[derive(Clone)]
pub struct IdRng(Arc<Mutex<IdState>>);

struct IdState {
    rng: Rng,
    mode: IdMode,
    next: u64,
    produced: Vec<u32>,
}

impl IdRng {
    pub fn new(seed: u64, mode: IdMode) -> IdRng {
        IdRng(Arc::new(Mutex::new(IdState { rng: Rng::new(seed), mode, next: 1, produced: Vec::new() })))
    }

    pub fn produced(&self) -> Vec<u32> {
        self.0.lock().unwrap().produced.clone()
    }
}

impl emit::Rng for IdRng {
    fn fill<A: AsMut<[u8]>>(&self, mut arr: A) -> Option<A> {
        let mut st = self.0.lock().unwrap();
        let v: u64 = match st.mode {
            IdMode::Counting => {
                let n = st.next;
                st.next += 1;
                n
            }
            IdMode::Random => st.rng.next(),
            IdMode::Small(n) => st.rng.below(n.max(1) as u64),
        };
        st.produced.push(v as u32);
        let buf = arr.as_mut();
        let bytes = v.to_le_bytes();
        for (i, b) in buf.iter_mut().enumerate() {
            *b = bytes[i % 8];
        }
        Some(arr)
    }
}

// ---------------------------------------------------------------------------
// the rig: worker + batcher role
// ---------------------------------------------------------------------------

#[derive(Clone, Copy, Debug, PartialEq, Eq, Hash)]
pub enum Roll {
    Day,
    Hour,
    Minute,
}

impl Roll {
    pub fn name(self) -> &'static str {
        match self {
            Roll::Day => "day",
            Roll::Hour => "hour",
            Roll::Minute => "minute",
        }
    }

    pub fn verif(self) -> VerifRollBy {
        match self {
            Roll::Day => VerifRollBy::Day,
            Roll::Hour => VerifRollBy::Hour,
            Roll::Minute => VerifRollBy::Minute,
        }
    }

    pub fn period_nanos(self) -> u64 {
        match self {
            Roll::Day => 86_400_000_000_000,
            Roll::Hour => 3_600_000_000_000,
            Roll::Minute => 60_000_000_000,
        }
    }
}

#[derive(Clone, Debug)]
pub struct Cfg {
    pub dir: String,
    pub prefix: String,
    pub ext: String,
    pub roll: Roll,
    pub max_files: usize,
    pub max_size: usize,
    pub sep: &'static [u8],
}

impl Cfg {
    pub fn template(&self) -> String {
        if self.dir.is_empty() {
            format!("{}.{}", self.prefix, self.ext)
        } else if self.dir.ends_with('/') {
            format!("{}{}.{}", self.dir, self.prefix, self.ext)
        } else {
            format!("{}/{}.{}", self.dir, self.prefix, self.ext)
        }
    }

    /// The directory the set lives in: a template without a directory part means the working directory.
    pub fn effective_dir(&self) -> String {
        if self.dir.is_empty() {
            ".".to_string()
        } else {
            self.dir.clone()
        }
    }

    pub fn to_json(&self) -> Json {
        json!({"dir": self.dir, "prefix": self.prefix, "ext": self.ext, "roll_by": self.roll.name(),
               "max_files": self.max_files, "max_file_size_bytes": self.max_size, "separator": self.sep})
    }
}

pub enum Attempt {
    Ok,
    Retry(Vec<Box<[u8]>>),
    GiveUp,
    Crash,
    Panic(String),
}

impl Attempt {
    pub fn name(&self) -> &'static str {
        match self {
            Attempt::Ok => "ok",
            Attempt::Retry(_) => "retry",
            Attempt::GiveUp => "give-up",
            Attempt::Crash => "crash",
            Attempt::Panic(_) => "panic",
        }
    }
}

pub struct Rig {
    pub fs: FakeFs,
    pub clock: FakeClock,
    pub ids: IdRng,
    pub cfg: Cfg,
    pub reuse: bool,
    worker: Option<VerifWorker>,
}

impl Rig {
    pub fn new(fs: FakeFs, clock: FakeClock, ids: IdRng, cfg: Cfg) -> Rig {
        Rig { fs, clock, ids, cfg, reuse: false, worker: None }
    }

    /// (Re)start: the old worker (and its open file) is dropped, a new one is built over whatever
    /// the filesystem holds now.
    pub fn start(&mut self, reuse: bool) {
        self.worker = None;
        self.reuse = reuse;
        let w = VerifWorker::new(
            self.fs.clone(),
            self.clock.clone(),
            self.ids.clone(),
            self.cfg.template(),
            self.cfg.roll.verif(),
            reuse,
            self.cfg.max_files,
            self.cfg.max_size,
            self.cfg.sep,
        )
        .expect("file set template is valid");
        self.worker = Some(w);
    }

    /// One `on_batch` call on the real worker.
    pub fn attempt(&mut self, bufs: Vec<Box<[u8]>>) -> Attempt {
        let w = self.worker.as_mut().expect("worker started");
        let res = quiet(|| panic::catch_unwind(AssertUnwindSafe(|| w.on_batch(bufs))));
        match res {
            Ok(Ok(())) => Attempt::Ok,
            Ok(Err(Some(rem))) => Attempt::Retry(rem),
            Ok(Err(None)) => Attempt::GiveUp,
            Err(p) => {
                if p.is::<CrashMarker>() {
                    // the process is gone
                    self.worker = None;
                    Attempt::Crash
                } else {
                    // the batcher catches panics of the processor and keeps using it
                    Attempt::Panic(vcommon::panic_message(&p))
                }
            }
        }
    }
}

// ---------------------------------------------------------------------------
// calendar (independent of emit): civil-from-days
// ---------------------------------------------------------------------------

pub fn civil_from_days(z: i64) -> (i64, i64, i64) {
    let z = z + 719468;
    let era = if z >= 0 { z } else { z - 146096 } / 146097;
    let doe = z - era * 146097;
    let yoe = (doe - doe / 1460 + doe / 36524 - doe / 146096) / 365;
    let y = yoe + era * 400;
    let doy = doe - (365 * yoe + yoe / 4 - yoe / 100);
    let mp = (5 * doy + 2) / 153;
    let d = doy - (153 * mp + 2) / 5 + 1;
    let m = if mp < 10 { mp + 3 } else { mp - 9 };
    (if m <= 2 { y + 1 } else { y }, m, d)
}

pub fn days_from_civil(y: i64, m: i64, d: i64) -> i64 {
    let y = if m <= 2 { y - 1 } else { y };
    let era = if y >= 0 { y } else { y - 399 } / 400;
    let yoe = y - era * 400;
    let doy = (153 * (if m > 2 { m - 3 } else { m + 9 }) + 2) / 5 + d - 1;
    let doe = yoe * 365 + yoe / 4 - yoe / 100 + doy;
    era * 146097 + doe - 719468
}

/// The period text of a clock reading, and the milliseconds since the start of that period.
pub fn period_of(roll: Roll, unix_nanos: u64) -> (String, u64) {
    let secs = (unix_nanos / 1_000_000_000) as i64;
    let (y, m, d) = civil_from_days(secs.div_euclid(86400));
    let sod = secs.rem_euclid(86400);
    let (h, mi) = (sod / 3600, sod / 60 % 60);
    let text = match roll {
        Roll::Day => format!("{:04}-{:02}-{:02}", y, m, d),
        Roll::Hour => format!("{:04}-{:02}-{:02}-{:02}", y, m, d, h),
        Roll::Minute => format!("{:04}-{:02}-{:02}-{:02}-{:02}", y, m, d, h, mi),
    };
    let millis = (unix_nanos % roll.period_nanos()) / 1_000_000;
    (text, millis)
}

/// Parts of a member name `prefix.period.counter.id.ext` (exact grammar, written from the
/// documented naming scheme): `Some((period, counter, id))`.
pub fn parse_member<'a>(name: &'a str, prefix: &str, ext: &str) -> Option<(&'a str, &'a str, &'a str)> {
    let rest = name.strip_prefix(prefix)?.strip_prefix('.')?;
    let rest = rest.strip_suffix(ext)?.strip_suffix('.')?;
    let mut it = rest.split('.');
    let (period, counter, id) = (it.next()?, it.next()?, it.next()?);
    if it.next().is_some() {
        return None;
    }
    // YYYY-MM-DD[-HH[-MM]]
    let pb = period.as_bytes();
    if !(pb.len() == 10 || pb.len() == 13 || pb.len() == 16) {
        return None;
    }
    for (i, c) in pb.iter().enumerate() {
        let dash = i == 4 || i == 7 || i == 10 || i == 13;
        if dash != (*c == b'-') || (!dash && !c.is_ascii_digit()) {
            return None;
        }
    }
    if counter.len() != 8 || !counter.bytes().all(|b| b.is_ascii_digit()) {
        return None;
    }
    if id.len() != 8 || !id.bytes().all(|b| b.is_ascii_hexdigit()) {
        return None;
    }
    Some((period, counter, id))
}

pub fn file_name_of(path: &str) -> &str {
    path.rsplit('/').next().unwrap_or(path)
}

pub fn dir_of(path: &str) -> String {
    parent_of(path)
}
