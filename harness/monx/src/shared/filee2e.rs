/*!
Helpers for the end-to-end file lanes (C07 / C09 / C10 / C11): the whole pipeline
`emit_file::set_with_writer(..).verif_spawn_with(fakefs, clock, ids)` = emit -> format on the
caller -> channel -> `emit_file_worker` thread -> real worker -> fake filesystem.

Records are self-describing: `vid:len:payload` where the payload is a function of `vid`, so a
reader can tell a complete record from a truncated or spliced one without a table.
*/
#![allow(dead_code)]

use std::{
    cell::RefCell,
    collections::BTreeMap,
    io,
    sync::atomic::{AtomicU64, Ordering},
    sync::Arc,
};

use emit::Props as _;
use emit_file::{FileBuf, FileSet};

use super::fakefs::{FsState, OpKind, OpRec, Res};

pub fn payload_byte(vid: u64, i: usize) -> u8 {
    b'a' + ((vid as usize).wrapping_mul(7).wrapping_add(i) % 26) as u8
}

pub fn record_body(vid: u64, len: usize) -> Vec<u8> {
    let mut b = format!("{}:{}:", vid, len).into_bytes();
    for i in 0..len {
        b.push(payload_byte(vid, i));
    }
    b
}

/// `Some(vid)` iff `piece` is exactly one well-formed record body.
pub fn parse_body(piece: &[u8]) -> Option<u64> {
    let mut it = piece.splitn(3, |b| *b == b':');
    let vid: u64 = std::str::from_utf8(it.next()?).ok()?.parse().ok()?;
    let len: usize = std::str::from_utf8(it.next()?).ok()?.parse().ok()?;
    let payload = it.next()?;
    if payload.len() != len {
        return None;
    }
    for (i, b) in payload.iter().enumerate() {
        if *b != payload_byte(vid, i) {
            return None;
        }
    }
    Some(vid)
}

/// Is `piece` a proper prefix of some well-formed record body (+ separator)?
pub fn is_record_prefix(piece: &[u8], rest: &[u8], sep: u8) -> bool {
    let mut cand = piece.to_vec();
    let upto = rest.iter().position(|b| *b == sep).map(|p| p + 1).unwrap_or(rest.len());
    cand.extend_from_slice(&rest[..upto]);
    cand.last() == Some(&sep) && parse_body(&cand[..cand.len() - 1]).is_some()
}

/// The writer handed to `set_with_writer`: formats `vid:len:payload`, appends the separator
/// itself or leaves that to the emitter, and fails for `vid % fail_mod == fail_mod - 1`.
pub fn writer(
    append_sep: bool,
    sep: &'static [u8],
    fail_mod: u64,
    format_failures: Arc<AtomicU64>,
) -> impl Fn(&mut FileBuf, &emit::Event<&dyn emit::props::ErasedProps>) -> io::Result<()> + Send + Sync + 'static {
    move |buf, evt| {
        let vid: u64 = evt.props().pull("vid").ok_or_else(|| io::Error::new(io::ErrorKind::Other, "no vid"))?;
        let len: u64 = evt.props().pull("len").unwrap_or(0);
        if fail_mod > 0 && vid % fail_mod == fail_mod - 1 {
            format_failures.fetch_add(1, Ordering::SeqCst);
            return Err(io::Error::new(io::ErrorKind::Other, "scripted format failure"));
        }
        buf.extend_from_slice(&record_body(vid, len as usize));
        if append_sep {
            buf.extend_from_slice(sep);
        }
        Ok(())
    }
}

pub fn emit_record(files: &FileSet, vid: u64, len: usize) {
    use emit::Emitter as _;
    files.emit(emit::Event::new(
        emit::mdl!(),
        emit::Template::literal("r"),
        emit::Empty,
        [("vid", vid), ("len", len as u64)],
    ));
}

struct MapSampler(RefCell<BTreeMap<String, u64>>);

impl emit::metric::sampler::Sampler for MapSampler {
    fn metric<P: emit::Props>(&self, metric: emit::metric::Metric<P>) {
        let v = metric.value().to_string().parse::<u64>().unwrap_or(u64::MAX);
        self.0.borrow_mut().insert(metric.name().to_string(), v);
    }
}

/// All metrics of the file set by name (`file_queue_length`, `file_queue_full_truncated`, `file_write_failed`, ...).
pub fn sample_metrics(files: &FileSet) -> BTreeMap<String, u64> {
    use emit::metric::Source as _;
    let s = MapSampler(RefCell::new(BTreeMap::new()));
    files.metric_source().sample_metrics(&s);
    s.0.into_inner()
}

pub fn metric(m: &BTreeMap<String, u64>, name: &str) -> u64 {
    m.get(name).copied().unwrap_or(0)
}

/// vids of all records that are complete (body + separator) inside synced bytes.
pub fn synced_vids(st: &FsState, sep: u8) -> std::collections::HashSet<u64> {
    let mut out = std::collections::HashSet::new();
    for node in st.files.values() {
        let b = &node.synced;
        let mut s = 0;
        for (i, c) in b.iter().enumerate() {
            if *c == sep {
                if let Some(v) = parse_body(&b[s..i]) {
                    out.insert(v);
                }
                s = i + 1;
            }
        }
    }
    out
}

/// Could `piece` be the beginning of one well-formed record that is still being written?
pub fn is_plausible_record_start(piece: &[u8]) -> bool {
    let mut it = piece.splitn(3, |b| *b == b':');
    let Some(vid_txt) = it.next() else { return true };
    if vid_txt.is_empty() || !vid_txt.iter().all(|b| b.is_ascii_digit()) {
        return false;
    }
    let Some(len_txt) = it.next() else { return true };
    if !len_txt.iter().all(|b| b.is_ascii_digit()) {
        return false;
    }
    let Some(payload) = it.next() else { return true };
    let (Ok(vid), Ok(len)) = (std::str::from_utf8(vid_txt).unwrap().parse::<u64>(), std::str::from_utf8(len_txt).unwrap().parse::<usize>()) else {
        return false;
    };
    payload.len() <= len && payload.iter().enumerate().all(|(i, b)| *b == payload_byte(vid, i))
}

/// Record-grammar check of every file: (path, start, end, text) of every piece that is neither
/// empty, nor a complete record, nor a truncated record justified by a logged cut.
/// `worker_may_be_writing`: the snapshot was taken while the worker thread can be in the middle of
/// a `write_all`, so an unterminated tail that is the beginning of one well-formed record is not judged.
pub fn bad_pieces(st: &FsState, sep: u8, worker_may_be_writing: bool) -> Vec<(String, usize, usize, String)> {
    let mut bad = Vec::new();
    for (path, node) in st.files.iter() {
        let content = node.content();
        let mut s = 0usize;
        let mut i = 0usize;
        loop {
            if i == content.len() || content[i] == sep {
                let terminated = i < content.len();
                let piece = &content[s..i];
                if !piece.is_empty() && !(terminated && parse_body(piece).is_some()) {
                    let justified = st.cuts.iter().any(|c| c.path == *path && c.offset == i && is_record_prefix(piece, &c.rest, sep))
                        || (worker_may_be_writing && !terminated && is_plausible_record_start(piece));
                    if !justified {
                        bad.push((path.clone(), s, i, vcommon::show_bytes(&piece[..piece.len().min(48)])));
                    }
                }
                s = i + 1;
            }
            if i >= content.len() {
                break;
            }
            i += 1;
        }
    }
    bad
}

/// One worker batch as seen in the op log: the writes between two syncs.
#[derive(Debug, Clone)]
pub struct LoggedBatch {
    pub path: String,
    pub bytes: usize,
    pub created: bool,
    pub ok: bool,
    pub first_op: usize,
}

/// Split the op log into worker batches (`write* flush sync` on one file; anything that failed marks the batch not ok).
pub fn logged_batches(log: &[OpRec]) -> Vec<LoggedBatch> {
    let mut out: Vec<LoggedBatch> = Vec::new();
    let mut cur: Option<LoggedBatch> = None;
    let mut created = false;
    let mut failed = false;
    for op in log {
        let ok = matches!(op.res, Res::Ok(_));
        match op.kind {
            OpKind::OpenNew => {
                created |= ok;
                failed |= !ok;
            }
            OpKind::Write => {
                let b = cur.get_or_insert(LoggedBatch { path: op.path.clone(), bytes: 0, created, ok: true, first_op: op.idx });
                if b.path != op.path {
                    b.ok = false;
                }
                if let Res::Ok(n) | Res::Short(n) = op.res {
                    b.bytes += n;
                }
                if !ok {
                    b.ok = false;
                }
            }
            OpKind::Sync => {
                if let Some(mut b) = cur.take() {
                    b.ok &= ok && !failed;
                    out.push(b);
                }
                created = false;
                failed = false;
            }
            _ => {
                if !ok {
                    failed = true;
                    if let Some(b) = cur.as_mut() {
                        b.ok = false;
                    }
                }
            }
        }
    }
    out
}
