/*!
Helpers for the end-to-end file lanes (C07 / C09 / C10 / C11): the whole pipeline
`emit_file::set_with_writer(..).verif_spawn_with(fakefs, clock, ids)` = emit -> format on the
caller -> channel -> `emit_file_worker` thread -> real worker -> fake filesystem.

Records are self-describing: `vid:len:payload` where the payload is a function of `vid`, so a
reader can tell a complete record from a truncated or spliced one without a table.
*/
#![allow(dead_code)]

use std::{
    cell::RefCell,
    collections::BTreeMap,
    io,
    sync::atomic::{AtomicU64, Ordering},
    sync::Arc,
};

use emit::Props as _;
use emit_file::{FileBuf, FileSet};

use super::fakefs::{FsState, OpKind, OpRec, Res};

pub fn payload_byte(vid: u64, i: usize) -> u8 {
    b'a' + ((vid as usize).wrapping_mul(7).wrapping_add(i) % 26) as u8
}

pub fn record_body(vid: u64, len: usize) -> Vec<u8> {
    let mut b = format!("{}:{}:", vid, len).into_bytes();
    for i in 0..len {
        b.push(payload_byte(vid, i));
    }
    b
}

/// `Some(vid)` iff `piece` is exactly one well-formed record body.
pub fn parse_body(piece: &[u8]) -> Option<u64> {
    let mut it = piece.splitn(3, |b| *b == b':');
    let vid: u64 = std::str::from_utf8(it.next()?).ok()?.parse().ok()?;
    let len: usize = std::str::from_utf8(it.next()?).ok()?.parse().ok()?;
    let payload = it.next()?;
    if payload.len() != len {
        return None;
    }
    for (i, b) in payload.iter().enumerate() {
        if *b != payload_byte(vid, i) {
            return None;
        }
    }
    Some(vid)
}

/// How a scenario's records look on disk.
#[derive(Clone, Copy, Debug, PartialEq, Eq)]
pub enum Codec {
    /// `vid:len:payload` written by the harness's own writer (`set_with_writer`)
    Custom,
    /// the default newline-delimited JSON writer of `emit_file::set`
    Json,
}

const JSON_HEAD: &[u8] = br#"{"mdl":"e2e","msg":"r","tpl":"r","len":"#;

fn pad_of(vid: u64, len: usize) -> String {
    (0..len).map(|i| payload_byte(vid, i) as char).collect()
}

impl Codec {
    /// The exact bytes (without separator) of the ordinary event `vid`.
    pub fn body(self, vid: u64, len: usize) -> Vec<u8> {
        match self {
            Codec::Custom => record_body(vid, len),
            // the default writer: well-known fields first, then the properties in key order
            Codec::Json => format!(r#"{{"mdl":"e2e","msg":"r","tpl":"r","len":{},"pad":"{}","vid":{}}}"#, len, pad_of(vid, len), vid).into_bytes(),
        }
    }

    /// `Some(vid)` iff `piece` is byte for byte the record of one ordinary event.
    pub fn parse(self, piece: &[u8]) -> Option<u64> {
        match self {
            Codec::Custom => parse_body(piece),
            Codec::Json => {
                let v: serde_json::Value = serde_json::from_slice(piece).ok()?;
                let vid = v.get("vid")?.as_u64()?;
                let len = v.get("len")?.as_u64()? as usize;
                (self.body(vid, len) == piece).then_some(vid)
            }
        }
    }

    /// Could `piece` be the beginning of one ordinary record that is still being written?
    pub fn plausible_start(self, piece: &[u8]) -> bool {
        match self {
            Codec::Custom => is_plausible_record_start(piece),
            Codec::Json => {
                // prefix of: HEAD digits `,"pad":"` lower-case* `","vid":` digits `}`
                enum Seg {
                    Lit(&'static [u8]),
                    Digits,
                    Lower,
                }
                let segs = [Seg::Lit(JSON_HEAD), Seg::Digits, Seg::Lit(br#","pad":""#), Seg::Lower, Seg::Lit(br#"","vid":"#), Seg::Digits, Seg::Lit(b"}")];
                let mut i = 0;
                for seg in segs {
                    if i == piece.len() {
                        return true;
                    }
                    match seg {
                        Seg::Lit(l) => {
                            let n = l.len().min(piece.len() - i);
                            if piece[i..i + n] != l[..n] {
                                return false;
                            }
                            i += n;
                        }
                        Seg::Digits => {
                            let n = piece[i..].iter().take_while(|b| b.is_ascii_digit()).count();
                            if n == 0 {
                                return false;
                            }
                            i += n;
                        }
                        Seg::Lower => i += piece[i..].iter().take_while(|b| b.is_ascii_lowercase()).count(),
                    }
                }
                i == piece.len()
            }
        }
    }
}

/// Is `piece` a proper prefix of some well-formed record body (+ separator)?
pub fn is_record_prefix(piece: &[u8], rest: &[u8], sep: u8) -> bool {
    is_record_prefix_c(piece, rest, sep, Codec::Custom)
}

pub fn is_record_prefix_c(piece: &[u8], rest: &[u8], sep: u8, codec: Codec) -> bool {
    let mut cand = piece.to_vec();
    let upto = rest.iter().position(|b| *b == sep).map(|p| p + 1).unwrap_or(rest.len());
    cand.extend_from_slice(&rest[..upto]);
    cand.last() == Some(&sep) && codec.parse(&cand[..cand.len() - 1]).is_some()
}

/// How an event's formatting fails on the emitting thread (`fk` property; 0 = it does not).
/// Custom writer: 1 = half of the record is written into the `FileBuf`, then `Err`; 2 = `Err` at once;
/// 3 = the whole record AND the separator are written, then `Err`; 4 = one byte, then `Err`.
/// Default JSON writer: 1 = a template hole whose `Display` writes some text and then fails; 2 = a hole whose
/// `Display` fails at once; 3 = a `Debug`-captured property that writes some text and fails; 4 = a
/// `Display`-captured property (not in the template) that writes some text and fails.
pub const FAIL_KINDS: u64 = 4;

pub struct PartialDisplay(pub u64, pub bool);

impl std::fmt::Display for PartialDisplay {
    fn fmt(&self, f: &mut std::fmt::Formatter) -> std::fmt::Result {
        if self.1 {
            write!(f, "partial-of-{}-{}", self.0, pad_of(self.0, 9))?;
        }
        Err(std::fmt::Error)
    }
}

impl std::fmt::Debug for PartialDisplay {
    fn fmt(&self, f: &mut std::fmt::Formatter) -> std::fmt::Result {
        std::fmt::Display::fmt(self, f)
    }
}

const BAD_TPL: &[emit::template::Part<'static>] = &[emit::template::Part::text("bad "), emit::template::Part::hole("bad")];

/// Emit one event: an ordinary one (`fk == 0`) or one whose formatting fails part-way.
pub fn emit_e2e(files: &FileSet, codec: Codec, vid: u64, len: usize, fk: u64) {
    use emit::Emitter as _;
    use emit::Value;
    let mdl = emit::Path::new_raw("e2e");
    match (codec, fk) {
        (Codec::Custom, _) => files.emit(emit::Event::new(mdl, emit::Template::literal("r"), emit::Empty, [("vid", vid), ("len", len as u64), ("fk", fk)])),
        (Codec::Json, 0) => {
            let pad = pad_of(vid, len);
            files.emit(emit::Event::new(
                mdl,
                emit::Template::literal("r"),
                emit::Empty,
                [("vid", Value::from(vid)), ("len", Value::from(len as u64)), ("pad", Value::from(&*pad))],
            ))
        }
        (Codec::Json, 1) | (Codec::Json, 2) => {
            let bad = PartialDisplay(vid, fk == 1);
            files.emit(emit::Event::new(mdl, emit::Template::new(BAD_TPL), emit::Empty, [("vid", Value::from(vid)), ("bad", Value::from_display(&bad))]))
        }
        (Codec::Json, 3) => {
            let bad = PartialDisplay(vid, true);
            files.emit(emit::Event::new(mdl, emit::Template::literal("r"), emit::Empty, [("vid", Value::from(vid)), ("bad", Value::from_debug(&bad)), ("len", Value::from(len as u64))]))
        }
        (Codec::Json, _) => {
            let bad = PartialDisplay(vid, true);
            files.emit(emit::Event::new(mdl, emit::Template::literal("r"), emit::Empty, [("vid", Value::from(vid)), ("bad", Value::from_display(&bad)), ("len", Value::from(len as u64))]))
        }
    }
}

/// The writer handed to `set_with_writer`: formats `vid:len:payload`, appends the separator
/// itself or leaves that to the emitter, and fails for `vid % fail_mod == fail_mod - 1`.
pub fn writer(
    append_sep: bool,
    sep: &'static [u8],
    fail_mod: u64,
    format_failures: Arc<AtomicU64>,
) -> impl Fn(&mut FileBuf, &emit::Event<&dyn emit::props::ErasedProps>) -> io::Result<()> + Send + Sync + 'static {
    move |buf, evt| {
        let vid: u64 = evt.props().pull("vid").ok_or_else(|| io::Error::new(io::ErrorKind::Other, "no vid"))?;
        let len: u64 = evt.props().pull("len").unwrap_or(0);
        let fk: u64 = evt.props().pull("fk").unwrap_or(0);
        if fk > 0 || (fail_mod > 0 && vid % fail_mod == fail_mod - 1) {
            // fail part-way: bytes already in the buffer must never reach a file
            let body = record_body(vid, len as usize);
            match fk {
                1 => buf.extend_from_slice(&body[..body.len() / 2]),
                3 => {
                    buf.extend_from_slice(&body);
                    buf.extend_from_slice(sep);
                }
                4 => buf.push(body[0]),
                _ => {}
            }
            format_failures.fetch_add(1, Ordering::SeqCst);
            return Err(io::Error::new(io::ErrorKind::Other, "scripted format failure"));
        }
        buf.extend_from_slice(&record_body(vid, len as usize));
        if append_sep {
            buf.extend_from_slice(sep);
        }
        Ok(())
    }
}

pub fn emit_record(files: &FileSet, vid: u64, len: usize) {
    use emit::Emitter as _;
    files.emit(emit::Event::new(
        emit::mdl!(),
        emit::Template::literal("r"),
        emit::Empty,
        [("vid", vid), ("len", len as u64)],
    ));
}

struct MapSampler(RefCell<BTreeMap<String, u64>>);

impl emit::metric::sampler::Sampler for MapSampler {
    fn metric<P: emit::Props>(&self, metric: emit::metric::Metric<P>) {
        let v = metric.value().to_string().parse::<u64>().unwrap_or(u64::MAX);
        self.0.borrow_mut().insert(metric.name().to_string(), v);
    }
}

/// All metrics of the file set by name (`file_queue_length`, `file_queue_full_truncated`, `file_write_failed`, ...).
pub fn sample_metrics(files: &FileSet) -> BTreeMap<String, u64> {
    use emit::metric::Source as _;
    let s = MapSampler(RefCell::new(BTreeMap::new()));
    files.metric_source().sample_metrics(&s);
    s.0.into_inner()
}

pub fn metric(m: &BTreeMap<String, u64>, name: &str) -> u64 {
    m.get(name).copied().unwrap_or(0)
}

/// vids of all records that are complete (body + separator) inside synced bytes.
pub fn synced_vids(st: &FsState, sep: u8) -> std::collections::HashSet<u64> {
    synced_vids_c(st, sep, Codec::Custom)
}

pub fn synced_vids_c(st: &FsState, sep: u8, codec: Codec) -> std::collections::HashSet<u64> {
    let mut out = std::collections::HashSet::new();
    for node in st.files.values() {
        let b = &node.synced;
        let mut s = 0;
        for (i, c) in b.iter().enumerate() {
            if *c == sep {
                if let Some(v) = codec.parse(&b[s..i]) {
                    out.insert(v);
                }
                s = i + 1;
            }
        }
    }
    out
}

/// Could `piece` be the beginning of one well-formed record that is still being written?
pub fn is_plausible_record_start(piece: &[u8]) -> bool {
    let mut it = piece.splitn(3, |b| *b == b':');
    let Some(vid_txt) = it.next() else { return true };
    if vid_txt.is_empty() || !vid_txt.iter().all(|b| b.is_ascii_digit()) {
        return false;
    }
    let Some(len_txt) = it.next() else { return true };
    if !len_txt.iter().all(|b| b.is_ascii_digit()) {
        return false;
    }
    let Some(payload) = it.next() else { return true };
    let (Ok(vid), Ok(len)) = (std::str::from_utf8(vid_txt).unwrap().parse::<u64>(), std::str::from_utf8(len_txt).unwrap().parse::<usize>()) else {
        return false;
    };
    payload.len() <= len && payload.iter().enumerate().all(|(i, b)| *b == payload_byte(vid, i))
}

/// Record-grammar check of every file: (path, start, end, text) of every piece that is neither
/// empty, nor a complete record, nor a truncated record justified by a logged cut.
/// `worker_may_be_writing`: the snapshot was taken while the worker thread can be in the middle of
/// a `write_all`, so an unterminated tail that is the beginning of one well-formed record is not judged.
pub fn bad_pieces(st: &FsState, sep: u8, worker_may_be_writing: bool) -> Vec<(String, usize, usize, String)> {
    bad_pieces_c(st, sep, worker_may_be_writing, Codec::Custom)
}

pub fn bad_pieces_c(st: &FsState, sep: u8, worker_may_be_writing: bool, codec: Codec) -> Vec<(String, usize, usize, String)> {
    let mut bad = Vec::new();
    for (path, node) in st.files.iter() {
        let content = node.content();
        let mut s = 0usize;
        let mut i = 0usize;
        loop {
            if i == content.len() || content[i] == sep {
                let terminated = i < content.len();
                let piece = &content[s..i];
                if !piece.is_empty() && !(terminated && codec.parse(piece).is_some()) {
                    let justified = st.cuts.iter().any(|c| c.path == *path && c.offset == i && is_record_prefix_c(piece, &c.rest, sep, codec))
                        || (worker_may_be_writing && !terminated && codec.plausible_start(piece));
                    if !justified {
                        // show what the piece would have been had a logged cut at this offset not interrupted it
                        let mut shown = piece.to_vec();
                        if let Some(c) = st.cuts.iter().find(|c| c.path == *path && c.offset == i) {
                            let upto = c.rest.iter().position(|b| *b == sep).unwrap_or(c.rest.len());
                            shown.extend_from_slice(&c.rest[..upto]);
                        }
                        bad.push((path.clone(), s, i, vcommon::show_bytes(&shown[..shown.len().min(160)])));
                    }
                }
                s = i + 1;
            }
            if i >= content.len() {
                break;
            }
            i += 1;
        }
    }
    bad
}

/// One worker batch as seen in the op log: the writes between two syncs.
#[derive(Debug, Clone)]
pub struct LoggedBatch {
    pub path: String,
    pub bytes: usize,
    pub created: bool,
    pub ok: bool,
    pub first_op: usize,
}

/// Split the op log into worker batches (`write* flush sync` on one file; anything that failed marks the batch not ok).
pub fn logged_batches(log: &[OpRec]) -> Vec<LoggedBatch> {
    let mut out: Vec<LoggedBatch> = Vec::new();
    let mut cur: Option<LoggedBatch> = None;
    let mut created = false;
    let mut failed = false;
    for op in log {
        let ok = matches!(op.res, Res::Ok(_));
        match op.kind {
            OpKind::OpenNew => {
                created |= ok;
                failed |= !ok;
            }
            OpKind::Write => {
                let b = cur.get_or_insert(LoggedBatch { path: op.path.clone(), bytes: 0, created, ok: true, first_op: op.idx });
                if b.path != op.path {
                    b.ok = false;
                }
                if let Res::Ok(n) | Res::Short(n) = op.res {
                    b.bytes += n;
                }
                if !ok {
                    b.ok = false;
                }
            }
            OpKind::Sync => {
                if let Some(mut b) = cur.take() {
                    b.ok &= ok && !failed;
                    out.push(b);
                }
                created = false;
                failed = false;
            }
            _ => {
                if !ok {
                    failed = true;
                    if let Some(b) = cur.as_mut() {
                        b.ok = false;
                    }
                }
            }
        }
    }
    out
}
