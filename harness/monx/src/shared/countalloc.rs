/*!
A counting global allocator for the C09 end-to-end lanes ("does the live heap keep growing with the
number of emitted events while the destination is stalled?"). The type lives here, the
`#[global_allocator]` static is declared by the monitor binary that wants it.

Counters are striped per thread (a thread picks its stripe on first use; a `const` thread-local
without a destructor, so the allocator never allocates or registers anything itself) to keep the
heavily threaded phases from serialising on one cache line. `live_bytes` sums the stripes: a block
freed by another thread than the one that allocated it makes single stripes negative, the sum is
exact once the threads are quiescent.
*/
#![allow(dead_code)]
use std::{
    alloc::{GlobalAlloc, Layout, System},
    cell::Cell,
    sync::atomic::{AtomicI64, AtomicU64, AtomicUsize, Ordering},
};

const STRIPES: usize = 64;

#[repr(align(128))]
struct Stripe {
    live: AtomicI64,
    calls: AtomicU64,
}

static TABLE: [Stripe; STRIPES] = [const {
    Stripe {
        live: AtomicI64::new(0),
        calls: AtomicU64::new(0),
    }
}; STRIPES];
static NEXT: AtomicUsize = AtomicUsize::new(0);

thread_local! {
    static SLOT: Cell<usize> = const { Cell::new(usize::MAX) };
}

#[inline]
fn stripe() -> &'static Stripe {
    let i = SLOT
        .try_with(|s| {
            let mut i = s.get();
            if i == usize::MAX {
                i = NEXT.fetch_add(1, Ordering::Relaxed) % STRIPES;
                s.set(i);
            }
            i
        })
        .unwrap_or(0);
    &TABLE[i]
}

#[inline]
fn add(delta: i64, call: bool) {
    let s = stripe();
    s.live.fetch_add(delta, Ordering::Relaxed);
    if call {
        s.calls.fetch_add(1, Ordering::Relaxed);
    }
}

pub struct Counting;

unsafe impl GlobalAlloc for Counting {
    unsafe fn alloc(&self, l: Layout) -> *mut u8 {
        let p = System.alloc(l);
        if !p.is_null() {
            add(l.size() as i64, true);
        }
        p
    }

    unsafe fn alloc_zeroed(&self, l: Layout) -> *mut u8 {
        let p = System.alloc_zeroed(l);
        if !p.is_null() {
            add(l.size() as i64, true);
        }
        p
    }

    unsafe fn dealloc(&self, p: *mut u8, l: Layout) {
        System.dealloc(p, l);
        add(-(l.size() as i64), false);
    }

    unsafe fn realloc(&self, p: *mut u8, l: Layout, new_size: usize) -> *mut u8 {
        let q = System.realloc(p, l, new_size);
        if !q.is_null() {
            add(new_size as i64 - l.size() as i64, true);
        }
        q
    }
}

/// Bytes currently allocated and not freed, process-wide.
pub fn live_bytes() -> i64 {
    TABLE.iter().map(|s| s.live.load(Ordering::Relaxed)).sum()
}

/// Number of allocation calls so far (alloc / alloc_zeroed / realloc), process-wide.
pub fn alloc_calls() -> u64 {
    TABLE.iter().map(|s| s.calls.load(Ordering::Relaxed)).sum()
}

/// Has the counting allocator seen anything (i.e. is it the process's global allocator)?
pub fn installed() -> bool {
    alloc_calls() > 0
}
