/*!
prost types generated for emit_otlp's own tests, `#[path]`-included through the `harness/repo`
symlink (they are `cfg(test)`-only inside emit_otlp). Used by c13 to decode captured protobuf bodies.
*/
#![allow(dead_code, clippy::all)]

#[path = ""]
pub mod common {
    #[path = "../../../repo/emitter/otlp/src/data/generated/opentelemetry.proto.common.v1.rs"]
    pub mod v1;
}
#[path = ""]
pub mod resource {
    #[path = "../../../repo/emitter/otlp/src/data/generated/opentelemetry.proto.resource.v1.rs"]
    pub mod v1;
}
#[path = ""]
pub mod logs {
    #[path = "../../../repo/emitter/otlp/src/data/generated/opentelemetry.proto.logs.v1.rs"]
    pub mod v1;
}
#[path = ""]
pub mod trace {
    #[path = "../../../repo/emitter/otlp/src/data/generated/opentelemetry.proto.trace.v1.rs"]
    pub mod v1;
}
#[path = ""]
pub mod metrics {
    #[path = "../../../repo/emitter/otlp/src/data/generated/opentelemetry.proto.metrics.v1.rs"]
    pub mod v1;
}
#[path = ""]
pub mod collector {
    #[path = ""]
    pub mod logs {
        #[path = "../../../repo/emitter/otlp/src/data/generated/opentelemetry.proto.collector.logs.v1.rs"]
        pub mod v1;
    }
    #[path = ""]
    pub mod trace {
        #[path = "../../../repo/emitter/otlp/src/data/generated/opentelemetry.proto.collector.trace.v1.rs"]
        pub mod v1;
    }
    #[path = ""]
    pub mod metrics {
        #[path = "../../../repo/emitter/otlp/src/data/generated/opentelemetry.proto.collector.metrics.v1.rs"]
        pub mod v1;
    }
}
