/*!
C13 OTLP side: a minimal HTTP/1.1 collector over `std::net::TcpListener` and the decoding of
captured request bodies (protobuf through the prost types generated for emit_otlp's tests, JSON
through the harness' strict parser) into one normalised record form.
*/
#![allow(dead_code)]

use std::{
    io::{Read, Write},
    net::{TcpListener, TcpStream},
    sync::{
        atomic::{AtomicBool, Ordering},
        Arc, Mutex,
    },
};

use prost::Message;
use vcommon::model::{parse_json, JsonTree};

use super::pb;

// ---------------------------------------------------------------------------
// collector
// ---------------------------------------------------------------------------

#[derive(Clone, Debug)]
pub struct Request {
    pub path: String,
    pub content_type: String,
    pub content_encoding: String,
    pub body: Vec<u8>,
}

pub struct Collector {
    pub port: u16,
    requests: Arc<Mutex<Vec<Request>>>,
    stop: Arc<AtomicBool>,
}

fn find(hay: &[u8], needle: &[u8]) -> Option<usize> {
    hay.windows(needle.len()).position(|w| w == needle)
}

fn serve(mut s: TcpStream, requests: Arc<Mutex<Vec<Request>>>) {
    let _ = s.set_nodelay(true);
    let mut buf: Vec<u8> = Vec::new();
    let mut chunk = [0u8; 16 * 1024];
    loop {
        // read one request head
        let head_end = loop {
            if let Some(p) = find(&buf, b"\r\n\r\n") {
                break p;
            }
            match s.read(&mut chunk) {
                Ok(0) | Err(_) => return,
                Ok(n) => buf.extend_from_slice(&chunk[..n]),
            }
        };
        let head = String::from_utf8_lossy(&buf[..head_end]).into_owned();
        let mut lines = head.split("\r\n");
        let request_line = lines.next().unwrap_or("");
        let mut path = request_line.split(' ').nth(1).unwrap_or("").to_string();
        // absolute-form request targets (`http://host:port/path`) are reduced to their path
        if let Some(rest) = path.strip_prefix("http://") {
            path = rest.find('/').map(|p| rest[p..].to_string()).unwrap_or_else(|| "/".to_string());
        }
        let mut len = 0usize;
        let mut content_type = String::new();
        let mut content_encoding = String::new();
        let mut chunked = false;
        for l in lines {
            if let Some((k, v)) = l.split_once(':') {
                let (k, v) = (k.trim().to_ascii_lowercase(), v.trim());
                match k.as_str() {
                    "content-length" => len = v.parse().unwrap_or(0),
                    "content-type" => content_type = v.to_string(),
                    "content-encoding" => content_encoding = v.to_string(),
                    "transfer-encoding" => chunked = v.eq_ignore_ascii_case("chunked"),
                    _ => {}
                }
            }
        }
        buf.drain(..head_end + 4);
        let mut body = Vec::new();
        if chunked {
            loop {
                let line_end = loop {
                    if let Some(p) = find(&buf, b"\r\n") {
                        break p;
                    }
                    match s.read(&mut chunk) {
                        Ok(0) | Err(_) => return,
                        Ok(n) => buf.extend_from_slice(&chunk[..n]),
                    }
                };
                let size = usize::from_str_radix(String::from_utf8_lossy(&buf[..line_end]).split(';').next().unwrap_or("0").trim(), 16).unwrap_or(0);
                buf.drain(..line_end + 2);
                while buf.len() < size + 2 {
                    match s.read(&mut chunk) {
                        Ok(0) | Err(_) => return,
                        Ok(n) => buf.extend_from_slice(&chunk[..n]),
                    }
                }
                body.extend_from_slice(&buf[..size]);
                buf.drain(..size + 2);
                if size == 0 {
                    break;
                }
            }
        } else {
            while buf.len() < len {
                match s.read(&mut chunk) {
                    Ok(0) | Err(_) => return,
                    Ok(n) => buf.extend_from_slice(&chunk[..n]),
                }
            }
            body = buf.drain(..len).collect();
        }
        if std::env::var("C13_DEBUG").is_ok() { eprintln!("REQ {} {} {} bytes", path, content_type, body.len()); }
        requests.lock().unwrap().push(Request { path, content_type, content_encoding, body });
        if s.write_all(b"HTTP/1.1 200 OK\r\ncontent-length: 0\r\n\r\n").is_err() {
            return;
        }
        let _ = s.flush();
    }
}

impl Collector {
    pub fn start() -> Collector {
        let listener = TcpListener::bind("127.0.0.1:0").expect("bind collector");
        let port = listener.local_addr().unwrap().port();
        let requests = Arc::new(Mutex::new(Vec::new()));
        let stop = Arc::new(AtomicBool::new(false));
        {
            let (requests, stop) = (requests.clone(), stop.clone());
            std::thread::Builder::new()
                .name("c13-collector".into())
                .spawn(move || {
                    for conn in listener.incoming() {
                        if stop.load(Ordering::SeqCst) {
                            break;
                        }
                        if let Ok(s) = conn {
                            let requests = requests.clone();
                            let _ = std::thread::Builder::new().name("c13-conn".into()).spawn(move || serve(s, requests));
                        }
                    }
                })
                .expect("spawn collector");
        }
        Collector { port, requests, stop }
    }

    pub fn url(&self, path: &str) -> String {
        format!("http://127.0.0.1:{}{}", self.port, path)
    }

    pub fn take(&self) -> Vec<Request> {
        std::mem::take(&mut *self.requests.lock().unwrap())
    }

    /// Remove and return the requests whose path starts with `prefix`.
    pub fn take_prefix(&self, prefix: &str) -> Vec<Request> {
        let mut all = self.requests.lock().unwrap();
        let (mine, rest): (Vec<Request>, Vec<Request>) = std::mem::take(&mut *all).into_iter().partition(|r| r.path.starts_with(prefix));
        *all = rest;
        mine
    }

    pub fn stop(&self) {
        self.stop.store(true, Ordering::SeqCst);
        let _ = TcpStream::connect(("127.0.0.1", self.port));
    }
}

// ---------------------------------------------------------------------------
// normalised records
// ---------------------------------------------------------------------------

#[derive(Clone, Debug, PartialEq)]
pub enum AnyObs {
    Empty,
    Str(String),
    Bool(bool),
    Int(i64),
    /// `None`: JSON `null` in the double slot (protobuf always carries the value)
    Double(Option<f64>),
    Bytes(Vec<u8>),
    Array(Vec<AnyObs>),
    Kv(Vec<(String, AnyObs)>),
}

pub type Attrs = Vec<(String, AnyObs)>;

#[derive(Clone, Debug, PartialEq)]
pub struct LogRec {
    pub scope: String,
    pub time: u64,
    pub observed: u64,
    pub body: AnyObs,
    pub severity_number: i32,
    pub severity_text: String,
    pub trace_id: Vec<u8>,
    pub span_id: Vec<u8>,
    pub attrs: Attrs,
}

#[derive(Clone, Debug, PartialEq)]
pub struct SpanEvent {
    pub name: String,
    pub time: u64,
    pub attrs: Attrs,
}

#[derive(Clone, Debug, PartialEq)]
pub struct SpanRec {
    pub scope: String,
    pub start: u64,
    pub end: u64,
    pub name: String,
    pub kind: i32,
    pub trace_id: Vec<u8>,
    pub span_id: Vec<u8>,
    pub parent_span_id: Vec<u8>,
    pub status: Option<(i32, String)>,
    pub events: Vec<SpanEvent>,
    pub attrs: Attrs,
}

#[derive(Clone, Debug, PartialEq)]
pub enum PointValue {
    Int(i64),
    Double(Option<f64>),
    Missing,
}

#[derive(Clone, Debug, PartialEq)]
pub struct Point {
    /// JSON only: the field the value was found under (`asInt`, `asDouble`, or the non-standard `value`)
    pub value_field: &'static str,
    pub start: u64,
    pub time: u64,
    pub value: PointValue,
    pub attrs: Attrs,
}

#[derive(Clone, Debug, PartialEq)]
pub enum MetricData {
    Gauge,
    /// (aggregation temporality, is_monotonic)
    Sum(i32, bool),
    Other(String),
}

#[derive(Clone, Debug, PartialEq)]
pub struct MetricRec {
    pub scope: String,
    pub name: String,
    pub unit: String,
    pub data: MetricData,
    pub points: Vec<Point>,
}

#[derive(Clone, Debug, Default)]
pub struct Decoded {
    /// JSON only: a `bytesValue` was written as an array of numbers instead of base64 text
    pub bytes_as_array: bool,
    pub logs: Vec<LogRec>,
    pub spans: Vec<SpanRec>,
    pub metrics: Vec<MetricRec>,
    /// resource attributes, one entry per Resource* element seen
    pub resources: Vec<Attrs>,
}

// ---- protobuf

fn any_pb(v: &Option<pb::common::v1::AnyValue>) -> AnyObs {
    use pb::common::v1::any_value::Value as V;
    match v.as_ref().and_then(|v| v.value.as_ref()) {
        None => AnyObs::Empty,
        Some(V::StringValue(s)) => AnyObs::Str(s.clone()),
        Some(V::BoolValue(b)) => AnyObs::Bool(*b),
        Some(V::IntValue(i)) => AnyObs::Int(*i),
        Some(V::DoubleValue(d)) => AnyObs::Double(Some(*d)),
        Some(V::BytesValue(b)) => AnyObs::Bytes(b.clone()),
        Some(V::ArrayValue(a)) => AnyObs::Array(a.values.iter().map(|v| any_pb(&Some(v.clone()))).collect()),
        Some(V::KvlistValue(kv)) => AnyObs::Kv(kv.values.iter().map(|kv| (kv.key.clone(), any_pb(&kv.value))).collect()),
    }
}

fn attrs_pb(a: &[pb::common::v1::KeyValue]) -> Attrs {
    a.iter().map(|kv| (kv.key.clone(), any_pb(&kv.value))).collect()
}

pub fn decode_proto(path: &str, body: &[u8], out: &mut Decoded) -> Result<(), String> {
    if path.ends_with("/v1/logs") {
        let req = pb::collector::logs::v1::ExportLogsServiceRequest::decode(body).map_err(|e| e.to_string())?;
        for rl in &req.resource_logs {
            out.resources.push(rl.resource.as_ref().map(|r| attrs_pb(&r.attributes)).unwrap_or_default());
            for sl in &rl.scope_logs {
                let scope = sl.scope.as_ref().map(|s| s.name.clone()).unwrap_or_default();
                for r in &sl.log_records {
                    out.logs.push(LogRec {
                        scope: scope.clone(),
                        time: r.time_unix_nano,
                        observed: r.observed_time_unix_nano,
                        body: any_pb(&r.body),
                        severity_number: r.severity_number,
                        severity_text: r.severity_text.clone(),
                        trace_id: r.trace_id.clone(),
                        span_id: r.span_id.clone(),
                        attrs: attrs_pb(&r.attributes),
                    });
                }
            }
        }
        Ok(())
    } else if path.ends_with("/v1/traces") {
        let req = pb::collector::trace::v1::ExportTraceServiceRequest::decode(body).map_err(|e| e.to_string())?;
        for rs in &req.resource_spans {
            out.resources.push(rs.resource.as_ref().map(|r| attrs_pb(&r.attributes)).unwrap_or_default());
            for ss in &rs.scope_spans {
                let scope = ss.scope.as_ref().map(|s| s.name.clone()).unwrap_or_default();
                for s in &ss.spans {
                    out.spans.push(SpanRec {
                        scope: scope.clone(),
                        start: s.start_time_unix_nano,
                        end: s.end_time_unix_nano,
                        name: s.name.clone(),
                        kind: s.kind,
                        trace_id: s.trace_id.clone(),
                        span_id: s.span_id.clone(),
                        parent_span_id: s.parent_span_id.clone(),
                        status: s.status.as_ref().map(|st| (st.code, st.message.clone())),
                        events: s.events.iter().map(|e| SpanEvent { name: e.name.clone(), time: e.time_unix_nano, attrs: attrs_pb(&e.attributes) }).collect(),
                        attrs: attrs_pb(&s.attributes),
                    });
                }
            }
        }
        Ok(())
    } else if path.ends_with("/v1/metrics") {
        use pb::metrics::v1::{metric::Data, number_data_point::Value as PV};
        let req = pb::collector::metrics::v1::ExportMetricsServiceRequest::decode(body).map_err(|e| e.to_string())?;
        for rm in &req.resource_metrics {
            out.resources.push(rm.resource.as_ref().map(|r| attrs_pb(&r.attributes)).unwrap_or_default());
            for sm in &rm.scope_metrics {
                let scope = sm.scope.as_ref().map(|s| s.name.clone()).unwrap_or_default();
                for m in &sm.metrics {
                    let pts = |ps: &[pb::metrics::v1::NumberDataPoint]| -> Vec<Point> {
                        ps.iter()
                            .map(|p| Point {
                                value_field: "",
                                start: p.start_time_unix_nano,
                                time: p.time_unix_nano,
                                value: match &p.value {
                                    Some(PV::AsInt(i)) => PointValue::Int(*i),
                                    Some(PV::AsDouble(d)) => PointValue::Double(Some(*d)),
                                    None => PointValue::Missing,
                                },
                                attrs: attrs_pb(&p.attributes),
                            })
                            .collect()
                    };
                    let (data, points) = match &m.data {
                        Some(Data::Gauge(g)) => (MetricData::Gauge, pts(&g.data_points)),
                        Some(Data::Sum(s)) => (MetricData::Sum(s.aggregation_temporality, s.is_monotonic), pts(&s.data_points)),
                        Some(other) => (MetricData::Other(format!("{:?}", other).chars().take(40).collect()), Vec::new()),
                        None => (MetricData::Other("none".into()), Vec::new()),
                    };
                    out.metrics.push(MetricRec { scope: scope.clone(), name: m.name.clone(), unit: m.unit.clone(), data, points });
                }
            }
        }
        Ok(())
    } else {
        Err(format!("unexpected path {}", path))
    }
}

// ---- JSON

fn b64(s: &str) -> Result<Vec<u8>, String> {
    let mut out = Vec::new();
    let mut acc = 0u32;
    let mut bits = 0;
    for c in s.bytes() {
        let v = match c {
            b'A'..=b'Z' => c - b'A',
            b'a'..=b'z' => c - b'a' + 26,
            b'0'..=b'9' => c - b'0' + 52,
            b'+' | b'-' => 62,
            b'/' | b'_' => 63,
            b'=' => continue,
            _ => return Err(format!("invalid base64 character {:?}", c as char)),
        };
        acc = (acc << 6) | v as u32;
        bits += 6;
        if bits >= 8 {
            bits -= 8;
            out.push((acc >> bits) as u8);
            acc &= (1 << bits) - 1;
        }
    }
    Ok(out)
}

fn hex_bytes(t: Option<&JsonTree>) -> Result<Vec<u8>, String> {
    match t {
        None | Some(JsonTree::Null) => Ok(Vec::new()),
        Some(JsonTree::Str(s)) => {
            if s.len() % 2 != 0 || !s.bytes().all(|c| c.is_ascii_hexdigit()) {
                return Err(format!("id {:?} is not hex", s));
            }
            Ok((0..s.len() / 2).map(|i| u8::from_str_radix(&s[2 * i..2 * i + 2], 16).unwrap()).collect())
        }
        Some(other) => Err(format!("id is {}", other.short())),
    }
}

fn u64_json(t: Option<&JsonTree>) -> Result<u64, String> {
    match t {
        None | Some(JsonTree::Null) => Ok(0),
        Some(JsonTree::Num(s)) | Some(JsonTree::Str(s)) => s.parse().map_err(|_| format!("{:?} is not a u64", s)),
        Some(other) => Err(format!("expected a 64-bit integer, got {}", other.short())),
    }
}

fn i64_json(t: &JsonTree) -> Result<i64, String> {
    match t {
        JsonTree::Num(s) | JsonTree::Str(s) => s.parse().map_err(|_| format!("{:?} is not an i64", s)),
        other => Err(format!("expected a 64-bit integer, got {}", other.short())),
    }
}

fn f64_json(t: &JsonTree) -> Result<Option<f64>, String> {
    match t {
        JsonTree::Null => Ok(None),
        JsonTree::Num(s) => s.parse::<f64>().map(Some).map_err(|_| format!("{:?} is not a double", s)),
        // the proto3 JSON spelling of non-finite doubles
        JsonTree::Str(s) if s == "NaN" => Ok(Some(f64::NAN)),
        JsonTree::Str(s) if s == "Infinity" => Ok(Some(f64::INFINITY)),
        JsonTree::Str(s) if s == "-Infinity" => Ok(Some(f64::NEG_INFINITY)),
        other => Err(format!("expected a double, got {}", other.short())),
    }
}

fn str_json(t: Option<&JsonTree>) -> Result<String, String> {
    match t {
        None | Some(JsonTree::Null) => Ok(String::new()),
        Some(JsonTree::Str(s)) => Ok(s.clone()),
        Some(other) => Err(format!("expected a string, got {}", other.short())),
    }
}

fn enum_json(t: Option<&JsonTree>) -> Result<i32, String> {
    match t {
        None | Some(JsonTree::Null) => Ok(0),
        Some(JsonTree::Num(s)) => s.parse().map_err(|_| format!("{:?} is not an enum number", s)),
        Some(other) => Err(format!("expected an enum number, got {}", other.short())),
    }
}

fn arr<'a>(t: Option<&'a JsonTree>) -> Result<&'a [JsonTree], String> {
    match t {
        None | Some(JsonTree::Null) => Ok(&[]),
        Some(JsonTree::Arr(a)) => Ok(a),
        Some(other) => Err(format!("expected an array, got {}", other.short())),
    }
}

/// Only field names of the official schema (proto3 JSON mapping: lowerCamelCase) may appear.
fn known_fields(t: &JsonTree, what: &str, names: &[&str]) -> Result<(), String> {
    for (k, _) in t.entries() {
        if !names.contains(&k.as_str()) {
            return Err(format!("{} has a field {:?} that the OTLP schema does not define", what, k));
        }
    }
    no_dup_fields(t, what)
}

const LOG_RECORD_FIELDS: &[&str] = &["timeUnixNano", "observedTimeUnixNano", "severityNumber", "severityText", "body", "attributes", "droppedAttributesCount", "flags", "traceId", "spanId", "eventName"];
const SPAN_FIELDS: &[&str] = &[
    "traceId", "spanId", "traceState", "parentSpanId", "flags", "name", "kind", "startTimeUnixNano", "endTimeUnixNano", "attributes", "droppedAttributesCount", "events", "droppedEventsCount", "links",
    "droppedLinksCount", "status",
];
const SPAN_EVENT_FIELDS: &[&str] = &["timeUnixNano", "name", "attributes", "droppedAttributesCount"];
const STATUS_FIELDS: &[&str] = &["message", "code"];
const METRIC_FIELDS: &[&str] = &["name", "description", "unit", "metadata", "gauge", "sum", "histogram", "exponentialHistogram", "summary"];
const GAUGE_FIELDS: &[&str] = &["dataPoints"];
const SUM_FIELDS: &[&str] = &["dataPoints", "aggregationTemporality", "isMonotonic"];
// "value" is not an OTLP field; it is tolerated here and reported by the monitor with its own signature
const POINT_FIELDS: &[&str] = &["attributes", "startTimeUnixNano", "timeUnixNano", "asDouble", "asInt", "exemplars", "flags", "value"];
const RESOURCE_FIELDS: &[&str] = &["attributes", "droppedAttributesCount", "entityRefs"];
const SCOPE_FIELDS: &[&str] = &["name", "version", "attributes", "droppedAttributesCount"];

fn no_dup_fields(t: &JsonTree, what: &str) -> Result<(), String> {
    let es = t.entries();
    for (i, (k, _)) in es.iter().enumerate() {
        if es[..i].iter().any(|(k2, _)| k2 == k) {
            return Err(format!("{} has field {:?} twice", what, k));
        }
    }
    Ok(())
}

thread_local! {
    static BYTES_AS_ARRAY: std::cell::Cell<bool> = const { std::cell::Cell::new(false) };
}

fn any_json(t: Option<&JsonTree>) -> Result<AnyObs, String> {
    let t = match t {
        None | Some(JsonTree::Null) => return Ok(AnyObs::Empty),
        Some(t) => t,
    };
    let es = match t {
        JsonTree::Obj(es) => es,
        other => return Err(format!("AnyValue is {}", other.short())),
    };
    match es.len() {
        0 => return Ok(AnyObs::Empty),
        1 => {}
        _ => return Err(format!("AnyValue with {} fields: {}", es.len(), t.short())),
    }
    let (k, v) = &es[0];
    Ok(match k.as_str() {
        "stringValue" => AnyObs::Str(str_json(Some(v))?),
        "boolValue" => match v {
            JsonTree::Bool(b) => AnyObs::Bool(*b),
            other => return Err(format!("boolValue is {}", other.short())),
        },
        "intValue" => AnyObs::Int(i64_json(v)?),
        "doubleValue" => AnyObs::Double(f64_json(v)?),
        "bytesValue" => match v {
            // not what the OTLP JSON mapping says (base64 text); read leniently and remember
            JsonTree::Arr(a) => {
                BYTES_AS_ARRAY.with(|f| f.set(true));
                AnyObs::Bytes(a.iter().map(|b| b.as_i128().and_then(|b| u8::try_from(b).ok()).ok_or_else(|| format!("bytesValue element {}", b.short()))).collect::<Result<_, _>>()?)
            }
            other => AnyObs::Bytes(b64(&str_json(Some(other))?)?),
        },
        "arrayValue" => AnyObs::Array(arr(v.get("values"))?.iter().map(|e| any_json(Some(e))).collect::<Result<_, _>>()?),
        "kvlistValue" => AnyObs::Kv(attrs_json(v.get("values"))?),
        other => return Err(format!("unknown AnyValue field {:?}", other)),
    })
}

fn attrs_json(t: Option<&JsonTree>) -> Result<Attrs, String> {
    arr(t)?
        .iter()
        .map(|kv| {
            known_fields(kv, "KeyValue", &["key", "value"])?;
            Ok((str_json(kv.get("key"))?, any_json(kv.get("value"))?))
        })
        .collect()
}

pub fn decode_json(path: &str, body: &[u8], out: &mut Decoded) -> Result<(), String> {
    BYTES_AS_ARRAY.with(|f| f.set(false));
    let res = decode_json_inner(path, body, out);
    if BYTES_AS_ARRAY.with(|f| f.get()) {
        out.bytes_as_array = true;
    }
    res
}

fn decode_json_inner(path: &str, body: &[u8], out: &mut Decoded) -> Result<(), String> {
    let text = std::str::from_utf8(body).map_err(|e| format!("body is not UTF-8: {}", e))?;
    let root = parse_json(text)?;
    if serde_json::from_str::<serde_json::Value>(text).is_err() {
        return Err("serde_json rejects the body".into());
    }
    let scope_of = |s: &JsonTree| -> Result<String, String> {
        if let Some(sc) = s.get("scope") {
            known_fields(sc, "InstrumentationScope", SCOPE_FIELDS)?;
        }
        str_json(s.get("scope").and_then(|s| s.get("name")))
    };
    known_fields(&root, "Export*ServiceRequest", &["resourceLogs", "resourceSpans", "resourceMetrics"])?;
    if path.ends_with("/v1/logs") {
        for rl in arr(root.get("resourceLogs"))? {
            known_fields(rl, "Resource*", &["resource", "scopeLogs", "schemaUrl"])?;
            if let Some(res) = rl.get("resource") {
                known_fields(res, "Resource", RESOURCE_FIELDS)?;
            }
            out.resources.push(attrs_json(rl.get("resource").and_then(|r| r.get("attributes")))?);
            for sl in arr(rl.get("scopeLogs"))? {
                known_fields(sl, "ScopeLogs", &["scope", "logRecords", "schemaUrl"])?;
                let scope = scope_of(sl)?;
                for r in arr(sl.get("logRecords"))? {
                    known_fields(r, "LogRecord", LOG_RECORD_FIELDS)?;
                    out.logs.push(LogRec {
                        scope: scope.clone(),
                        time: u64_json(r.get("timeUnixNano"))?,
                        observed: u64_json(r.get("observedTimeUnixNano"))?,
                        body: any_json(r.get("body"))?,
                        severity_number: enum_json(r.get("severityNumber"))?,
                        severity_text: str_json(r.get("severityText"))?,
                        trace_id: hex_bytes(r.get("traceId"))?,
                        span_id: hex_bytes(r.get("spanId"))?,
                        attrs: attrs_json(r.get("attributes"))?,
                    });
                }
            }
        }
        Ok(())
    } else if path.ends_with("/v1/traces") {
        for rs in arr(root.get("resourceSpans"))? {
            known_fields(rs, "Resource*", &["resource", "scopeSpans", "schemaUrl"])?;
            if let Some(res) = rs.get("resource") {
                known_fields(res, "Resource", RESOURCE_FIELDS)?;
            }
            out.resources.push(attrs_json(rs.get("resource").and_then(|r| r.get("attributes")))?);
            for ss in arr(rs.get("scopeSpans"))? {
                known_fields(ss, "ScopeSpans", &["scope", "spans", "schemaUrl"])?;
                let scope = scope_of(ss)?;
                for s in arr(ss.get("spans"))? {
                    known_fields(s, "Span", SPAN_FIELDS)?;
                    let status = match s.get("status") {
                        None | Some(JsonTree::Null) => None,
                        Some(st) => {
                            known_fields(st, "Status", STATUS_FIELDS)?;
                            Some((enum_json(st.get("code"))?, str_json(st.get("message"))?))
                        }
                    };
                    let mut events = Vec::new();
                    for e in arr(s.get("events"))? {
                        known_fields(e, "Span.Event", SPAN_EVENT_FIELDS)?;
                        events.push(SpanEvent { name: str_json(e.get("name"))?, time: u64_json(e.get("timeUnixNano"))?, attrs: attrs_json(e.get("attributes"))? });
                    }
                    out.spans.push(SpanRec {
                        scope: scope.clone(),
                        start: u64_json(s.get("startTimeUnixNano"))?,
                        end: u64_json(s.get("endTimeUnixNano"))?,
                        name: str_json(s.get("name"))?,
                        kind: enum_json(s.get("kind"))?,
                        trace_id: hex_bytes(s.get("traceId"))?,
                        span_id: hex_bytes(s.get("spanId"))?,
                        parent_span_id: hex_bytes(s.get("parentSpanId"))?,
                        status,
                        events,
                        attrs: attrs_json(s.get("attributes"))?,
                    });
                }
            }
        }
        Ok(())
    } else if path.ends_with("/v1/metrics") {
        for rm in arr(root.get("resourceMetrics"))? {
            known_fields(rm, "Resource*", &["resource", "scopeMetrics", "schemaUrl"])?;
            if let Some(res) = rm.get("resource") {
                known_fields(res, "Resource", RESOURCE_FIELDS)?;
            }
            out.resources.push(attrs_json(rm.get("resource").and_then(|r| r.get("attributes")))?);
            for sm in arr(rm.get("scopeMetrics"))? {
                known_fields(sm, "ScopeMetrics", &["scope", "metrics", "schemaUrl"])?;
                let scope = scope_of(sm)?;
                for m in arr(sm.get("metrics"))? {
                    known_fields(m, "Metric", METRIC_FIELDS)?;
                    let pts = |d: &JsonTree| -> Result<Vec<Point>, String> {
                        let mut out = Vec::new();
                        for p in arr(d.get("dataPoints"))? {
                            known_fields(p, "NumberDataPoint", POINT_FIELDS)?;
                            let (value, value_field) = match (p.get("asInt"), p.get("asDouble"), p.get("value")) {
                                (Some(i), None, None) => (PointValue::Int(i64_json(i)?), "asInt"),
                                (None, Some(d), None) => (PointValue::Double(f64_json(d)?), "asDouble"),
                                // not an OTLP field; read leniently so the value itself can still be compared
                                (None, None, Some(JsonTree::Num(n))) if n.parse::<i64>().is_ok() => (PointValue::Int(n.parse().unwrap()), "value"),
                                (None, None, Some(v)) => (PointValue::Double(f64_json(v)?), "value"),
                                (None, None, None) => (PointValue::Missing, "none"),
                                _ => return Err("data point with more than one value field".into()),
                            };
                            out.push(Point {
                                value_field, start: u64_json(p.get("startTimeUnixNano"))?, time: u64_json(p.get("timeUnixNano"))?, value, attrs: attrs_json(p.get("attributes"))? });
                        }
                        Ok(out)
                    };
                    let (data, points) = match (m.get("gauge"), m.get("sum")) {
                        (Some(g), None) => {
                            known_fields(g, "Gauge", GAUGE_FIELDS)?;
                            (MetricData::Gauge, pts(g)?)
                        }
                        (None, Some(s)) => (
                            MetricData::Sum(
                                {
                                    known_fields(s, "Sum", SUM_FIELDS)?;
                                    enum_json(s.get("aggregationTemporality"))?
                                },
                                match s.get("isMonotonic") {
                                    Some(JsonTree::Bool(b)) => *b,
                                    None | Some(JsonTree::Null) => false,
                                    Some(o) => return Err(format!("isMonotonic is {}", o.short())),
                                },
                            ),
                            pts(s)?,
                        ),
                        _ => (MetricData::Other("neither gauge nor sum".into()), Vec::new()),
                    };
                    out.metrics.push(MetricRec { scope: scope.clone(), name: str_json(m.get("name"))?, unit: str_json(m.get("unit"))?, data, points });
                }
            }
        }
        Ok(())
    } else {
        Err(format!("unexpected path {}", path))
    }
}

pub fn attr<'a>(attrs: &'a Attrs, key: &str) -> Option<&'a AnyObs> {
    attrs.iter().find(|(k, _)| k == key).map(|(_, v)| v)
}

pub fn vid_of(attrs: &Attrs) -> Option<&str> {
    match attr(attrs, "vid") {
        Some(AnyObs::Str(s)) => Some(s),
        _ => None,
    }
}
