/*!
C12 — OTLP export delivers every accepted event however batches are split.

Workload: the real `Otlp` emitter against the scripted local collector (one port per signal).
Per scenario: a transport (HTTP+JSON / HTTP+protobuf / gRPC), gzip on/off, a non-empty subset
of the three signals, a per-signal fault script, optionally one signal whose endpoint is out
for the whole scenario (refusing connections, resetting every connection, or rejecting every
request) or refuses the first connection attempts, and a burst of events whose payload sizes
make the batch span 1..n size-limited requests (the limit is 1 MiB of encoded events per
request). Every event carries a unique `vid`.

To make the burst land in *one* batch per signal, a small primer event per signal is sent
first and the collector holds the primer requests until the whole burst has been emitted (a gate,
not a timer), so the receivers are busy while the burst queues up behind them.

Hooks (process-global, set once): `emit_batcher::verif::set_delay_divisor` shortens the retry
back-off, `emit_otlp::verif::set_request_timeout` shortens the request timeout so that a stalled
request costs a few hundred ms.

Oracle, when `blocking_flush` returned true (otherwise the scenario is inconclusive):

1. every emitted vid (not destined to the signal that is out) is in >= 1 request that was
   acknowledged (2xx / grpc-status 0) and whose response was started before flush returned;
2. if nothing failed in the scenario every vid is in exactly one request;
3. a request that failed is followed, on the same endpoint, by a request with the same vid set
   (until one is acknowledged);
4. HTTP/1: no request arrives on a connection on which an earlier request was left unanswered;
5. requests are well-formed (gzip, gRPC frame, protobuf / JSON decode) and arrive at the endpoint
   their path names;
6. an outage of one signal does not stop the others - judged on logical progress: K attempts on
   the dead endpoint in a row during which the healthy endpoints saw nothing at all, had nothing
   in flight, and still had undelivered events.

7. a request that hangs at any phase of the response (no response at all; HTTP/1: inside the head,
   after a head that announces a body, inside the body; gRPC: after the response HEADERS, inside the
   message prefix, before the trailers) is given up at the request timeout and sent again - judged
   against a reference emitter whose attempts tick once per request timeout;
8. no event of a request that was acknowledged appears in a later request (at-least-once only allows
   an unacknowledged attempt and its acknowledged retry to overlap);
9. retry-budget sequences: a batch that fails on every attempt is given up, and the next batch - same
   signal or another one, afterwards or meanwhile - that fails once is sent again and acknowledged.

11. gRPC: only `grpc-status: 0` acknowledges. A response that begins (`200` HEADERS, with or without the response
   message) and then breaks or ends before any `grpc-status` - RST_STREAM with a real HTTP/2 error code, the
   TCP connection reset / closed mid-response, END_STREAM on an empty DATA frame without trailers,
   RST_STREAM(NO_ERROR) (which the HTTP client turns into a clean end) - or that carries a `grpc-status` which
   is not a number (trailers or trailers-only) is a failed request: rules 1, 3 and 9 apply to it
   (`...:after=reset-after-headers`, `connection-dropped-after-headers`, `no-grpc-status`,
   `unreadable-grpc-status`). These kinds are in the random alphabet, in the systematic walk, in the
   retry-budget family, and have a directed walk of their own (`generate_after_headers`).

10. a flush over several signals while one of them cannot deliver: `blocking_flush(T)` with a short T
   inside the outage may return false (correct); if it returns true, every event accepted before it -
   on every signal - is already in an acknowledged request.

12. sequences of flushes on one thread (`run_flush_sequence`): emit A; 1-3 `blocking_flush(short)` that time out
   because the collector holds (second round: merely delays) A's request; emit B - a later batch, a later
   request, acknowledged hundreds of ms after A's; `blocking_flush(long)` on the same thread, optionally with
   other threads flushing concurrently. Every flush that returned true, on whatever thread: each event whose
   `emit` returned before the call is in a request whose acknowledgement the collector began to write before
   the flush returned (`C12:flush-true-before-acknowledgement:...`). A flush that returns false is never judged.

A sixth family (`run_mixed`) gives every signal of ONE instance its own encoding (the six non-uniform mixes, plus
uniform HTTP and gRPC) and a non-trivial resource, against endpoints that validate each request for its content
type - body and the resource of every Resource* element - and answer 400 / grpc-status 3 to a malformed one
(`C12:malformed-request:resource|body:mixed-encodings:<signal>=<encoding>`); its burst contains events that carry
`evt_kind` span / metric but that signal declines (point / no extent; missing / textual / boolean / nested
`metric_value`): accepted by the emitter, they must be in an acknowledged request when flush returns true
(`C12:event-not-acknowledged-at-flush:<transport>:in-no-request:declined-by-its-kinds-signal`).

No verdict depends on a deadline: the waits are watchdogs that make the scenario inconclusive.
*/

#[path = "../shared/collector.rs"]
mod collector;

use std::{
    collections::{BTreeSet, HashMap},
    sync::{
        atomic::{AtomicBool, Ordering},
        Mutex,
    },
    time::{Duration, Instant},
};

use collector::*;
use emit::Emitter as _;
use vcommon::*;

const MIB: usize = 1024 * 1024;
/// attempts on the dead endpoint in a row without any healthy progress that count as "blocked"
const DEAD_K: usize = 5;
/// attempts of the reference emitter (each one request timeout + back-off apart) that have to begin after
/// a request started to hang, without that request being attempted again, to count as "never retried"
const STALL_K: usize = 5;

#[derive(Clone, Copy, Debug, PartialEq, Eq, Hash)]
enum EvKind {
    Log,
    Span,
    Metric,
}

#[derive(Clone, Debug)]
struct Ev {
    vid: u64,
    kind: EvKind,
    pad: usize,
}

fn expected_signal(kind: EvKind, subset: u8) -> Option<Signal> {
    let has = |s: Signal| subset & s.bit() != 0;
    match kind {
        EvKind::Span if has(Signal::Traces) => Some(Signal::Traces),
        EvKind::Metric if has(Signal::Metrics) => Some(Signal::Metrics),
        _ if has(Signal::Logs) => Some(Signal::Logs),
        _ => None,
    }
}

#[derive(Clone, Copy, Debug, PartialEq, Eq, Hash)]
enum Outage {
    /// bound, never listening: connection refused
    Refuse,
    /// every connection is reset on accept
    ResetOnAccept,
    /// every request is rejected (503 / grpc-status 14)
    Reject,
}

impl Outage {
    fn name(self) -> &'static str {
        match self {
            Outage::Refuse => "refuse",
            Outage::ResetOnAccept => "reset-on-accept",
            Outage::Reject => "reject",
        }
    }
}

struct Scenario {
    seed: u64,
    case: u64,
    transport: Transport,
    gzip: bool,
    subset: u8,
    dead: Option<(Signal, Outage)>,
    /// endpoint refuses until the emitter has failed to connect this many times
    late: Option<(Signal, u32)>,
    /// per signal, applied to the requests after the primer
    scripts: [Vec<Decision>; 3],
    target_requests: usize,
    events: Vec<Ev>,
}

fn sidx(s: Signal) -> usize {
    match s {
        Signal::Logs => 0,
        Signal::Traces => 1,
        Signal::Metrics => 2,
    }
}

impl Scenario {
    fn live(&self) -> Vec<Signal> {
        Signal::ALL.into_iter().filter(|s| self.subset & s.bit() != 0 && self.dead.map(|d| d.0) != Some(*s)).collect()
    }

    fn script_name(&self, s: Signal) -> String {
        let v: Vec<String> = self.scripts[sidx(s)].iter().map(|d| d.name()).collect();
        if v.is_empty() {
            "-".into()
        } else {
            v.join(",")
        }
    }

    fn json(&self) -> Json {
        json!({
            "seed": self.seed, "case": self.case, "transport": self.transport.name(), "gzip": self.gzip, "subset": subset_name(self.subset),
            "dead": self.dead.map(|(s, o)| format!("{}:{}", s.name(), o.name())),
            "late": self.late.map(|(s, k)| format!("{}:after-{}-refusals", s.name(), k)),
            "scripts": {"logs": self.script_name(Signal::Logs), "traces": self.script_name(Signal::Traces), "metrics": self.script_name(Signal::Metrics)},
            "target_requests": self.target_requests,
            "events": self.events.len(),
            "bytes": self.events.iter().map(|e| e.pad).sum::<usize>(),
        })
    }
}

struct Opts {
    max_requests: usize,
}

/// HTTP/2 error codes used for "RST_STREAM after the response HEADERS": INTERNAL_ERROR, CANCEL,
/// ENHANCE_YOUR_CALM, PROTOCOL_ERROR, and NO_ERROR - which an HTTP client reads as a clean end of the
/// response, so that the response simply ends without any grpc-status (class `no-grpc-status`).
const AFTER_HEADERS_RESET_CODES: [u32; 5] = [2, 8, 11, 1, 0];

fn gen_fault(g: &mut Rng, transport: Transport, stalls_left: &mut u32) -> Decision {
    loop {
        let d = match g.below(6) {
            0 | 1 => {
                if transport == Transport::Grpc {
                    match g.below(9) {
                        // the status in a real trailers frame
                        0 => Decision::GrpcStatus(*g.pick(&[1u32, 2, 4, 8, 13, 14]), GrpcForm::Trailers),
                        // a trailers-only response: the status sits in the one and only headers frame
                        1 | 2 => Decision::GrpcStatus(*g.pick(&[8u32, 14]), GrpcForm::TrailersOnly),
                        // something in between (a proxy) answers with a plain non-2xx status
                        3 => Decision::Status(*g.pick(&[502u16, 503])),
                        // the response begins (200 HEADERS, maybe the message) and then breaks before any
                        // grpc-status: the stream is reset with a real error code ...
                        4 | 5 => Decision::AfterHeaders(HeadThen::Reset(*g.pick(&AFTER_HEADERS_RESET_CODES)), g.bool()),
                        // ... or the connection goes away
                        6 => Decision::AfterHeaders(HeadThen::DropConnection { reset: g.bool() }, g.bool()),
                        // ... or the stream just ends: END_STREAM on an empty DATA frame, no trailers, no status
                        7 => Decision::AfterHeaders(HeadThen::EndStream, g.bool()),
                        // a status that is there but is not a number
                        _ => Decision::GrpcStatusUnreadable(if g.bool() { GrpcForm::Trailers } else { GrpcForm::TrailersOnly }, g.below(4) as u8),
                    }
                } else {
                    Decision::Status(*g.pick(&[301u16, 400, 404, 429, 500, 502, 503]))
                }
            }
            2 => {
                if g.bool() {
                    Decision::Stall
                } else {
                    // the response begins and then hangs
                    Decision::StallAt(*g.pick(&Phase::ALL), *g.pick(&[200u16, 200, 503]))
                }
            }
            3 => Decision::DropOnAccept,
            4 => Decision::DropBeforeBody,
            _ => Decision::DropAfterRead,
        };
        if d.is_stall() {
            if *stalls_left == 0 {
                continue;
            }
            *stalls_left -= 1;
        }
        return d;
    }
}

fn generate(seed: u64, case: u64, o: &Opts) -> Scenario {
    let mut g = Rng::stream(seed, &[12, 1, case]);
    // configuration dimensions walk systematically, the rest is drawn
    let transport = Transport::ALL[(case % 3) as usize];
    let gzip = case / 3 % 2 == 0;
    let subset = (case / 6 % 7 + 1) as u8;
    let configured: Vec<Signal> = Signal::ALL.into_iter().filter(|s| subset & s.bit() != 0).collect();

    let flavour = g.below(8);
    let fault_free = flavour < 2;
    let mut dead = None;
    let mut late = None;
    if !fault_free {
        if configured.len() >= 2 && flavour < 4 {
            // the first configured signal is the likeliest victim: it is also the first the emitter looks at
            let victim = if g.chance(1, 2) { configured[0] } else { *g.pick(&configured) };
            dead = Some((victim, *g.pick(&[Outage::Refuse, Outage::Refuse, Outage::ResetOnAccept, Outage::Reject])));
        } else if flavour == 4 {
            late = Some((*g.pick(&configured), g.range(1, 3) as u32));
        }
    }

    let mut scripts: [Vec<Decision>; 3] = [vec![], vec![], vec![]];
    let mut stalls_left = 2u32;
    for s in &configured {
        if fault_free {
            continue;
        }
        if let Some((d, outage)) = dead {
            if d == *s {
                scripts[sidx(*s)] = match outage {
                    Outage::Refuse => vec![],
                    Outage::ResetOnAccept => vec![Decision::DropOnAccept; 64],
                    Outage::Reject => vec![if transport == Transport::Grpc { Decision::GrpcStatus(14, GrpcForm::Trailers) } else { Decision::Status(503) }; 64],
                };
                continue;
            }
        }
        // healthy signals next to a dead one get at most one fault (keeps the progress rule simple)
        let max_faults = if dead.is_some() { 1 } else { *g.pick(&[0u64, 1, 1, 2, 3, 5]) };
        let mut faults = 0;
        let mut script = Vec::new();
        for _ in 0..10 {
            if faults < max_faults && g.chance(9, 20) {
                let d = gen_fault(&mut g, transport, &mut stalls_left);
                // a connection that dies mid-response costs the emitter a second, invisible attempt (on the dead
                // cached connection): it counts double towards what one batch may be asked to survive
                faults += 1 + d.hidden_attempts() as u64;
                script.push(d);
            } else if transport != Transport::Grpc && g.chance(1, 6) {
                script.push(Decision::Ack(*g.pick(&[202u16, 204])));
            } else {
                script.push(Decision::Ack(200));
            }
        }
        // every fault kind of the transport is walked systematically as well (first configured signal,
        // first or second request after the primer), so that no run depends on luck to hit one
        if dead.is_none() && *s == configured[0] {
            let menu: &[Decision] = if transport == Transport::Grpc {
                &[
                    Decision::GrpcStatus(14, GrpcForm::Trailers),
                    Decision::GrpcStatus(14, GrpcForm::TrailersOnly),
                    Decision::Status(503),
                    Decision::Stall,
                    Decision::DropOnAccept,
                    Decision::DropBeforeBody,
                    Decision::DropAfterRead,
                    Decision::GrpcStatus(8, GrpcForm::TrailersOnly),
                    Decision::Status(502),
                    Decision::StallAt(Phase::AfterHeaders, 200),
                    Decision::StallAt(Phase::InBody, 200),
                    Decision::StallAt(Phase::BeforeTrailers, 200),
                    // answered normally, then the established connection is closed / reset
                    Decision::AckThenDrop { reset: false },
                    Decision::AckThenDrop { reset: true },
                    // 200 HEADERS, then the response breaks before any grpc-status
                    Decision::AfterHeaders(HeadThen::Reset(2), false),
                    Decision::AfterHeaders(HeadThen::DropConnection { reset: true }, false),
                    Decision::AfterHeaders(HeadThen::Reset(8), true),
                    Decision::AfterHeaders(HeadThen::DropConnection { reset: false }, true),
                    // ... or ends without one; or the status is not a number
                    Decision::AfterHeaders(HeadThen::EndStream, true),
                    Decision::GrpcStatusUnreadable(GrpcForm::Trailers, 0),
                    Decision::AfterHeaders(HeadThen::Reset(0), false),
                    Decision::GrpcStatusUnreadable(GrpcForm::TrailersOnly, 1),
                ]
            } else {
                &[
                    Decision::Status(503),
                    Decision::Status(301),
                    Decision::Stall,
                    Decision::DropOnAccept,
                    Decision::DropBeforeBody,
                    Decision::DropAfterRead,
                    Decision::Status(429),
                    Decision::StallAt(Phase::InHead, 200),
                    Decision::StallAt(Phase::AfterHeaders, 200),
                    Decision::StallAt(Phase::AfterHeaders, 503),
                    Decision::StallAt(Phase::InBody, 200),
                    Decision::StallAt(Phase::InBody, 503),
                    // a complete 2xx head, then the connection is closed before / inside the announced body:
                    // an acknowledgement (rule 8: never sent again), although it costs the connection
                    Decision::AckThenClose { chunked: false, in_body: false },
                    Decision::AckThenClose { chunked: true, in_body: true },
                    Decision::AckThenClose { chunked: true, in_body: false },
                    Decision::AckThenClose { chunked: false, in_body: true },
                    Decision::AckThenDrop { reset: false },
                    Decision::AckThenDrop { reset: true },
                ]
            };
            let forced = menu[(case / 3) as usize % menu.len()];
            let at = (case / 3 / menu.len() as u64 % 2) as usize;
            while script.len() <= at {
                script.push(Decision::Ack(200));
            }
            if script[at].is_ack() {
                script[at] = forced;
            }
        }
        while script.last().map(|d| d.is_ack() && *d == Decision::Ack(200)).unwrap_or(false) {
            script.pop();
        }
        scripts[sidx(*s)] = script;
    }

    // the burst: sizes such that the busiest signal spans `target` requests
    let target = 1 + g.usize(o.max_requests);
    let events = gen_burst(&mut g, case, subset, target);
    Scenario { seed, case, transport, gzip, subset, dead, late, scripts, target_requests: target, events }
}

/// The burst of one scenario: payload sizes such that the busiest signal's batch spans `target` requests.
fn gen_burst(g: &mut Rng, case: u64, subset: u8, target: usize) -> Vec<Ev> {
    let kinds: Vec<EvKind> = [EvKind::Log, EvKind::Span, EvKind::Metric].into_iter().filter(|k| expected_signal(*k, subset).is_some()).collect();
    let mut events = Vec::new();
    let mut per_signal = [0usize; 3];
    let mut k = 0u64;
    let budget = (target - 1) * MIB + if target > 1 { MIB / 8 } else { 0 };
    loop {
        let kind = *g.pick(&kinds);
        let pad = match g.below(20) {
            0..=8 => g.usize(200),
            9..=11 => 2_000 + g.usize(60_000),
            12..=16 => 150_000 + g.usize(450_000),
            _ => MIB + g.usize(MIB / 4),
        };
        let sig = expected_signal(kind, subset).unwrap();
        // only tiny events once a signal has what the scenario wants
        let pad = if per_signal[sidx(sig)] >= budget { pad.min(200) } else { pad };
        per_signal[sidx(sig)] += pad;
        events.push(Ev { vid: case * 10_000 + 100 + k, kind, pad });
        k += 1;
        let busiest = per_signal.iter().copied().max().unwrap();
        if (busiest >= budget && events.len() >= 3 + g.usize(20)) || events.len() >= 400 {
            break;
        }
    }
    events
}

/// Directed walk over gRPC responses that begin and never acknowledge: the collector reads the whole request,
/// sends the `200` HEADERS (every other time a complete response message as well) and THEN (a) resets the
/// stream with a real HTTP/2 error code, (b) drops the TCP connection, (c) ends the stream without any
/// `grpc-status` (END_STREAM on an empty DATA frame; RST_STREAM(NO_ERROR), which the client reads as a clean
/// end) - or it answers completely with a `grpc-status` that is not a number (in the trailers / in a
/// trailers-only response). Fault kind x first / second request after the primer (the second one belongs to a
/// batch that is split over several requests, the first of which was acknowledged) are enumerated; victim
/// signal, signal subset, gzip and burst sizes rotate with the case and the seed. Judged by `run` like every
/// other scenario.
const AFTER_HEADERS_CASE_BASE: u64 = 1_000_000;

fn after_headers_kinds() -> Vec<Decision> {
    let mut v = Vec::new();
    for msg in [false, true] {
        for how in [
            HeadThen::Reset(2),
            HeadThen::DropConnection { reset: true },
            HeadThen::EndStream,
            HeadThen::Reset(8),
            HeadThen::DropConnection { reset: false },
            HeadThen::Reset(0),
            HeadThen::Reset(11),
            HeadThen::Reset(1),
        ] {
            v.push(Decision::AfterHeaders(how, msg));
        }
        v.push(Decision::GrpcStatusUnreadable(GrpcForm::Trailers, if msg { 0 } else { 1 }));
        v.push(Decision::GrpcStatusUnreadable(GrpcForm::TrailersOnly, if msg { 2 } else { 3 }));
    }
    v
}

fn generate_after_headers(seed: u64, i: u64, o: &Opts) -> Scenario {
    let case = AFTER_HEADERS_CASE_BASE + i;
    let mut g = Rng::stream(seed, &[12, 5, i]);
    let kinds = after_headers_kinds();
    let n_kinds = kinds.len() as u64;
    let fault = kinds[(i % n_kinds) as usize];
    let at = (i / n_kinds % 2) as usize;
    let gzip = (i / 3 + seed) % 2 == 0;
    let subset = ((i * 3 + i / (2 * n_kinds) + seed) % 7 + 1) as u8;
    let configured: Vec<Signal> = Signal::ALL.into_iter().filter(|s| subset & s.bit() != 0).collect();
    let victim = configured[((i / 2 + seed) as usize) % configured.len()];
    let mut scripts: [Vec<Decision>; 3] = [vec![], vec![], vec![]];
    let mut script = vec![Decision::Ack(200); at];
    script.push(fault);
    // sometimes the retry fails once more, another way
    if g.chance(1, 4) {
        script.push(*g.pick(&kinds));
    }
    scripts[sidx(victim)] = script;
    // a second request on the victim needs a batch that is split
    let target = if at == 1 { 2 + g.usize(o.max_requests.saturating_sub(1).max(1)) } else { 1 + g.usize(o.max_requests) };
    let mut events = gen_burst(&mut g, case, subset, target);
    // the victim must be the busiest signal when its second request matters: give it the big events
    if at == 1 {
        let victim_kind = kind_for(victim);
        for ev in events.iter_mut() {
            if ev.pad > 200 && expected_signal(ev.kind, subset) != Some(victim) {
                ev.kind = victim_kind;
            }
        }
    }
    Scenario { seed, case, transport: Transport::Grpc, gzip, subset, dead: None, late: None, scripts, target_requests: target, events }
}

fn emit_ev(otlp: &emit_otlp::Otlp, ev: &Ev, pad_src: &str) {
    use emit::Value;
    let name = format!("v{}", ev.vid);
    let pad = &pad_src[..ev.pad];
    let tpl = emit::Template::literal_ref(&name);
    let mdl = emit::Path::new_raw(if ev.vid % 3 == 0 { "verif::c12::a" } else { "verif::c12::b" });
    let kind_span = emit::Kind::Span;
    let kind_metric = emit::Kind::Metric;
    match ev.kind {
        EvKind::Log => {
            let props = [("vid", Value::from(ev.vid as i64)), ("pad", Value::from(pad))];
            otlp.emit(emit::Event::new(mdl, tpl, emit::Extent::point(ts(ev.vid % 1000, 1)), &props[..]));
        }
        EvKind::Span => {
            let props = [
                ("evt_kind", Value::from_any(&kind_span)),
                ("vid", Value::from(ev.vid as i64)),
                ("trace_id", Value::from("4bf92f3577b34da6a3ce929d0e0e4736")),
                ("span_id", Value::from("00f067aa0ba902b7")),
                ("pad", Value::from(pad)),
            ];
            otlp.emit(emit::Event::new(mdl, tpl, emit::Extent::range(ts(ev.vid % 1000, 1)..ts(ev.vid % 1000 + 1, 2)), &props[..]));
        }
        EvKind::Metric => {
            let props = [
                ("evt_kind", Value::from_any(&kind_metric)),
                ("vid", Value::from(ev.vid as i64)),
                ("metric_agg", Value::from("count")),
                ("metric_value", Value::from((ev.vid % 97) as i64)),
                ("pad", Value::from(pad)),
            ];
            otlp.emit(emit::Event::new(mdl, tpl, emit::Extent::point(ts(ev.vid % 1000, 1)), &props[..]));
        }
    }
}

#[derive(Default)]
struct Polled {
    /// stamps at which the poller noticed one more failed connection attempt
    conn_failed: Vec<u64>,
    /// stamps at which the poller noticed several at once (its own timeline is unreliable there)
    barriers: Vec<u64>,
}

fn fault_classes(records: &[Record], s: Signal) -> String {
    let set: BTreeSet<&'static str> = records.iter().filter(|r| r.endpoint == s && r.decision.is_fault()).map(|r| r.decision.class()).collect();
    if set.is_empty() {
        "none".into()
    } else {
        set.into_iter().collect::<Vec<_>>().join("+")
    }
}

/// Failed attempts on an endpoint as far as the collector can tell: its unacknowledged requests plus the
/// attempts a fault costs the emitter out of the collector's sight (a connection that died mid-response or
/// while idle fails the next attempt on the cached connection before a fresh one is opened).
fn failed_attempts(records: &[Record], s: Signal) -> usize {
    records.iter().filter(|r| r.endpoint == s).map(|r| usize::from(!r.acked()) + r.decision.hidden_attempts()).sum()
}

/// A request that hangs (at any phase) and is not attempted again although the reference emitter - same
/// process, same hooked request timeout, its collector stalls everything - has begun `STALL_K` further
/// attempts since. Logical progress, not a deadline: each of those attempts is one elapsed request timeout.
fn never_retried<'a>(records: &'a [Record], metronome: &[Record]) -> Option<(&'a Record, usize)> {
    for rec in records.iter().filter(|r| r.decision.is_stall() && !r.acked_by_status_line()) {
        let Some(t0) = rec.responding.or(rec.body_read) else { continue };
        if records.iter().any(|n| n.endpoint == rec.endpoint && n.seq > rec.seq) {
            continue;
        }
        if failed_attempts(records, rec.endpoint) > 9 {
            continue;
        }
        let m = metronome.iter().filter(|a| a.received > t0).count();
        if m >= STALL_K {
            return Some((rec, m));
        }
    }
    None
}

/// A second, independent emitter whose collector never answers: its attempts tick once per request
/// timeout (+ back-off) and serve as the logical clock for `never_retried`.
struct Metronome {
    col: Collector,
    otlp: emit_otlp::Otlp,
    n: std::cell::Cell<u64>,
}

impl Metronome {
    fn start() -> Metronome {
        let col = Collector::start(vec![EndpointCfg { signal: Signal::Logs, wire: Wire::Http1, listen: true, script: vec![Decision::Stall; 400] }]);
        let otlp = build_otlp(&col, Transport::HttpProto, false, Signal::Logs.bit());
        let m = Metronome { col, otlp, n: std::cell::Cell::new(0) };
        m.feed();
        m
    }

    /// Let the reference emitter finish before its collector's port is released: a dropped emitter keeps
    /// retrying what is queued, and a port that is free again may be handed to another scenario's collector.
    fn stop(self) {
        self.col.set_repeat(Signal::Logs, Some(Decision::Ack(200)));
        if self.otlp.blocking_flush(Duration::from_secs(20)) {
            drop(self.otlp);
            drop(self.col);
        } else {
            // keep the port reserved for the rest of the process
            std::mem::forget(self.otlp);
            std::mem::forget(self.col);
        }
    }

    /// One more event = one more batch = a fresh retry budget once the current batch is given up.
    fn feed(&self) {
        let n = self.n.get();
        self.n.set(n + 1);
        emit_ev(&self.otlp, &Ev { vid: 9_000_000_000 + n, kind: EvKind::Log, pad: 0 }, "");
    }
}

fn run(r: &mut Report, sc: &Scenario) {
    r.eval();
    let sj = sc.json();
    let case_json = |detail: Json| {
        let mut j = sj.clone();
        j["detail"] = detail;
        j
    };
    let tname = sc.transport.name();

    // ---- collector ----
    let mut cfgs = Vec::new();
    for s in Signal::ALL {
        if sc.subset & s.bit() == 0 {
            continue;
        }
        let is_dead = sc.dead.map(|d| d.0) == Some(s);
        let refusing = (is_dead && sc.dead.unwrap().1 == Outage::Refuse) || sc.late.map(|l| l.0) == Some(s);
        let mut script = Vec::new();
        if !is_dead {
            script.push(Decision::HoldAck(3_000)); // the primer
        }
        script.extend(sc.scripts[sidx(s)].iter().copied());
        cfgs.push(EndpointCfg { signal: s, wire: sc.transport.wire(), listen: !refusing, script });
    }
    let col = Collector::start(cfgs);
    let otlp = build_otlp(&col, sc.transport, sc.gzip, sc.subset);
    let live = sc.live();
    let metronome = if sc.scripts.iter().flatten().any(|d| d.is_stall()) { Some(Metronome::start()) } else { None };
    let mut hung = false;

    let max_pad = sc.events.iter().map(|e| e.pad).max().unwrap_or(0);
    let pad_src: String = {
        let mut g = Rng::stream(sc.seed, &[12, 2, sc.case]);
        if g.bool() {
            // hardly compressible
            (0..max_pad).map(|_| (b'a' + g.below(26) as u8) as char).collect()
        } else {
            "emit ".repeat(max_pad / 5 + 1)
        }
    };

    let stop = AtomicBool::new(false);
    let polled = Mutex::new(Polled::default());
    let mut flush_call = 0u64;
    let mut flush_ret = 0u64;
    let mut flushed = false;
    let mut watchdog: Option<String> = None;
    let mut primers: Vec<Ev> = Vec::new();

    std::thread::scope(|scope| {
        // the poller: turns the emitter's `transport_conn_failed` counter into stamps on the common
        // timeline and ends a transient outage after the scripted number of refusals
        scope.spawn(|| {
            let ms = otlp.metric_source();
            let mut last = ms.transport_conn_failed();
            let mut late_pending = sc.late;
            while !stop.load(Ordering::SeqCst) {
                let now = ms.transport_conn_failed();
                if now > last {
                    let mut p = polled.lock().unwrap();
                    if now - last > 1 {
                        p.barriers.push(stamp());
                    }
                    for _ in last..now {
                        p.conn_failed.push(stamp());
                    }
                    last = now;
                }
                if let Some((s, k)) = late_pending {
                    if now >= k as usize {
                        col.listen(s);
                        late_pending = None;
                    }
                }
                std::thread::sleep(Duration::from_micros(400));
            }
        });

        // ---- primers: one small event per configured signal ----
        for (i, s) in Signal::ALL.into_iter().enumerate() {
            if sc.subset & s.bit() == 0 {
                continue;
            }
            let kind = match s {
                Signal::Logs => EvKind::Log,
                Signal::Traces => EvKind::Span,
                Signal::Metrics => EvKind::Metric,
            };
            let ev = Ev { vid: sc.case * 10_000 + i as u64, kind, pad: 8.min(max_pad) };
            emit_ev(&otlp, &ev, &pad_src);
            primers.push(ev);
        }
        let arrived = col.wait_until(Duration::from_secs(15), |recs| live.iter().all(|s| recs.iter().any(|r| r.endpoint == *s && r.seq == 0 && r.body_read.is_some())));
        if !arrived {
            watchdog = Some("the primer requests did not all arrive within 15 s".into());
        } else {
            // ---- the burst (lands behind the held primers, so in one batch per signal) ----
            for ev in &sc.events {
                emit_ev(&otlp, ev, &pad_src);
            }
        }
        col.release_gate();
        if let Some(m) = &metronome {
            m.feed();
        }

        // ---- with a signal out, or with requests that will hang: watch progress before flushing
        // (flush waits signal by signal, and would wait its whole timeout for a request that is never retried) ----
        if (sc.dead.is_some() || metronome.is_some()) && arrived {
            let t0 = Instant::now();
            let wanted: Vec<u64> = sc.events.iter().chain(primers.iter()).filter(|e| expected_signal(e.kind, sc.subset).map(|s| live.contains(&s)).unwrap_or(false)).map(|e| e.vid).collect();
            loop {
                let n_acked: usize = {
                    let recs = col.records();
                    let mut acked: BTreeSet<u64> = BTreeSet::new();
                    for rec in recs.iter().filter(|r| r.acked()) {
                        if let Ok(items) = rec.items() {
                            acked.extend(items.iter().filter_map(|i| i.vid()));
                        }
                    }
                    wanted.iter().filter(|v| acked.contains(v)).count()
                };
                if n_acked == wanted.len() {
                    break;
                }
                if let Some(m) = &metronome {
                    if never_retried(&col.records(), &m.col.records()).is_some() {
                        // judged below on the recorded timeline
                        hung = true;
                        break;
                    }
                }
                if t0.elapsed() > Duration::from_secs(20) {
                    // not a verdict: rule 6 below judges the recorded timeline
                    break;
                }
                col.wait_until(Duration::from_millis(20), |_| false);
            }
        }

        flush_call = stamp();
        // (after a watchdog the scenario is inconclusive whatever flush says: do not wait long for it)
        flushed = otlp.blocking_flush(Duration::from_secs(if arrived && !hung { 40 } else { 1 }));
        flush_ret = stamp();
        stop.store(true, Ordering::SeqCst);
    });

    col.settle();
    let records = col.records();
    let polled = polled.into_inner().unwrap();
    let ms = otlp.metric_source();
    r.observe("requests-recorded", records.len() as u64);
    r.observe("events-emitted", (sc.events.len() + primers.len()) as u64);

    // ---- decode everything that was read ----
    // per record: vid set (None = body not read)
    // requests from somebody else (another scenario's emitter still retrying towards a port that this
    // collector was given afterwards) are a harness matter, never a verdict - and they have eaten script
    // decisions, so nothing here can be judged
    let known: BTreeSet<u64> = sc.events.iter().map(|e| e.vid).chain((0..3).map(|i| sc.case * 10_000 + i)).collect();
    let foreign = records.iter().filter(|rec| rec.body.is_some() && rec.note.is_none()).any(|rec| {
        let as_named = rec.items().ok();
        // a foreign request may also be for another signal than the endpoint's: try the endpoint's decoder too
        as_named.map(|items| items.iter().filter_map(|i| i.vid()).any(|v| !known.contains(&v))).unwrap_or(false)
    });
    if foreign {
        if let Some(m) = metronome {
            m.stop();
        }
        r.observe("scenarios-inconclusive", 1);
        r.observe("scenarios-with-foreign-requests", 1);
        r.inconclusive("a collector received requests that were not sent by its scenario's emitter (port handed over while another emitter was still retrying); scenario not judged");
        return;
    }

    let mut vidsets: HashMap<usize, BTreeSet<u64>> = HashMap::new();
    for rec in &records {
        if rec.decision == Decision::DropOnAccept && rec.path.is_empty() {
            continue;
        }
        match rec.path_signal() {
            None => {
                r.violation(&format!("C12:unknown-path:{}", tname), &format!("request to unknown path {:?}", rec.path), case_json(rec.brief()));
                continue;
            }
            Some(ps) if ps != rec.endpoint => {
                r.violation(
                    &format!("C12:path-endpoint-mismatch:{}:path={}:endpoint={}", tname, ps.name(), rec.endpoint.name()),
                    &format!("a request for {} arrived at the endpoint configured for {}", rec.path, rec.endpoint.name()),
                    case_json(rec.brief()),
                );
            }
            _ => {}
        }
        if rec.body.is_none() {
            continue;
        }
        if rec.peer_gone && rec.note.is_some() {
            // the peer gave up mid-body (its own timeout): nothing to decode
            continue;
        }
        if sc.gzip != rec.gzip {
            r.violation(
                &format!("C12:compression-not-as-configured:{}:configured={}", tname, sc.gzip),
                &format!("compression configured {} but the request was {}", sc.gzip, if rec.gzip { "gzip-compressed" } else { "not compressed" }),
                case_json(rec.brief()),
            );
        }
        match rec.items() {
            Ok(items) => {
                let mut set = BTreeSet::new();
                for it in &items {
                    match it.vid() {
                        Some(v) => {
                            if !set.insert(v) {
                                r.violation(
                                    &format!("C12:event-twice-in-one-request:{}:{}", tname, rec.endpoint.name()),
                                    &format!("vid {} occurs twice inside one request", v),
                                    case_json(rec.brief()),
                                );
                            }
                        }
                        None => r.inconclusive("an exported record carries no recognisable vid"),
                    }
                }
                r.observe("records-decoded", items.len() as u64);
                vidsets.insert(rec.idx, set);
            }
            Err(e) => {
                let what = if e.contains("gzip") {
                    "gzip"
                } else if e.contains("gRPC") {
                    "grpc-frame"
                } else {
                    "body"
                };
                r.violation(
                    &format!("C12:malformed-request:{}:{}:{}", what, tname, rec.endpoint.name()),
                    &format!("request body cannot be read back: {}", e),
                    case_json(rec.brief()),
                );
            }
        }
    }

    if std::env::args().any(|a| a == "--dump") {
        eprintln!("scenario {}", sj);
        eprintln!("flush call {} return {} -> {}", flush_call, flush_ret, flushed);
        for rec in &records {
            eprintln!("  {} vids={:?}", rec.brief(), vidsets.get(&rec.idx).map(|s| s.iter().map(|v| v % 10_000).collect::<Vec<_>>()));
        }
        eprintln!("  conn_failed stamps {:?} barriers {:?}", polled.conn_failed, polled.barriers);
        for c in col.conns() {
            eprintln!("  conn {:?}", c);
        }
    }

    // ---- evidence about what the scenario actually exercised ----
    let consumed: usize = Signal::ALL.iter().map(|s| col.consumed_faults(*s)).sum();
    let mut multi = false;
    for s in &live {
        // requests after the primer with distinct vid sets, all but the last at least 1 MiB
        let sets: Vec<&BTreeSet<u64>> = {
            let mut seen: Vec<&BTreeSet<u64>> = Vec::new();
            for rec in records.iter().filter(|r| r.endpoint == *s && r.seq > 0) {
                if let Some(set) = vidsets.get(&rec.idx) {
                    if !seen.contains(&set) {
                        seen.push(set);
                    }
                }
            }
            seen
        };
        let big = records.iter().filter(|r| r.endpoint == *s && r.seq > 0 && r.body.as_ref().map(|b| b.len() >= MIB).unwrap_or(false)).count();
        if sets.len() >= 2 && big >= 1 {
            multi = true;
            r.observe("signal-batches-spanning-several-requests", 1);
            r.observe("distinct-requests-in-split-batches", sets.len() as u64);
        }
    }
    for rec in records.iter().filter(|r| r.decision.is_ack_then_drop()) {
        r.observe(&format!("acknowledged-then-connection-dropped:{}:{}", tname, rec.decision.name()), 1);
        if records.iter().any(|n| n.endpoint == rec.endpoint && n.seq > rec.seq && n.conn != rec.conn) {
            r.observe("requests-on-a-fresh-connection-after-the-collector-dropped-the-old-one", 1);
        }
    }
    for rec in records.iter().filter(|r| r.decision.is_ack_then_close()) {
        r.observe(&format!("acknowledged-then-closed:{}", rec.decision.name()), 1);
    }
    for rec in records.iter().filter(|r| r.decision.is_after_headers() || matches!(r.decision, Decision::GrpcStatusUnreadable(..))) {
        // which of the new kinds, and did the response really begin before it broke?
        r.observe(&format!("grpc-after-headers:hit:{}", rec.decision.name()), 1);
        if rec.partial_written.is_some() || rec.responded.is_some() {
            r.observe("grpc-after-headers:response-headers-were-sent-before-the-failure", 1);
        }
        if records.iter().any(|n| n.endpoint == rec.endpoint && n.seq > rec.seq && vidsets.get(&n.idx).is_some() && vidsets.get(&n.idx) == vidsets.get(&rec.idx)) {
            r.observe("grpc-after-headers:sent-again-with-the-same-events", 1);
        }
        if rec.decision.breaks_connection() && records.iter().any(|n| n.endpoint == rec.endpoint && n.seq > rec.seq && n.conn != rec.conn) {
            r.observe("grpc-after-headers:next-request-on-a-fresh-connection", 1);
        }
    }
    for rec in records.iter().filter(|r| r.decision.is_fault()) {
        r.observe(&format!("fault-hit:{}", rec.decision.class()), 1);
        if rec.wire == Wire::Grpc {
            r.observe(&format!("fault-hit-on-grpc:{}", rec.decision.class()), 1);
        }
    }
    let conn_refused = polled.conn_failed.len();
    if conn_refused > 0 {
        r.observe("fault-hit:connection-refused", conn_refused as u64);
    }
    if consumed > 0 || conn_refused > 0 {
        let script_shape: Vec<String> = Signal::ALL.iter().map(|s| records.iter().filter(|r| r.endpoint == *s).map(|r| r.decision.class()).collect::<Vec<_>>().join(",")).collect();
        r.nontrivial(&(tname, sc.gzip, sc.subset, script_shape, sc.dead.map(|d| (d.0, d.1)), multi));
        r.observe("scenarios-with-injected-failure-hit", 1);
    } else if multi {
        r.nontrivial(&(tname, sc.gzip, sc.subset, "fault-free-multi-request", sc.case));
    }

    // ---- rule 6: an outage of one signal does not stop the others ----
    if let Some((dead, outage)) = sc.dead {
        let mut dead_stamps: Vec<u64> = match outage {
            Outage::Refuse => polled.conn_failed.clone(),
            _ => records.iter().filter(|r| r.endpoint == dead).map(|r| r.received).collect(),
        };
        dead_stamps.sort();
        r.observe("dead-endpoint-attempts", dead_stamps.len() as u64);
        // everything the healthy endpoints saw, plus the poller's barriers
        let mut healthy: Vec<u64> = polled.barriers.clone();
        for c in col.conns().iter().filter(|c| c.endpoint != dead) {
            healthy.push(c.accepted);
            healthy.extend(c.closed);
        }
        for rec in records.iter().filter(|r| r.endpoint != dead) {
            healthy.push(rec.received);
            healthy.extend(rec.body_read);
            healthy.extend(rec.responding);
            healthy.extend(rec.responded);
            healthy.extend(rec.done);
        }
        healthy.sort();
        // the stamp at which the last healthy vid was acknowledged (MAX = never)
        let mut first_ack: HashMap<u64, u64> = HashMap::new();
        for rec in records.iter().filter(|r| r.acked() && r.endpoint != dead) {
            if let Some(set) = vidsets.get(&rec.idx) {
                for v in set {
                    let e = first_ack.entry(*v).or_insert(u64::MAX);
                    *e = (*e).min(rec.responding.unwrap_or(u64::MAX));
                }
            }
        }
        let t_done = sc
            .events
            .iter()
            .chain(primers.iter())
            .filter(|e| expected_signal(e.kind, sc.subset).map(|s| s != dead).unwrap_or(false))
            .map(|e| first_ack.get(&e.vid).copied().unwrap_or(u64::MAX))
            .max()
            .unwrap_or(0);
        let never_started = live.iter().any(|s| {
            let has_events = sc.events.iter().chain(primers.iter()).any(|e| expected_signal(e.kind, sc.subset) == Some(*s));
            has_events && !records.iter().any(|r| r.endpoint == *s) && !col.conns().iter().any(|c| c.endpoint == *s)
        });
        let mut blocked = None;
        // a healthy signal that ran out of its own retry budget (spontaneous failures) stops trying:
        // silence is then no sign of being blocked
        let healthy_gave_up = live.iter().any(|s| failed_attempts(&records, *s) > 9);
        if healthy_gave_up {
            r.observe("outage-scenarios-not-judged-healthy-signal-exhausted-retries", 1);
        }
        if dead_stamps.len() >= DEAD_K && !healthy_gave_up {
            for w in dead_stamps.windows(DEAD_K) {
                let (a, b) = (w[0], w[DEAD_K - 1]);
                if b >= t_done {
                    break;
                }
                // the emitter was told about the healthy events before the window started?
                // (primers are emitted first; the burst only after the primers arrived)
                let any_progress = healthy.iter().any(|h| *h > a && *h < b);
                let in_flight = records.iter().any(|rec| rec.endpoint != dead && rec.received < b && rec.done.map(|d| d > a).unwrap_or(true));
                // Silence alone is not enough (events that were lost also end in silence, which is rule 1's
                // business): either the healthy side comes back to life afterwards, or a healthy endpoint
                // with events destined to it was never contacted at all.
                let resumed = healthy.iter().any(|h| *h > b);
                if !any_progress && !in_flight && (resumed || never_started) {
                    blocked = Some((a, b));
                    break;
                }
            }
        }
        if let Some((a, b)) = blocked {
            r.violation(
                &format!("C12:outage-blocks-other-signals:{}:dead={}:{}", tname, dead.name(), outage.name()),
                &format!(
                    "{} attempts in a row on the dead {} endpoint (stamps {}..{}) while the other signals still had undelivered events, nothing in flight, and saw no activity at all",
                    DEAD_K,
                    dead.name(),
                    a,
                    b
                ),
                case_json(json!({"dead_attempt_stamps": dead_stamps, "healthy_done_stamp": if t_done == u64::MAX { json!("never") } else { json!(t_done) }})),
            );
        } else if !healthy_gave_up {
            r.observe("outage-scenarios-with-healthy-progress", 1);
        }
    }

    // ---- rule 7: a request that hangs - at whatever phase of the response - is given up at the request
    // timeout and sent again ----
    if let Some(m) = &metronome {
        let ticks = m.col.records();
        r.observe("reference-emitter-attempts", ticks.len() as u64);
        for rec in records.iter().filter(|rec| rec.decision.is_stall()) {
            let phase = rec.decision.stall_phase().unwrap_or("?");
            r.observe(&format!("stall-hit:{}:phase={}", if rec.wire == Wire::Grpc { "grpc" } else { "http1" }, phase), 1);
            if rec.acked_by_status_line() {
                r.observe("stalled-after-a-2xx-status-line:counted-as-acknowledged", 1);
                if records.iter().any(|n| n.endpoint == rec.endpoint && n.seq > rec.seq && vidsets.get(&n.idx).is_some() && vidsets.get(&n.idx) == vidsets.get(&rec.idx)) {
                    r.observe("stalled-after-a-2xx-status-line:sent-again-anyway", 1);
                }
            } else if records.iter().any(|n| n.endpoint == rec.endpoint && n.seq > rec.seq) {
                r.observe("stalled-requests-attempted-again", 1);
            }
        }
        if let Some((rec, ticks_since)) = never_retried(&records, &ticks) {
            r.violation(
                &format!("C12:stalled-request-never-retried:{}:phase={}", tname, rec.decision.stall_phase().unwrap_or("?")),
                &format!(
                    "request #{} on {} hangs ({}) since stamp {:?}; the reference emitter has begun {} further attempts (one request timeout each) since, but the request was neither given up nor sent again{}",
                    rec.seq,
                    rec.endpoint.name(),
                    rec.decision.name(),
                    rec.responding.or(rec.body_read),
                    ticks_since,
                    if rec.done.is_none() { " (its connection / stream is still open)" } else { "" }
                ),
                case_json(json!({"stalled": rec.brief(), "reference_attempt_stamps": ticks.iter().map(|t| t.received).collect::<Vec<_>>(), "flush": flushed})),
            );
        }
    }
    if let Some(m) = metronome {
        m.stop();
    }

    if let Some(w) = watchdog {
        r.observe("scenarios-inconclusive", 1);
        r.inconclusive(format!("watchdog: {}", w));
        return;
    }
    if !flushed {
        r.observe("scenarios-inconclusive", 1);
        r.observe("flush-returned-false", 1);
        r.inconclusive("blocking_flush returned false (40 s) in some scenario(s)");
        return;
    }
    r.observe("flush-returned-true", 1);

    // ---- rule 3: a failed request is sent again with the same events ----
    for s in Signal::ALL {
        if sc.subset & s.bit() == 0 || sc.dead.map(|d| d.0) == Some(s) {
            continue;
        }
        let mut on_ep: Vec<&Record> = records.iter().filter(|r| r.endpoint == s).collect();
        on_ep.sort_by_key(|r| r.seq);
        if failed_attempts(&records, s) > 9 {
            // beyond the emitter's retry budget: giving up is C08's business
            continue;
        }
        let mut pending: Option<(&Record, &BTreeSet<u64>)> = None;
        for rec in &on_ep {
            let Some(set) = vidsets.get(&rec.idx) else { continue };
            if let Some((failed, want)) = pending {
                if want != set {
                    let how = if set.is_subset(want) {
                        "only part of them"
                    } else if set.is_disjoint(want) {
                        "none of them"
                    } else {
                        "a different set"
                    };
                    r.violation(
                        &format!("C12:failed-request-not-resent:{}:after={}", tname, failed.decision.class()),
                        &format!(
                            "request #{} on {} failed ({}) with {} events, but the next request on that endpoint carries {} ({} events, {} of the failed ones missing)",
                            failed.seq,
                            s.name(),
                            failed.decision.name(),
                            want.len(),
                            how,
                            set.len(),
                            want.difference(set).count()
                        ),
                        case_json(json!({"failed": failed.brief(), "next": rec.brief(),
                            "missing": want.difference(set).take(8).collect::<Vec<_>>(), "added": set.difference(want).take(8).collect::<Vec<_>>()})),
                    );
                }
            }
            pending = if rec.acked() { None } else { Some((rec, set)) };
            r.observe("retry-chains-checked", if rec.acked() { 0 } else { 1 });
        }
        if let Some((failed, _)) = pending {
            r.violation(
                &format!("C12:failed-request-not-resent:{}:after={}", tname, failed.decision.class()),
                &format!("request #{} on {} failed ({}) and was never sent again although flush reported success", failed.seq, s.name(), failed.decision.name()),
                case_json(failed.brief()),
            );
        }
    }

    // ---- rule 4: a connection with an unanswered request is not used again (HTTP/1) ----
    if sc.transport != Transport::Grpc {
        for rec in &records {
            if let Some(prev) = records.iter().find(|p| p.conn == rec.conn && p.idx < rec.idx && p.responded.is_none()) {
                r.violation(
                    &format!("C12:broken-connection-reused:{}:{}:after={}", tname, rec.endpoint.name(), prev.decision.class()),
                    &format!("request #{} on {} arrived on connection {} on which request #{} ({}) was never answered", rec.seq, rec.endpoint.name(), rec.conn, prev.seq, prev.decision.name()),
                    case_json(json!({"request": rec.brief(), "earlier": prev.brief()})),
                );
            }
        }
    }

    // ---- a 2xx head, then the connection closed gracefully: an acknowledgement, never to be sent again ----
    // Rule 8 below judges it per scenario when the emitter's own success count matches. An emitter that
    // only counts a success after the whole response body escapes that gate, so the run as a whole is judged
    // too (in `main`): a deterministic regression sends again after EVERY such answer, starvation does not.
    for first in records.iter().filter(|rec| rec.decision.is_ack_then_close() && rec.responded.is_some() && rec.wire == Wire::Http1) {
        let Some(set) = vidsets.get(&first.idx) else { continue };
        r.observe(&format!("ack-then-close:hits:{}", tname), 1);
        if let Some(again) = records.iter().find(|later| later.endpoint == first.endpoint && later.seq > first.seq && vidsets.get(&later.idx).map(|l| !l.is_disjoint(set)).unwrap_or(false)) {
            r.observe(&format!("ack-then-close:sent-again:{}", tname), 1);
            r.set(&format!("ack_then_close_witness_{}", tname), case_json(json!({"answered_with_2xx_then_closed": first.brief(), "sent_again_in": again.brief()})));
        }
    }

    // ---- rule 8: a request that was acknowledged is not sent again ----
    // Duplicates between an unacknowledged attempt and its acknowledged retry are fine (at-least-once).
    // What must not happen is that events of a request the collector acknowledged show up in a later request.
    // Judged only when the emitter has seen every acknowledgement the collector wrote (its own count of
    // successful requests equals the collector's): an acknowledgement that got lost to a client-side timeout
    // under load is legitimately followed by a retry.
    {
        let acks_written = records.iter().filter(|rec| rec.acked()).count();
        let acks_seen = ms.http_batch_sent() + ms.grpc_batch_sent();
        if acks_written != acks_seen {
            r.observe("resend-rule-not-judged:acknowledgements-written-and-seen-differ", 1);
        } else {
            r.observe("scenarios-judged-for-resent-acknowledged-requests", 1);
            for s in Signal::ALL {
                let mut on_ep: Vec<&Record> = records.iter().filter(|rec| rec.endpoint == s).collect();
                on_ep.sort_by_key(|rec| rec.seq);
                for (i, first) in on_ep.iter().enumerate() {
                    // (a 2xx status line followed by a hanging body: whether that is sent again is left open)
                    if !first.acked() || first.acked_by_status_line() {
                        continue;
                    }
                    let Some(set) = vidsets.get(&first.idx) else { continue };
                    if let Some(again) = on_ep[i + 1..].iter().find(|later| vidsets.get(&later.idx).map(|l| !l.is_disjoint(set)).unwrap_or(false)) {
                        let between = on_ep[i + 1..].iter().take_while(|x| x.idx != again.idx).filter(|x| !x.acked()).last();
                        let after = between.map(|b| b.decision.class()).unwrap_or("none");
                        let again_set = &vidsets[&again.idx];
                        let sig = if first.decision.is_ack_then_close() {
                            format!("C12:acknowledged-request-resent:2xx-head-then-close:{}", tname)
                        } else {
                            format!("C12:acknowledged-request-resent:{}:after={}", tname, after)
                        };
                        r.violation(
                            &sig,
                            &format!(
                                "request #{} on {} ({} events) was acknowledged ({}), yet {} of its events are in the later request #{} ({}){}",
                                first.seq,
                                s.name(),
                                set.len(),
                                first.decision.name(),
                                set.intersection(again_set).count(),
                                again.seq,
                                again.decision.name(),
                                between.map(|b| format!("; request #{} in between failed ({})", b.seq, b.decision.name())).unwrap_or_default()
                            ),
                            case_json(json!({"acknowledged": first.brief(), "sent_again_in": again.brief(), "failed_in_between": between.map(|b| b.brief()),
                                "acknowledgements_written": acks_written, "acknowledgements_seen_by_the_emitter": acks_seen})),
                        );
                        break;
                    }
                }
            }
        }
    }

    // ---- rules 1 + 2: accounting ----
    let emitter_failures = ms.transport_conn_failed()
        + ms.transport_request_failed()
        + ms.http_batch_failed()
        + ms.grpc_batch_failed()
        + ["otlp_logs_queue_batch_failed", "otlp_traces_queue_batch_failed", "otlp_metrics_queue_batch_failed"].iter().map(|n| emitter_metric(&otlp, n) as usize).sum::<usize>();
    let collector_saw_trouble = records.iter().any(|r| r.decision.is_fault() || r.peer_gone || r.io_note.is_some());
    let scripted_fault_free = consumed == 0 && sc.dead.is_none() && sc.late.is_none();
    let nothing_failed = scripted_fault_free && emitter_failures == 0 && !collector_saw_trouble;
    if scripted_fault_free && !nothing_failed {
        r.observe("fault-free-scripts-with-spontaneous-failures", 1);
    }
    let mut acked_in: HashMap<u64, Vec<&Record>> = HashMap::new();
    let mut read_in: HashMap<u64, usize> = HashMap::new();
    for rec in &records {
        if let Some(set) = vidsets.get(&rec.idx) {
            for v in set {
                *read_in.entry(*v).or_insert(0) += 1;
                if rec.acked() && rec.responding.map(|t| t < flush_ret).unwrap_or(false) {
                    acked_in.entry(*v).or_default().push(rec);
                }
            }
        }
    }
    let mut accounted = 0u64;
    for ev in sc.events.iter().chain(primers.iter()) {
        let Some(sig) = expected_signal(ev.kind, sc.subset) else { continue };
        if sc.dead.map(|d| d.0) == Some(sig) {
            continue;
        }
        let n_acked = acked_in.get(&ev.vid).map(|v| v.len()).unwrap_or(0);
        let n_read = read_in.get(&ev.vid).copied().unwrap_or(0);
        let failures_on_sig = failed_attempts(&records, sig);
        if n_acked == 0 && failures_on_sig <= 9 {
            let late_ack = records.iter().any(|rec| rec.acked() && vidsets.get(&rec.idx).map(|s| s.contains(&ev.vid)).unwrap_or(false));
            // the last request that carried it, if any, tells what went wrong
            let last_carrier = records.iter().filter(|rec| vidsets.get(&rec.idx).map(|s| s.contains(&ev.vid)).unwrap_or(false)).last();
            let how = if late_ack {
                "acknowledged-only-after-flush-returned".to_string()
            } else if let Some(c) = last_carrier {
                format!("only-in-unacknowledged-requests:after={}", c.decision.class())
            } else if records.iter().any(|rec| rec.endpoint == sig && rec.decision.is_ack_then_drop()) {
                "in-no-request:after=idle-connection-closed".to_string()
            } else {
                format!("in-no-request:{}", if multi { "split-batch" } else if fault_classes(&records, sig) == "none" { "no-fault" } else { "after-faults" })
            };
            r.violation(
                &format!("C12:event-not-acknowledged-at-flush:{}:{}", tname, how),
                &format!(
                    "blocking_flush returned true but event v{} ({} bytes, {}) is {}; {} requests recorded on {}",
                    ev.vid,
                    ev.pad,
                    sig.name(),
                    how.split(':').next().unwrap_or("").replace('-', " "),
                    records.iter().filter(|r| r.endpoint == sig).count(),
                    sig.name()
                ),
                case_json(json!({"vid": ev.vid, "flush_call": flush_call, "flush_return": flush_ret,
                    "requests": records.iter().filter(|r| r.endpoint == sig).map(|r| { let mut b = r.brief(); b["events"] = json!(vidsets.get(&r.idx).map(|s| s.len())); b }).collect::<Vec<_>>()})),
            );
        } else {
            accounted += 1;
        }
        if nothing_failed && n_read != 1 && n_acked >= 1 {
            r.violation(
                &format!("C12:event-sent-more-than-once-without-failure:{}:{}:{}", tname, sig.name(), if multi { "split-batch" } else { "single-request" }),
                &format!("nothing failed in this scenario but event v{} is in {} requests", ev.vid, n_read),
                case_json(json!({"vid": ev.vid, "requests": records.iter().filter(|r| vidsets.get(&r.idx).map(|s| s.contains(&ev.vid)).unwrap_or(false)).map(|r| r.brief()).collect::<Vec<_>>()})),
            );
        }
        if n_read > 1 {
            r.observe("events-seen-in-several-requests", 1);
        }
    }
    r.observe("vids-accounted", accounted);
    if nothing_failed {
        r.observe("scenarios-judged-exactly-once", 1);
    }
    r.observe("scenarios-decided", 1);
    if r.wants_sample() && (consumed > 0 || multi) && sc.case < 40 {
        let reqs: Vec<Json> = records
            .iter()
            .map(|rec| json!({"endpoint": rec.endpoint.name(), "seq": rec.seq, "conn": rec.conn, "decision": rec.decision.name(), "events": vidsets.get(&rec.idx).map(|s| s.len()), "body_len": rec.body.as_ref().map(|b| b.len()), "acked": rec.acked()}))
            .collect();
        let s = sj.clone();
        r.sample(move || json!({"scenario": s, "flush": true, "requests": reqs}));
    }
    drop(otlp);
    drop(col);
}

// ---------------------------------------------------------------------------
// retry-budget sequences: a batch that is given up, then a batch that fails once
// ---------------------------------------------------------------------------

fn kind_for(s: Signal) -> EvKind {
    match s {
        Signal::Logs => EvKind::Log,
        Signal::Traces => EvKind::Span,
        Signal::Metrics => EvKind::Metric,
    }
}

/// Batch A fails on every attempt until the emitter gives it up (the collector just keeps failing and
/// counts; the budget is whatever is observed). Then batch B fails once, on its first attempt, and is
/// acknowledged afterwards. B has no failure history of its own: it must be sent again and acknowledged
/// before flush returns true - whether A was on the same signal or another one, before B or at the same time.
fn run_budget(r: &mut Report, seed: u64, case: u64, thorough: bool) {
    r.eval();
    let mut g = Rng::stream(seed, &[12, 3, case]);
    let transport = Transport::ALL[(case % 3) as usize];
    let layout = ["same-signal", "other-signal-afterwards", "other-signal-meanwhile"][(case / 3 % 3) as usize];
    let tname = transport.name();
    let grpc = transport == Transport::Grpc;
    let x = Signal::ALL[(case / 9 % 3) as usize];
    let y = if layout == "same-signal" { x } else { Signal::ALL[((case / 9 + 1 + case / 27 % 2) % 3) as usize] };
    let subset = x.bit() | y.bit() | if g.chance(1, 3) { 7 } else { 0 };
    let cheap: Vec<Decision> = if grpc {
        vec![
            Decision::GrpcStatus(14, GrpcForm::Trailers),
            Decision::GrpcStatus(14, GrpcForm::TrailersOnly),
            Decision::Status(503),
            Decision::DropOnAccept,
            Decision::DropBeforeBody,
            Decision::DropAfterRead,
            Decision::AfterHeaders(HeadThen::Reset(2), false),
            Decision::AfterHeaders(HeadThen::DropConnection { reset: true }, true),
            Decision::AfterHeaders(HeadThen::EndStream, false),
            Decision::GrpcStatusUnreadable(GrpcForm::Trailers, 0),
        ]
    } else {
        vec![Decision::Status(503), Decision::Status(429), Decision::DropOnAccept, Decision::DropBeforeBody, Decision::DropAfterRead, Decision::StallAt(Phase::AfterHeaders, 503)]
    };
    let mut all = cheap.clone();
    all.push(Decision::Stall);
    if grpc {
        all.extend([Decision::StallAt(Phase::AfterHeaders, 200), Decision::StallAt(Phase::InBody, 200), Decision::StallAt(Phase::BeforeTrailers, 200)]);
    } else {
        all.push(Decision::StallAt(Phase::InHead, 200));
    }
    // A's failure kind walks the cheap kinds (a hanging kind would cost the whole budget in timeouts: thorough only)
    let fa = if thorough && case % 11 == 10 { Decision::Stall } else { cheap[(case / 27) as usize % cheap.len()] };
    // B's single failure walks every kind
    let fb = all[(case / 3) as usize % all.len()];
    let case_json = |detail: Json| {
        json!({"seed": seed, "case": case, "kind": "retry-budget", "transport": tname, "layout": layout, "subset": subset_name(subset),
            "batch_a": {"signal": x.name(), "every_attempt": fa.name()}, "batch_b": {"signal": y.name(), "first_attempt": fb.name()}, "detail": detail})
    };

    let cfgs = Signal::ALL.into_iter().filter(|s| subset & s.bit() != 0).map(|s| EndpointCfg { signal: s, wire: transport.wire(), listen: true, script: vec![] }).collect();
    let col = Collector::start(cfgs);
    let otlp = build_otlp(&col, transport, g.bool(), subset);
    let pad = "x".repeat(64);
    let n_a = 1 + g.below(5);
    let n_b = 1 + g.below(5);
    let a: Vec<Ev> = (0..n_a).map(|k| Ev { vid: 5_000_000_000 + case * 1_000 + k, kind: kind_for(x), pad: g.usize(64) }).collect();
    let b: Vec<Ev> = (0..n_b).map(|k| Ev { vid: 5_000_000_000 + case * 1_000 + 500 + k, kind: kind_for(y), pad: g.usize(64) }).collect();

    col.set_repeat(x, Some(fa));
    for ev in &a {
        emit_ev(&otlp, ev, &pad);
    }
    let meanwhile = layout == "other-signal-meanwhile";
    if meanwhile {
        col.push_script(y, &[fb]);
        for ev in &b {
            emit_ev(&otlp, ev, &pad);
        }
    }
    // flush returns once A has had its final attempt
    if !otlp.blocking_flush(Duration::from_secs(60)) {
        r.observe("budget:scenarios-inconclusive", 1);
        r.inconclusive("retry-budget scenario: blocking_flush returned false (60 s) while a batch was failing on every attempt");
        return;
    }
    col.settle();
    let attempts_a = col.records().iter().filter(|rec| rec.endpoint == x && rec.decision == fa || (rec.endpoint == x && fa == Decision::DropOnAccept && rec.decision == Decision::DropBeforeBody)).count();
    r.observe(&format!("budget:attempts-seen-by-the-collector-until-given-up={}", attempts_a), 1);
    r.observe(&format!("budget:failing-on-every-attempt:{}", fa.class()), 1);
    if attempts_a < 2 {
        r.observe("budget:scenarios-inconclusive", 1);
        r.inconclusive("retry-budget scenario: the failing batch was attempted fewer than 2 times");
        return;
    }
    col.set_repeat(x, None);
    if !meanwhile {
        col.push_script(y, &[fb]);
        for ev in &b {
            emit_ev(&otlp, ev, &pad);
        }
    }
    let flushed = otlp.blocking_flush(Duration::from_secs(60));
    let flush_ret = stamp();
    if !flushed {
        r.observe("budget:scenarios-inconclusive", 1);
        r.inconclusive("retry-budget scenario: the second blocking_flush returned false (60 s)");
        return;
    }
    col.settle();
    let records = col.records();
    let mut acked: BTreeSet<u64> = BTreeSet::new();
    let mut carried: BTreeSet<u64> = BTreeSet::new();
    for rec in &records {
        if rec.body.is_none() || (rec.peer_gone && rec.note.is_some()) {
            continue;
        }
        if let Ok(items) = rec.items() {
            for v in items.iter().filter_map(|i| i.vid()) {
                carried.insert(v);
                if rec.acked() && rec.responding.map(|t| t < flush_ret).unwrap_or(false) {
                    acked.insert(v);
                }
            }
        }
    }
    let fb_hit = records.iter().any(|rec| rec.endpoint == y && (rec.decision == fb || (fb == Decision::DropOnAccept && rec.decision == Decision::DropBeforeBody)));
    r.observe("budget:scenarios-decided", 1);
    r.observe("budget:requests-recorded", records.len() as u64);
    if fb_hit {
        r.observe(&format!("budget:first-attempt-failure-hit:{}", fb.class()), 1);
        r.nontrivial(&("retry-budget", tname, layout, fa.class(), fb.class(), attempts_a));
    }
    let missing: Vec<u64> = b.iter().map(|e| e.vid).filter(|v| !acked.contains(v)).collect();
    r.observe("budget:vids-of-the-second-batch-accounted", (b.len() - missing.len()) as u64);
    if !missing.is_empty() && !(fb.http1_2xx_head_then_stall() && !grpc) {
        r.violation(
            &format!("C12:first-failure-after-a-given-up-batch-not-retried:{}:{}:after={}", tname, layout, fb.class()),
            &format!(
                "batch A on {} was given up after {} attempts ({} every time); batch B on {} then failed once ({}) and {} of its {} events were never acknowledged although flush returned true ({} of them were in some request)",
                x.name(),
                attempts_a,
                fa.name(),
                y.name(),
                fb.name(),
                missing.len(),
                b.len(),
                missing.iter().filter(|v| carried.contains(v)).count()
            ),
            case_json(json!({"missing": missing, "requests": records.iter().map(|rec| rec.brief()).collect::<Vec<_>>()})),
        );
    }
    if r.wants_sample() && case < 2 {
        let reqs: Vec<Json> = records.iter().map(|rec| json!({"endpoint": rec.endpoint.name(), "seq": rec.seq, "decision": rec.decision.name(), "acked": rec.acked()})).collect();
        let cj = case_json(json!({"attempts_until_given_up": attempts_a}));
        r.sample(move || json!({"scenario": cj, "requests": reqs}));
    }
    drop(otlp);
    drop(col);
}

// ---------------------------------------------------------------------------
// a flush over several signals while one of them cannot deliver
// ---------------------------------------------------------------------------

/// Two or three signals; ONE endpoint cannot acknowledge anything (refuses connections / rejects every
/// attempt / never answers) for longer than the flush timeout `T`, which itself is well inside the retry
/// budget of the failing batch. Events go to the failing signal and - "busy" - to the healthy ones, or the
/// healthy ones stay idle. `blocking_flush(T)` returning false is simply correct. Whenever it returns TRUE,
/// every event accepted before it, on every signal, must already be in an acknowledged request. Afterwards
/// the outage ends and the usual delivery rule applies.
fn run_outage_flush(r: &mut Report, seed: u64, case: u64, divisor: u32, request_timeout_ms: u64) {
    r.eval();
    let mut g = Rng::stream(seed, &[12, 4, case]);
    // every (subset of size >= 2, failing member) pair: the failing signal is first / middle / last in the
    // emitter's own order (logs, traces, metrics)
    const PAIRS: [(u8, Signal); 9] = [
        (3, Signal::Logs),
        (3, Signal::Traces),
        (5, Signal::Logs),
        (5, Signal::Metrics),
        (6, Signal::Traces),
        (6, Signal::Metrics),
        (7, Signal::Logs),
        (7, Signal::Traces),
        (7, Signal::Metrics),
    ];
    let (subset, failing) = PAIRS[(case % 9) as usize];
    let busy = case / 9 % 2 == 1;
    let mode = ["refuse", "reject", "stall"][((case / 18 + case % 9 + seed) % 3) as usize];
    let transport = Transport::ALL[((case / 54 + case % 9 / 3 + case / 9 + seed) % 3) as usize];
    let tname = transport.name();
    let grpc = transport == Transport::Grpc;
    let configured: Vec<Signal> = Signal::ALL.into_iter().filter(|s| subset & s.bit() != 0).collect();
    let position = match configured.iter().position(|s| *s == failing).unwrap() {
        0 => "first",
        p if p + 1 == configured.len() => "last",
        _ => "middle",
    };
    // the whole retry budget of one batch takes (700 + 2100 + 4900 + 7 x 10000) ms / divisor of back-off alone
    let budget_ms = 77_700 / divisor as u64;
    let t = match mode {
        // every attempt additionally costs a request timeout
        "stall" => Duration::from_millis(1_000.min(budget_ms / 3 + 3 * request_timeout_ms)),
        _ => Duration::from_millis((budget_ms / 3).max(100)),
    };
    let every_attempt = match mode {
        "reject" => Some(if grpc { Decision::GrpcStatus(14, GrpcForm::Trailers) } else { Decision::Status(503) }),
        "stall" => Some(Decision::Stall),
        _ => None,
    };
    let case_json = |detail: Json| {
        json!({"seed": seed, "case": case, "kind": "outage-flush", "transport": tname, "subset": subset_name(subset), "outage_of": failing.name(), "position": position,
            "mode": mode, "healthy_signals": if busy { "busy" } else { "idle" }, "flush_timeout_ms": t.as_millis() as u64, "detail": detail})
    };
    let cfgs = configured.iter().map(|s| EndpointCfg { signal: *s, wire: transport.wire(), listen: !(mode == "refuse" && *s == failing), script: vec![] }).collect();
    let col = Collector::start(cfgs);
    if let Some(d) = every_attempt {
        col.set_repeat(failing, Some(d));
    }
    let otlp = build_otlp(&col, transport, g.bool(), subset);
    let pad = "x".repeat(300);
    let mut sent: Vec<(u64, Signal)> = Vec::new();
    let mut vid = 7_000_000_000 + case * 1_000;
    for s in &configured {
        if *s != failing && !busy {
            continue;
        }
        for _ in 0..(2 + g.usize(6)) {
            emit_ev(&otlp, &Ev { vid, kind: kind_for(*s), pad: g.usize(300) }, &pad);
            sent.push((vid, *s));
            vid += 1;
        }
    }
    let acked_before = |records: &[Record], at: u64| -> BTreeSet<u64> {
        let mut acked = BTreeSet::new();
        for rec in records.iter().filter(|rec| rec.acked() && rec.responding.map(|x| x < at).unwrap_or(false)) {
            if let Ok(items) = rec.items() {
                acked.extend(items.iter().filter_map(|i| i.vid()));
            }
        }
        acked
    };
    // ---- short flushes inside the outage ----
    for round in 0..2 {
        let call = stamp();
        let ok = otlp.blocking_flush(t);
        let ret = stamp();
        if !ok {
            r.observe("outage-flush:short-flush-returned-false(correct)", 1);
            continue;
        }
        r.observe("outage-flush:short-flush-returned-true", 1);
        col.settle();
        let records = col.records();
        // a batch that has used up its retry budget is given up, and flush may then say true (C08's business)
        let attempts = records.iter().filter(|rec| rec.endpoint == failing).count() + otlp.metric_source().transport_conn_failed();
        if attempts >= 10 {
            r.observe("outage-flush:not-judged-failing-batch-given-up", 1);
            continue;
        }
        let acked = acked_before(&records, ret);
        let missing: Vec<(u64, Signal)> = sent.iter().filter(|(v, _)| !acked.contains(v)).copied().collect();
        if !missing.is_empty() {
            let on: BTreeSet<&str> = missing.iter().map(|(_, s)| s.name()).collect();
            r.violation(
                &format!("C12:flush-true-with-unacknowledged-events:outage-of={}:configured={}", failing.name(), subset_name(subset)),
                &format!(
                    "the {} endpoint ({} of {}) {}, the other signals are {}; blocking_flush({:?}) returned true (stamps {}..{}, call #{}) although {} of the {} events accepted before it are in no acknowledged request (on {:?}); {} attempts seen on the failing endpoint so far",
                    failing.name(),
                    position,
                    subset_name(subset),
                    match mode {
                        "refuse" => "refuses connections",
                        "reject" => "rejects every attempt",
                        _ => "never answers",
                    },
                    if busy { "busy" } else { "idle" },
                    t,
                    call,
                    ret,
                    round + 1,
                    missing.len(),
                    sent.len(),
                    on,
                    attempts
                ),
                case_json(json!({"missing": missing.iter().take(8).map(|(v, s)| json!([v, s.name()])).collect::<Vec<_>>(), "flush_call": call, "flush_return": ret,
                    "requests": records.iter().map(|rec| rec.brief()).collect::<Vec<_>>()})),
            );
            break;
        }
    }
    r.nontrivial(&("outage-flush", subset, failing, mode, busy, tname));
    r.observe(&format!("outage-flush:position-{}:{}", position, if busy { "healthy-busy" } else { "healthy-idle" }), 1);
    // ---- the outage ends: normal delivery ----
    match mode {
        "refuse" => col.listen(failing),
        _ => col.set_repeat(failing, None),
    }
    let flushed = otlp.blocking_flush(Duration::from_secs(40));
    let ret = stamp();
    if !flushed {
        r.observe("outage-flush:scenarios-inconclusive", 1);
        r.inconclusive("outage-flush scenario: blocking_flush returned false (40 s) after the outage had ended");
        return;
    }
    col.settle();
    let records = col.records();
    let unacked_on_failing = records.iter().filter(|rec| rec.endpoint == failing && !rec.acked()).count() + otlp.metric_source().transport_conn_failed();
    r.observe("outage-flush:scenarios-decided", 1);
    if unacked_on_failing > 9 {
        // the batch may have been given up during the outage
        r.observe("outage-flush:final-delivery-not-judged-budget-possibly-exhausted", 1);
    } else {
        let acked = acked_before(&records, ret);
        let missing: Vec<(u64, Signal)> = sent.iter().filter(|(v, _)| !acked.contains(v)).copied().collect();
        r.observe("outage-flush:vids-accounted", (sent.len() - missing.len()) as u64);
        if !missing.is_empty() {
            r.violation(
                &format!("C12:event-not-acknowledged-at-flush:{}:after-an-outage-of-another-or-the-same-signal", tname),
                &format!("the outage of {} ended and blocking_flush returned true, but {} of {} events are in no acknowledged request", failing.name(), missing.len(), sent.len()),
                case_json(json!({"missing": missing.iter().take(8).map(|(v, s)| json!([v, s.name()])).collect::<Vec<_>>(), "requests": records.iter().map(|rec| rec.brief()).collect::<Vec<_>>()})),
            );
        }
    }
    drop(otlp);
    drop(col);
}

// ---------------------------------------------------------------------------
// sequences of flushes on ONE thread: a flush that timed out must not poison the next one
// ---------------------------------------------------------------------------

const FLUSH_SEQ_VID_BASE: u64 = 11_000_000_000;

struct FlushRec {
    /// 0 = the scenario's own thread, 1.. = the other flushers
    thread: usize,
    call: u64,
    ret: u64,
    ok: bool,
    timeout_ms: u64,
    label: &'static str,
}

/// On one thread: emit A; `blocking_flush(short)` - once, twice or three times - that TIMES OUT because the
/// collector holds A's request; emit B (a later batch, a later request); the collector acknowledges A's
/// request and keeps B's pending for hundreds of milliseconds; `blocking_flush(long)` on the same thread.
/// Optionally a second round in which the request that makes the short flush time out is merely slow
/// (acknowledged after a delay) instead of held. Variation: transport, gzip, signal subset (every event kind
/// goes to every configured signal), number of timed-out flushes, whether the first short flush is made
/// immediately after A was emitted (its watcher then rides A's batch) or once A's request has arrived at the
/// collector (it rides the next batch), whether the long flush is already waiting when A's request is
/// released or only starts once A's acknowledgement was written, and whether two other threads flush
/// concurrently with timeouts of their own.
///
/// Oracle - for EVERY flush of the scenario, on whatever thread: if it returned true, every event whose
/// `emit` had returned before the flush was called is in an acknowledged request whose acknowledgement the
/// collector began to write BEFORE the flush returned (stamps on the common timeline; the slow request's
/// acknowledgement is hundreds of milliseconds away, so a true that came early is causal, not noise). A
/// flush that returns false is never a violation.
fn run_flush_sequence(r: &mut Report, seed: u64, case: u64) {
    r.eval();
    let mut g = Rng::stream(seed, &[12, 6, case]);
    let transport = Transport::ALL[(case % 3) as usize];
    let n_timed_out = 1 + (case / 3 % 3) as usize;
    let early_first = case / 9 % 2 == 0;
    let final_waits_for_release = case / 18 % 2 == 0;
    let others = case / 36 % 2 == 1;
    let second_round = (case / 3 + seed) % 2 == 0;
    let subset = ((case * 5 + case / 7 + seed) % 7 + 1) as u8;
    let gzip = g.bool();
    let tname = transport.name();
    let configured: Vec<Signal> = Signal::ALL.into_iter().filter(|s| subset & s.bit() != 0).collect();
    let delay_ms = 300 + g.below(150) as u32;
    let short_ms = 60 + g.below(90);
    let case_json = |detail: Json| {
        json!({"seed": seed, "case": case, "kind": "flush-sequence", "transport": tname, "gzip": gzip, "subset": subset_name(subset),
            "timed_out_flushes_before_the_long_one": n_timed_out, "first_short_flush": if early_first { "immediately-after-emit" } else { "after-the-request-arrived" },
            "long_flush": if final_waits_for_release { "already-waiting-when-the-held-request-is-released" } else { "starts-after-the-held-request-was-acknowledged" },
            "other_threads_flushing": others, "second_round_with_a_slow_request": second_round, "slow_acknowledgement_ms": delay_ms, "short_timeout_ms": short_ms, "detail": detail})
    };

    // request 0 is held until released, the next three are acknowledged after `delay_ms`
    let cfgs = configured
        .iter()
        .map(|s| EndpointCfg {
            signal: *s,
            wire: transport.wire(),
            listen: true,
            script: vec![Decision::HoldAck(30_000), Decision::DelayAck(delay_ms), Decision::DelayAck(delay_ms), Decision::DelayAck(delay_ms)],
        })
        .collect();
    let col = Collector::start(cfgs);
    let otlp = build_otlp(&col, transport, gzip, subset);
    let pad = "x".repeat(64);

    let emitted: Mutex<Vec<(u64, Signal, u64)>> = Mutex::new(Vec::new());
    let flushes: Mutex<Vec<FlushRec>> = Mutex::new(Vec::new());
    let next_vid = std::cell::Cell::new(FLUSH_SEQ_VID_BASE + case * 1_000);
    let emit_round = |n: u64| -> Vec<u64> {
        let mut vids = Vec::new();
        for s in &configured {
            for _ in 0..n {
                let vid = next_vid.get();
                next_vid.set(vid + 1);
                emit_ev(&otlp, &Ev { vid, kind: kind_for(*s), pad: 16 }, &pad);
                emitted.lock().unwrap().push((vid, *s, stamp()));
                vids.push(vid);
            }
        }
        vids
    };
    let flush = |thread: usize, t: Duration, label: &'static str| -> bool {
        let call = stamp();
        let ok = otlp.blocking_flush(t);
        let ret = stamp();
        flushes.lock().unwrap().push(FlushRec { thread, call, ret, ok, timeout_ms: t.as_millis() as u64, label });
        ok
    };
    // (a watchdog, never a verdict) every one of these events is in a request the collector has read / answered
    let in_a_request = |vids: &[u64], answered: bool| {
        col.wait_until(Duration::from_secs(15), |recs| {
            let mut seen: BTreeSet<u64> = BTreeSet::new();
            for rec in recs.iter().filter(|x| x.body_read.is_some() && (!answered || x.responded.is_some())) {
                if let Ok(items) = rec.items() {
                    seen.extend(items.iter().filter_map(|i| i.vid()));
                }
            }
            vids.iter().all(|v| seen.contains(v))
        })
    };
    let arrived = |vids: &[u64]| in_a_request(vids, false);
    let answered = |vids: &[u64]| in_a_request(vids, true);

    let stop = AtomicBool::new(false);
    let long_started = AtomicBool::new(false);
    let mut watchdog: Option<&'static str> = None;
    let mut long_ok = false;

    std::thread::scope(|scope| {
        if others {
            for k in 0..2usize {
                let (stop, flush) = (&stop, &flush);
                let mut g = Rng::stream(seed, &[12, 7, case, k as u64]);
                scope.spawn(move || {
                    while !stop.load(Ordering::SeqCst) {
                        flush(1 + k, Duration::from_millis(g.range(30, 350)), "other-thread");
                        std::thread::sleep(Duration::from_millis(g.range(1, 30)));
                    }
                });
            }
        }
        // the releaser: lets A's request go once the long flush is really waiting
        if final_waits_for_release {
            let (long_started, stop, col) = (&long_started, &stop, &col);
            scope.spawn(move || {
                while !long_started.load(Ordering::SeqCst) && !stop.load(Ordering::SeqCst) {
                    std::thread::sleep(Duration::from_millis(2));
                }
                std::thread::sleep(Duration::from_millis(120));
                col.release_gate();
            });
        }

        // ---- round 1: the request that makes the short flushes time out is HELD ----
        let a = emit_round(1 + g.below(2));
        if !early_first && !arrived(&a) {
            watchdog = Some("the first requests did not arrive within 15 s");
        }
        for i in 0..n_timed_out {
            if watchdog.is_some() {
                break;
            }
            flush(0, Duration::from_millis(short_ms), "short-while-the-request-is-held");
            if i + 1 < n_timed_out && g.bool() {
                emit_round(1);
            }
        }
        if watchdog.is_none() && early_first && !arrived(&a) {
            watchdog = Some("the first requests did not arrive within 15 s");
        }
        if watchdog.is_none() {
            // B: the worker is busy with A's batch, so this is a later batch and a later request
            emit_round(1 + g.below(2));
            if final_waits_for_release {
                long_started.store(true, Ordering::SeqCst);
            } else {
                col.release_gate();
                if !answered(&a) {
                    watchdog = Some("the held requests were not answered within 15 s of their release");
                }
            }
        }
        if watchdog.is_none() {
            long_ok = flush(0, Duration::from_secs(30), "long-after-timed-out-flushes");
        }
        // ---- round 2: the request that makes the short flush time out is merely SLOW ----
        if watchdog.is_none() && long_ok && second_round {
            let c = emit_round(1);
            // immediately: the watcher rides the batch of these events, whose request is acknowledged late
            flush(0, Duration::from_millis(short_ms), "short-while-the-request-is-slow");
            if !arrived(&c) {
                watchdog = Some("the slow requests did not arrive within 15 s");
            } else {
                emit_round(1);
                long_ok = flush(0, Duration::from_secs(30), "long-after-timed-out-flushes");
            }
        }
        stop.store(true, Ordering::SeqCst);
        long_started.store(true, Ordering::SeqCst);
        col.release_gate();
    });

    col.settle();
    let records = col.records();
    let emitted = emitted.into_inner().unwrap();
    let flushes = flushes.into_inner().unwrap();
    r.observe("flush-seq:requests-recorded", records.len() as u64);
    r.observe("flush-seq:events-emitted", emitted.len() as u64);
    r.observe("flush-seq:flush-calls", flushes.len() as u64);

    // ---- decode; requests from somebody else make the scenario a harness matter ----
    let known: BTreeSet<u64> = emitted.iter().map(|e| e.0).collect();
    let mut first_ack: HashMap<u64, u64> = HashMap::new();
    let mut foreign = false;
    for rec in &records {
        if rec.body.is_none() || (rec.peer_gone && rec.note.is_some()) {
            continue;
        }
        let Ok(items) = rec.items() else { continue };
        for v in items.iter().filter_map(|i| i.vid()) {
            if !known.contains(&v) {
                foreign = true;
            }
            if rec.acked() {
                if let Some(t) = rec.responding {
                    let e = first_ack.entry(v).or_insert(u64::MAX);
                    *e = (*e).min(t);
                }
            }
        }
    }
    if foreign {
        r.observe("flush-seq:scenarios-inconclusive", 1);
        r.inconclusive("flush-sequence scenario: a collector received requests that were not sent by its scenario's emitter; not judged");
        return;
    }

    // ---- did the scenario take the intended shape? (evidence only; the oracle below holds regardless) ----
    let main: Vec<&FlushRec> = flushes.iter().filter(|f| f.thread == 0).collect();
    let shorts_false = main.iter().filter(|f| f.label.starts_with("short") && !f.ok).count();
    r.observe("flush-seq:short-flushes-that-timed-out(correct)", shorts_false as u64);
    r.observe("flush-seq:short-flushes-that-returned-true", main.iter().filter(|f| f.label.starts_with("short") && f.ok).count() as u64);
    if let Some(last_short) = main.iter().filter(|f| f.label == "short-while-the-request-is-held").last() {
        let held_through = configured.iter().all(|s| records.iter().find(|x| x.endpoint == *s && x.seq == 0).and_then(|x| x.responding).map(|t| t > last_short.ret).unwrap_or(false));
        if held_through {
            r.observe("flush-seq:first-request-was-held-through-every-short-flush", 1);
        }
    }
    let later_request_slow = configured.iter().all(|s| records.iter().any(|x| x.endpoint == *s && x.seq == 1 && x.acked()));
    if later_request_slow {
        r.observe("flush-seq:later-batch-went-out-in-a-later-slowly-acknowledged-request", 1);
    }

    // ---- the oracle: true => everything emitted before the call was acknowledged before the return ----
    let mut judged_true = 0u64;
    for (k, f) in flushes.iter().enumerate() {
        if !f.ok {
            continue;
        }
        judged_true += 1;
        let earlier_on_thread: Vec<&FlushRec> = flushes[..k].iter().filter(|e| e.thread == f.thread).collect();
        let after_timed_out = earlier_on_thread.iter().filter(|e| !e.ok).count();
        let missing: Vec<(u64, Signal, bool)> = emitted
            .iter()
            .filter(|(_, _, at)| *at < f.call)
            .filter_map(|(v, s, _)| match first_ack.get(v) {
                Some(t) if *t < f.ret => None,
                Some(_) => Some((*v, *s, true)),
                None => Some((*v, *s, false)),
            })
            .collect();
        if f.thread == 0 && after_timed_out > 0 && f.label.starts_with("long") {
            r.observe("flush-seq:long-flushes-judged-after-timed-out-flushes-on-the-same-thread", 1);
            r.nontrivial(&("flush-seq", tname, subset, n_timed_out, early_first, final_waits_for_release, others, f.label, after_timed_out));
        }
        if missing.is_empty() {
            continue;
        }
        let history = if after_timed_out > 0 { "after-a-timed-out-flush-on-the-same-thread" } else { "no-earlier-timed-out-flush-on-its-thread" };
        let later = missing.iter().filter(|m| m.2).count();
        r.violation(
            &format!("C12:flush-true-before-acknowledgement:{}:{}", history, tname),
            &format!(
                "blocking_flush({} ms) on {} returned true (stamps {}..{}) after {} earlier flush(es) on that thread had timed out, although {} of the events emitted before it were in no acknowledged request yet ({} of them were acknowledged only later, {} never); signals {:?}",
                f.timeout_ms,
                if f.thread == 0 { "the emitting thread".to_string() } else { format!("flusher thread #{}", f.thread) },
                f.call,
                f.ret,
                after_timed_out,
                missing.len(),
                later,
                missing.len() - later,
                missing.iter().map(|m| m.1.name()).collect::<BTreeSet<_>>()
            ),
            case_json(json!({
                "flush": {"thread": f.thread, "call": f.call, "return": f.ret, "timeout_ms": f.timeout_ms, "label": f.label},
                "earlier_flushes_on_that_thread": earlier_on_thread.iter().map(|e| json!({"call": e.call, "return": e.ret, "ok": e.ok, "timeout_ms": e.timeout_ms})).collect::<Vec<_>>(),
                "unacknowledged_at_return": missing.iter().take(8).map(|(v, s, l)| json!({"vid": v, "signal": s.name(), "acknowledgement_written_at": if *l { json!(first_ack[v]) } else { json!(null) }})).collect::<Vec<_>>(),
                "requests": records.iter().map(|rec| rec.brief()).collect::<Vec<_>>(),
            })),
        );
        break;
    }
    r.observe("flush-seq:flushes-returning-true-judged", judged_true);
    if let Some(w) = watchdog {
        r.observe("flush-seq:scenarios-inconclusive", 1);
        r.inconclusive(format!("flush-sequence scenario: watchdog: {}", w));
    } else if !long_ok {
        r.observe("flush-seq:scenarios-inconclusive", 1);
        r.observe("flush-seq:long-flush-returned-false", 1);
        r.inconclusive("flush-sequence scenario: the long blocking_flush (30 s) returned false");
    } else {
        r.observe("flush-seq:scenarios-decided", 1);
    }
    if r.wants_sample() && case < 3 {
        let fl: Vec<Json> = flushes.iter().map(|f| json!({"thread": f.thread, "label": f.label, "timeout_ms": f.timeout_ms, "call": f.call, "return": f.ret, "ok": f.ok})).collect();
        let reqs: Vec<Json> = records.iter().map(|rec| json!({"endpoint": rec.endpoint.name(), "seq": rec.seq, "decision": rec.decision.name(), "received": rec.received, "acknowledgement_written": rec.responding})).collect();
        let cj = case_json(json!(null));
        r.sample(move || json!({"scenario": cj, "flushes": fl, "requests": reqs}));
    }
    drop(otlp);
    drop(col);
}

/// Run-level judgement of "2xx head, then a graceful close" (see `run`): sent again after every single one.
// ---------------------------------------------------------------------------
// sixth family: per-signal encodings + a non-trivial resource against a VALIDATING collector, and events
// that the signal of their kind declines
// ---------------------------------------------------------------------------

const MIXED_VID_BASE: u64 = 12_000_000_000;

#[derive(Clone, Copy, Debug, PartialEq, Eq, Hash)]
enum MixKind {
    Log,
    Span,
    Metric,
    /// `evt_kind = span` with a point extent
    SpanPoint,
    /// `evt_kind = span` without any extent
    SpanNoExtent,
    /// `evt_kind = metric` without `metric_value`
    MetricNoValue,
    /// `evt_kind = metric` whose `metric_value` is text / a boolean / a sequence of sequences
    MetricText,
    MetricBool,
    MetricNested,
}

impl MixKind {
    const DECLINED: [MixKind; 6] = [MixKind::SpanPoint, MixKind::SpanNoExtent, MixKind::MetricNoValue, MixKind::MetricText, MixKind::MetricBool, MixKind::MetricNested];

    fn name(self) -> &'static str {
        match self {
            MixKind::Log => "log",
            MixKind::Span => "span",
            MixKind::Metric => "metric",
            MixKind::SpanPoint => "span-kind:point-extent",
            MixKind::SpanNoExtent => "span-kind:no-extent",
            MixKind::MetricNoValue => "metric-kind:no-value",
            MixKind::MetricText => "metric-kind:text-value",
            MixKind::MetricBool => "metric-kind:bool-value",
            MixKind::MetricNested => "metric-kind:nested-sequence-value",
        }
    }

    fn declined(self) -> bool {
        MixKind::DECLINED.contains(&self)
    }

    /// the signal whose `evt_kind` the event carries
    fn kinds_signal(self) -> Signal {
        match self {
            MixKind::Log => Signal::Logs,
            MixKind::Span | MixKind::SpanPoint | MixKind::SpanNoExtent => Signal::Traces,
            _ => Signal::Metrics,
        }
    }

    /// where the statement / crate docs send it, given the configured signals (logs is always configured here)
    fn home(self, subset: u8) -> Signal {
        if !self.declined() && subset & self.kinds_signal().bit() != 0 {
            self.kinds_signal()
        } else {
            Signal::Logs
        }
    }
}

fn mixed_resource_keys() -> Vec<String> {
    ["service.name", "run", "debug", "ratio", "tags", "ключ"].iter().map(|s| s.to_string()).collect()
}

/// json? per signal (logs, traces, metrics)
fn build_mixed(col: &Collector, grpc: bool, gzip: bool, subset: u8, json: [bool; 3]) -> emit_otlp::Otlp {
    let tb = |s: Signal| if grpc { emit_otlp::grpc(col.url(s)) } else { emit_otlp::http(col.url(s)) }.allow_compression(gzip);
    let tags = [1, 2, 3];
    let resource = [
        ("service.name", emit::Value::from("c12-é ✓ \"q\"")),
        ("run", emit::Value::from(12)),
        ("debug", emit::Value::from(true)),
        ("ratio", emit::Value::from(0.5)),
        ("tags", emit::Value::from(&tags)),
        ("ключ", emit::Value::from("значение")),
    ];
    let mut b = emit_otlp::new().resource(&resource[..]);
    if subset & Signal::Logs.bit() != 0 {
        b = b.logs(if json[0] { emit_otlp::logs_json(tb(Signal::Logs)) } else { emit_otlp::logs_proto(tb(Signal::Logs)) });
    }
    if subset & Signal::Traces.bit() != 0 {
        b = b.traces(if json[1] { emit_otlp::traces_json(tb(Signal::Traces)) } else { emit_otlp::traces_proto(tb(Signal::Traces)) });
    }
    if subset & Signal::Metrics.bit() != 0 {
        b = b.metrics(if json[2] { emit_otlp::metrics_json(tb(Signal::Metrics)) } else { emit_otlp::metrics_proto(tb(Signal::Metrics)) });
    }
    b.spawn()
}

fn emit_mixed(otlp: &emit_otlp::Otlp, vid: u64, kind: MixKind, pad: &str) {
    use emit::Value;
    let name = format!("v{}", vid);
    let tpl = emit::Template::literal_ref(&name);
    let mdl = emit::Path::new_raw(if vid % 3 == 0 { "verif::c12::a" } else { "verif::c12::b" });
    let kind_span = emit::Kind::Span;
    let kind_metric = emit::Kind::Metric;
    let nested = [[1i64, 2], [3, 4]];
    let point = emit::Extent::point(ts(vid % 1000, 1));
    let range = emit::Extent::range(ts(vid % 1000, 1)..ts(vid % 1000 + 1, 2));
    let mut props: Vec<(&str, Value)> = Vec::new();
    match kind.kinds_signal() {
        Signal::Logs => {}
        Signal::Traces => {
            props.push(("evt_kind", Value::from_any(&kind_span)));
            props.push(("trace_id", Value::from("4bf92f3577b34da6a3ce929d0e0e4736")));
            props.push(("span_id", Value::from("00f067aa0ba902b7")));
        }
        Signal::Metrics => {
            props.push(("evt_kind", Value::from_any(&kind_metric)));
            props.push(("metric_agg", Value::from("count")));
            match kind {
                MixKind::Metric => props.push(("metric_value", Value::from((vid % 97) as i64))),
                MixKind::MetricText => props.push(("metric_value", Value::from("n/a"))),
                MixKind::MetricBool => props.push(("metric_value", Value::from(true))),
                MixKind::MetricNested => props.push(("metric_value", Value::from_serde(&nested))),
                _ => {}
            }
        }
    }
    props.push(("vid", Value::from(vid as i64)));
    props.push(("pad", Value::from(pad)));
    match kind {
        MixKind::SpanNoExtent => otlp.emit(emit::Event::new(mdl, tpl, emit::Empty, &props[..])),
        MixKind::Span => otlp.emit(emit::Event::new(mdl, tpl, range, &props[..])),
        // metric-kinded events alternate between a point and a range (both are fine for a metric)
        MixKind::MetricNoValue | MixKind::MetricText if vid % 2 == 0 => otlp.emit(emit::Event::new(mdl, tpl, range, &props[..])),
        _ => otlp.emit(emit::Event::new(mdl, tpl, point, &props[..])),
    }
}

/// One Otlp instance whose signals use DIFFERENT encodings (the six mixes; plus uniform HTTP and gRPC instances
/// for comparison) with a non-trivial resource, against endpoints that validate every request for its content
/// type - body AND the resource of every Resource* element - and answer 400 / grpc-status 3 to a malformed one,
/// like a real collector. The burst mixes ordinary logs / spans / metric samples with events that carry
/// `evt_kind` span / metric but do not qualify for that signal. Verdicts: a request the collector had to
/// reject as malformed is a violation in its own right; when flush returns true every event whose home
/// endpoint rejected nothing is in a request acknowledged before flush returned (declined events included:
/// accepted by the emitter, they end up as log records). Which endpoint carries a declined event is C14's.
fn run_mixed(r: &mut Report, seed: u64, case: u64) {
    r.eval();
    let mut g = Rng::stream(seed, &[12, 6, case]);
    let shape = case % 8;
    let (grpc, json): (bool, [bool; 3]) = match shape {
        0..=5 => {
            // the six non-uniform assignments: bits 1..=6 of (logs, traces, metrics)
            let bits = shape + 1;
            (false, [bits & 1 != 0, bits & 2 != 0, bits & 4 != 0])
        }
        6 => (true, [false; 3]),
        _ => (false, [(case / 8) % 2 == 0; 3]),
    };
    let subset: u8 = if shape <= 5 { 7 } else { [7u8, 3, 5][(case / 8 % 3) as usize] };
    let gzip = (case / 8 + seed) % 2 == 0;
    let mixed = json.iter().any(|j| *j != json[0]);
    let tname = if grpc { "grpc" } else if mixed { "http-mixed" } else if json[0] { "http-json" } else { "http-proto" };
    let enc = |s: Signal| if grpc { "proto" } else if json[sidx(s)] { "json" } else { "proto" };
    let configured: Vec<Signal> = Signal::ALL.into_iter().filter(|s| subset & s.bit() != 0).collect();
    let mix_name = configured.iter().map(|s| format!("{}={}", s.name(), enc(*s))).collect::<Vec<_>>().join("+");

    // ---- the burst ----
    let n = 18 + g.usize(20);
    let big_at = if g.chance(1, 3) { Some(g.usize(n)) } else { None };
    let mut events: Vec<(u64, MixKind, usize)> = Vec::new();
    for k in 0..n {
        let kind = if k < MixKind::DECLINED.len() {
            // every declined shape at least once per scenario
            MixKind::DECLINED[(k + case as usize) % MixKind::DECLINED.len()]
        } else {
            match g.below(10) {
                0..=1 => MixKind::Log,
                2..=3 => MixKind::Span,
                4..=5 => MixKind::Metric,
                _ => *g.pick(&MixKind::DECLINED),
            }
        };
        let pad = if Some(k) == big_at { MIB + g.usize(MIB / 4) } else if g.chance(1, 6) { 100_000 + g.usize(300_000) } else { g.usize(300) };
        events.push((MIXED_VID_BASE + case * 10_000 + k as u64, kind, pad));
    }
    g.shuffle(&mut events);
    let max_pad = events.iter().map(|e| e.2).max().unwrap_or(0);
    let pad_src: String = (0..max_pad).map(|_| (b'a' + g.below(26) as u8) as char).collect();

    let sj = json!({
        "kind": "mixed-encodings", "seed": seed, "case": case, "transport": tname, "gzip": gzip, "subset": subset_name(subset), "encodings": mix_name,
        "events": events.iter().map(|(v, k, p)| json!([v, k.name(), p])).collect::<Vec<_>>(),
    });
    let case_json = |detail: Json| {
        let mut j = sj.clone();
        j["detail"] = detail;
        j
    };

    // ---- collector: acknowledges what validates ----
    let wire = if grpc { Wire::Grpc } else { Wire::Http1 };
    let col = Collector::start(configured.iter().map(|s| EndpointCfg { signal: *s, wire, listen: true, script: vec![] }).collect());
    let keys = mixed_resource_keys();
    for s in &configured {
        let keys = keys.clone();
        col.set_validator(*s, std::sync::Arc::new(move |rec: &Record| validate_export_request(rec, &keys)));
    }
    let otlp = build_mixed(&col, grpc, gzip, subset, json);
    for (vid, kind, pad) in &events {
        emit_mixed(&otlp, *vid, *kind, &pad_src[..*pad]);
    }
    let discarded = emitter_metric(&otlp, "event_discarded");
    let flushed = otlp.blocking_flush(Duration::from_secs(30));
    let flush_ret = stamp();
    col.settle();
    let records = col.records();
    drop(otlp);
    r.observe("mixed:requests-recorded", records.len() as u64);
    r.observe("mixed:events-emitted", events.len() as u64);
    r.observe(&format!("mixed:scenarios:{}:{}", tname, mix_name), 1);

    // requests from somebody else's emitter (port handed over): a harness matter, never a verdict
    let known: BTreeSet<u64> = events.iter().map(|e| e.0).collect();
    if records.iter().filter(|rec| rec.body.is_some()).any(|rec| rec.items().map(|items| items.iter().filter_map(|i| i.vid()).any(|v| !known.contains(&v))).unwrap_or(false)) {
        r.observe("scenarios-inconclusive", 1);
        r.observe("scenarios-with-foreign-requests", 1);
        r.inconclusive("mixed-encodings scenario: a collector received requests that were not sent by its scenario's emitter; scenario not judged");
        return;
    }

    // ---- a request the collector had to reject as malformed ----
    let mut rejecting: BTreeSet<usize> = BTreeSet::new();
    for rec in &records {
        // the validator's view must cover the resource of every signal: count what was validated
        if rec.body.is_some() {
            r.observe(&format!("mixed:requests-validated:{}={}", rec.endpoint.name(), if rec.is_json() { "json" } else { "proto" }), 1);
        }
        if rec.body.is_some() && (rec.is_json() != (enc(rec.endpoint) == "json")) {
            r.violation(
                &format!("C12:content-type-not-as-configured:{}:{}={}", if mixed { "mixed-encodings" } else { "uniform-encoding" }, rec.endpoint.name(), enc(rec.endpoint)),
                &format!("the {} signal is configured for {} but its request says content-type {:?}", rec.endpoint.name(), enc(rec.endpoint), rec.header("content-type")),
                case_json(rec.brief()),
            );
        }
        let Some(why) = &rec.rejected else { continue };
        if !rejecting.insert(sidx(rec.endpoint)) {
            continue;
        }
        let part = if why.starts_with("resource:") { "resource" } else { "body" };
        r.violation(
            &format!("C12:malformed-request:{}:{}:{}={}", part, if mixed { "mixed-encodings" } else { "uniform-encoding" }, rec.endpoint.name(), enc(rec.endpoint)),
            &format!(
                "instance {} ({}): the collector had to reject the {} request as malformed for its content type ({}) - {}",
                mix_name,
                tname,
                rec.endpoint.name(),
                rec.header("content-type").unwrap_or("?"),
                why
            ),
            case_json(rec.brief()),
        );
    }

    if !flushed {
        r.observe("scenarios-inconclusive", 1);
        r.inconclusive("mixed-encodings scenario: blocking_flush returned false (30 s)");
        return;
    }
    r.observe("mixed:scenarios-decided", 1);

    // ---- delivery: every accepted event is in a request acknowledged before flush returned ----
    let mut acked: BTreeSet<u64> = BTreeSet::new();
    let mut carried: HashMap<u64, Vec<&Record>> = HashMap::new();
    for rec in &records {
        if let Ok(items) = rec.items() {
            for v in items.iter().filter_map(|i| i.vid()) {
                carried.entry(v).or_default().push(rec);
                if rec.acked() && rec.responding.map(|t| t < flush_ret).unwrap_or(false) {
                    acked.insert(v);
                }
            }
        }
    }
    let mut reported: BTreeSet<String> = BTreeSet::new();
    for (vid, kind, pad) in &events {
        let home = kind.home(subset);
        if rejecting.contains(&sidx(home)) || (kind.declined() && rejecting.contains(&sidx(kind.kinds_signal()))) {
            // its endpoint could not acknowledge: the malformed request is the verdict
            continue;
        }
        if failed_attempts(&records, home) > 9 {
            continue;
        }
        if acked.contains(vid) {
            r.observe(if kind.declined() { "mixed:declined-events-acknowledged" } else { "mixed:ordinary-events-acknowledged" }, 1);
            if kind.declined() {
                r.observe(&format!("mixed:declined-acknowledged:{}", kind.name()), 1);
                r.nontrivial(&("mixed-declined", tname, &mix_name, kind.name()));
            }
            continue;
        }
        let carriers = carried.get(vid);
        let how = match carriers {
            Some(c) if c.iter().any(|rec| rec.acked()) => "acknowledged-only-after-flush-returned".to_string(),
            Some(c) => format!("only-in-unacknowledged-requests:after={}", c.last().map(|rec| rec.decision.class()).unwrap_or("?")),
            None => "in-no-request".to_string(),
        };
        let class = if kind.declined() { "declined-by-its-kinds-signal" } else { "mixed-encodings-family" };
        let sig = format!("C12:event-not-acknowledged-at-flush:{}:{}:{}", tname, how, class);
        if !reported.insert(format!("{}:{}", sig, kind.name())) {
            continue;
        }
        r.violation(
            &sig,
            &format!(
                "instance {}: blocking_flush returned true but event v{} ({}, {} pad bytes), which the emitter accepted{}, is {}; event_discarded counter = {}",
                mix_name,
                vid,
                kind.name(),
                pad,
                if kind.declined() { format!(" and which the {} signal declines (so it belongs in a log record)", kind.kinds_signal().name()) } else { String::new() },
                how.replace('-', " "),
                discarded
            ),
            case_json(json!({"vid": vid, "event_kind": kind.name(), "flush_return": flush_ret, "requests": records.iter().map(|rec| rec.brief()).collect::<Vec<_>>()})),
        );
    }
    if rejecting.is_empty() {
        r.nontrivial(&("mixed", tname, &mix_name, gzip, big_at.is_some()));
    }
    drop(col);
}

fn judge_ack_then_close(r: &mut Report, min_hits: u64) {
    for t in [Transport::HttpJson, Transport::HttpProto] {
        let hits = r.observed.get(&format!("ack-then-close:hits:{}", t.name())).copied().unwrap_or(0);
        let again = r.observed.get(&format!("ack-then-close:sent-again:{}", t.name())).copied().unwrap_or(0);
        if hits >= min_hits && again == hits {
            let witness = r.extra.get(&format!("ack_then_close_witness_{}", t.name())).cloned().unwrap_or(json!(null));
            r.violation(
                &format!("C12:acknowledged-request-resent:2xx-head-then-close:{}", t.name()),
                &format!(
                    "every one of the {} requests of this run that were answered with a complete 200 head (announcing a body) followed by a graceful close had its events sent again in a later request",
                    hits
                ),
                witness,
            );
        } else if again > 0 {
            r.observe("ack-then-close:sent-again-in-some-scenarios:observed-but-unjudged", again);
        }
    }
}

/// `par_cases` hands out blocks of 16 cases; these scenarios spend their time waiting (back-off, request
/// timeouts), so one scenario per block balances far better.
fn spread(r: &mut Report, args: &Args, n: u64, case: impl Fn(u64, &mut Report) + Sync) {
    par_cases(r, args, n * 16, |i, r| {
        if i % 16 == 0 {
            case(i / 16, r)
        }
    });
}

fn main() {
    let args = Args::parse();
    let mut r = Report::new(
        "C12",
        &args,
        "one evaluation = one scenario (transport x gzip x signal subset x per-signal fault script x burst sizes) run against the scripted collector and judged after flush; \
         non-trivial = distinct (transport, gzip, subset, sequence of decisions actually taken per endpoint, outage, split-batch) combinations in which at least one injected \
         failure was actually hit by a request, plus fault-free scenarios whose batch spanned several size-limited requests",
    );
    let seed = args.seed;
    let opts = Opts { max_requests: args.get_u64("max-requests", if args.thorough() { 6 } else { 4 }) as usize };

    // process-global hooks, set once
    // Under a sanitizer everything is several times slower: with the usual 250-300 ms the emitter's own
    // request timeout fires before a 1 MiB request has even left, invisibly to the collector, and whole retry
    // budgets evaporate. Those lanes get a request timeout and back-off in proportion.
    let slow = args.lane.contains("san") || args.get_u64("slow", 0) == 1;
    let divisor = if slow { 25 } else { [100u32, 50, 150, 200][(seed % 4) as usize] };
    let timeout_ms = if slow { 3_000 } else { 250 + 25 * (seed % 3) };
    emit_batcher::verif::set_delay_divisor(divisor);
    emit_otlp::verif::set_request_timeout(Some(Duration::from_millis(timeout_ms)));
    r.set("delay_divisor", json!(divisor));
    r.set("request_timeout_ms", json!(timeout_ms));

    if let Some(path) = &args.replay {
        let case = load_replay(path);
        let c = case.get("case").and_then(|v| v.as_u64()).unwrap_or(0);
        let s = case.get("seed").and_then(|v| v.as_u64()).unwrap_or(seed);
        if case.get("kind").and_then(|v| v.as_str()) == Some("outage-flush") {
            for i in 0..3 {
                run_outage_flush(&mut r, s, c, divisor, timeout_ms);
                r.nontrivial(&("replay-run", i));
            }
            std::process::exit(r.finish());
        }
        if case.get("kind").and_then(|v| v.as_str()) == Some("flush-sequence") {
            emit_otlp::verif::set_request_timeout(Some(Duration::from_millis(if slow { 20_000 } else { 6_000 })));
            for i in 0..3 {
                run_flush_sequence(&mut r, s, c);
                r.nontrivial(&("replay-run", i));
            }
            std::process::exit(r.finish());
        }
        if case.get("kind").and_then(|v| v.as_str()) == Some("mixed-encodings") {
            for i in 0..3 {
                run_mixed(&mut r, s, c);
                r.nontrivial(&("replay-run", i));
            }
            std::process::exit(r.finish());
        }
        if case.get("kind").and_then(|v| v.as_str()) == Some("retry-budget") {
            for i in 0..3 {
                run_budget(&mut r, s, c, args.thorough());
                r.nontrivial(&("replay-run", i));
            }
            std::process::exit(r.finish());
        }
        for i in 0..3 {
            let sc = if c >= AFTER_HEADERS_CASE_BASE { generate_after_headers(s, c - AFTER_HEADERS_CASE_BASE, &opts) } else { generate(s, c, &opts) };
            run(&mut r, &sc);
            r.nontrivial(&("replay-run", i));
        }
        judge_ack_then_close(&mut r, 3);
        std::process::exit(r.finish());
    }

    let section = args.get("section").unwrap_or("all").to_string();
    let only = |name: &str| section == "all" || section == name;
    let n = if only("main") { args.n(210, 8064) } else { 0 };
    spread(&mut r, &args, n, |i, r| {
        let sc = generate(seed, i, &opts);
        run(r, &sc);
    });
    judge_ack_then_close(&mut r, 4);
    // gRPC: the response began (200 HEADERS) and then broke or ended before any grpc-status, or carried a status
    // that is not a number - 20 kinds x first / second request after the primer = 40 per round
    let n_after_headers = if only("after-headers") { args.n(40, 800) } else { 0 };
    spread(&mut r, &args, n_after_headers, |i, r| {
        let sc = generate_after_headers(seed, i, &opts);
        run(r, &sc);
    });
    r.set("main_section_wall_s", json!(r.elapsed_s()));
    // retry-budget sequences (3 transports x 3 layouts x 3 signals for the failing batch, every failure
    // kind for the batch that follows)
    let thorough = args.thorough();
    let n_budget = if only("budget") { args.n(54, 810) } else { 0 };
    spread(&mut r, &args, n_budget, |i, r| run_budget(r, seed, i, thorough));
    // a flush over several signals while one of them cannot deliver (9 subset/position pairs x idle/busy per
    // round of 18; outage mode and transport rotate with the case and the seed)
    let n_outage = if only("outage") { args.n(18, 324) } else { 0 };
    spread(&mut r, &args, n_outage, |i, r| run_outage_flush(r, seed, i, divisor, timeout_ms));
    // per-signal encodings + resource against validating endpoints, with events their kind's signal declines
    // (6 mixes + gRPC + uniform HTTP per round of 8)
    let n_mixed = if only("mixed") { args.n(24, 480) } else { 0 };
    let t_mixed = r.elapsed_s();
    spread(&mut r, &args, n_mixed, |i, r| run_mixed(r, seed, i));
    r.set("mixed_section_wall_s", json!(r.elapsed_s() - t_mixed));
    // sequences of flushes on one thread: timed-out flushes, then a long one (3 transports x 1..3 timed-out flushes x
    // where the first short flush's watcher rides x long flush waiting / starting late x other threads flushing = 72).
    // The held / slow requests must outlive the short flushes, not the emitter's request timeout: it is raised for
    // this family (nothing else runs meanwhile) and restored afterwards.
    let n_flush_seq = if only("flush-seq") { args.n(72, 720) } else { 0 };
    emit_otlp::verif::set_request_timeout(Some(Duration::from_millis(if slow { 20_000 } else { 6_000 })));
    let t_flush_seq = r.elapsed_s();
    spread(&mut r, &args, n_flush_seq, |i, r| run_flush_sequence(r, seed, i));
    emit_otlp::verif::set_request_timeout(Some(Duration::from_millis(timeout_ms)));
    r.set("flush_sequence_section_wall_s", json!(r.elapsed_s() - t_flush_seq));
    let inconclusive = r.observed.get("scenarios-inconclusive").copied().unwrap_or(0);
    if inconclusive * 5 > n {
        r.inconclusive(format!("{} of {} scenarios were inconclusive (flush false / watchdog): too many to call the run meaningful", inconclusive, n));
    }
    std::process::exit(r.finish());
}
