/*!
C13 — every sink encodes every event faithfully and never panics the caller.

Seeded model events (log / span / metric; properties drawn from `ModelValue` through every capture
path; duplicate keys; well-known keys with typed / textual / wrong-typed values; error chains) are
built into real `emit::Event`s and emitted, each under `catch_unwind` on the caller thread, to

* `emit_file` (default JSON writer) writing into a real `mktemp -d` directory, read back line by line;
* `emit_otlp` × logs / traces / metrics × {protobuf, JSON} over HTTP to a local collector written
  here (`shared/c13_otlp.rs`), bodies decoded with the prost types generated for emit_otlp's own
  tests and with the harness' strict JSON parser;
* `emit_term` in a child process (this binary in `--term-child` mode) with stdout captured.

The oracle computes, from the model alone, what each sink must show (see `check_*`).
Known findings (compound map keys) are classified from the MODEL value's key shape, never from the
panic text or the malformed output.
*/

#[path = "../shared/c13_pb.rs"]
mod pb;
#[path = "../shared/c13_events.rs"]
mod events;
#[path = "../shared/c13_otlp.rs"]
mod otlp;

use std::{collections::BTreeMap, io::Read, process::Command, time::Duration};

use emit::Emitter;
use events::*;
use otlp::*;
use vcommon::{
    model::{ModelValue as M, *},
    *,
};

// ---------------------------------------------------------------------------
// helpers
// ---------------------------------------------------------------------------

fn mktemp() -> String {
    let out = Command::new("mktemp").arg("-d").output().expect("mktemp -d");
    String::from_utf8(out.stdout).expect("utf8").trim().to_string()
}

fn clip(s: &str) -> String {
    if s.len() > 500 {
        let mut cut = 500;
        while !s.is_char_boundary(cut) {
            cut -= 1;
        }
        format!("{}…", &s[..cut])
    } else {
        s.to_string()
    }
}

fn case_of(me: &ModelEvent, seed: u64, section: &str, idx: u64) -> Json {
    json!({"seed": seed, "section": section, "idx": idx, "event": me.describe()})
}

struct Ctx<'a> {
    r: &'a mut Report,
    seed: u64,
    section: &'a str,
}

impl<'a> Ctx<'a> {
    fn violation(&mut self, me: &ModelEvent, idx: u64, sig: &str, what: String) {
        let case = case_of(me, self.seed, self.section, idx);
        // events of the escaped-key section: the file sink's signatures name how the key arrived
        if let (Some(mode), Some(rest)) = (me.directed.as_deref().and_then(|d| d.strip_prefix("escaped-key:")), sig.strip_prefix("C13:file:")) {
            let tail = match rest {
                "line-malformed" | "not-an-object" => "line-malformed".to_string(),
                "property-count:missing" | "unexpected-key" => "value-under-a-different-key".to_string(),
                other => other.to_string(),
            };
            self.r.violation(&format!("C13:file:key-needs-escaping:{}:{}", mode, tail), &what, case);
            return;
        }
        self.r.violation(sig, &what, case);
    }
}

// ---------------------------------------------------------------------------
// calendar reference, written from the Gregorian rules and deliberately naive: it shares nothing
// with emit's `Timestamp::to_parts` / Display, so a calendar defect in emit cannot be on both
// sides of the comparison
// ---------------------------------------------------------------------------

fn is_leap(y: u64) -> bool {
    (y % 4 == 0 && y % 100 != 0) || y % 400 == 0
}

fn month_len(y: u64, m: u64) -> u64 {
    match m {
        1 | 3 | 5 | 7 | 8 | 10 | 12 => 31,
        4 | 6 | 9 | 11 => 30,
        _ => if is_leap(y) { 29 } else { 28 },
    }
}

/// (year, month, day, hour, minute, second, nanos) of an instant given as unix nanoseconds.
fn civil_of(nanos: u64) -> (u64, u64, u64, u64, u64, u64, u64) {
    let (secs, ns) = (nanos / 1_000_000_000, nanos % 1_000_000_000);
    let (mut days, sod) = (secs / 86_400, secs % 86_400);
    let mut y = 1970;
    while days >= if is_leap(y) { 366 } else { 365 } {
        days -= if is_leap(y) { 366 } else { 365 };
        y += 1;
    }
    let mut m = 1;
    while days >= month_len(y, m) {
        days -= month_len(y, m);
        m += 1;
    }
    (y, m, days + 1, sod / 3600, sod / 60 % 60, sod % 60, ns)
}

/// Unix nanoseconds of a civil date-time (1970 and later).
fn nanos_of_civil(y: u64, m: u64, d: u64, sod: u64, ns: u64) -> u64 {
    let mut days = 0;
    for yy in 1970..y {
        days += if is_leap(yy) { 366 } else { 365 };
    }
    for mm in 1..m {
        days += month_len(y, mm);
    }
    ((days + d - 1) * 86_400 + sod) * 1_000_000_000 + ns
}

/// The RFC 3339 text (nine fractional digits, as the file writer prints) of an instant.
fn ts_text(nanos: u64) -> String {
    let (y, m, d, h, mi, s, ns) = civil_of(nanos);
    format!("{:04}-{:02}-{:02}T{:02}:{:02}:{:02}.{:09}Z", y, m, d, h, mi, s, ns)
}

/// Which calendar edge an instant sits on, if any (signature tag and evidence counter).
fn edge_class(nanos: u64) -> Option<&'static str> {
    let (y, m, d, ..) = civil_of(nanos);
    let feb_end = (m == 2 && d == 28) || (m == 3 && d == 1);
    let secs = nanos / 1_000_000_000;
    Some(if m == 2 && d == 29 {
        "leap-day"
    } else if feb_end && is_leap(y) {
        "next-to-leap-day"
    } else if feb_end && y % 100 == 0 {
        "century-non-leap-february-end"
    } else if feb_end {
        "non-leap-february-end"
    } else if (m == 12 && d == 31) || (m == 1 && d == 1) {
        "year-end"
    } else if d == 1 || d == month_len(y, m) {
        "month-end"
    } else if [(1u64 << 31) - 1, 1 << 31, (1 << 32) - 1, 1 << 32].contains(&secs) {
        "unix-seconds-32-bit-edge"
    } else {
        return None;
    })
}

fn extent_edge_class(me: &ModelEvent) -> Option<&'static str> {
    if me.wild.is_some() {
        return None;
    }
    let (start, end) = me.eff_extent()?;
    edge_class(end).or(start.and_then(edge_class))
}

/// Instants on calendar edges: 28 / 29 Feb / 1 Mar of leap years (divisible by 4, by 400), of
/// ordinary and of century non-leap years, year ends, every month end of a leap and a non-leap
/// year, each at 00:00:00, 12:00:00 and 23:59:59.999999999, plus the instants at which the unix
/// seconds cross 2^31 and 2^32. All within u64 nanoseconds (before 2554).
fn calendar_pool() -> Vec<u64> {
    let mut dates: Vec<(u64, u64, u64)> = Vec::new();
    for y in [1972, 1996, 2000, 2024, 2096, 2400] {
        dates.extend([(y, 2, 28), (y, 2, 29), (y, 3, 1)]);
    }
    for y in [1970, 2023, 2100, 2101, 2200, 2300] {
        dates.extend([(y, 2, 28), (y, 3, 1)]);
    }
    for y in [1970, 1999, 2000, 2024, 2099, 2100, 2400] {
        dates.extend([(y, 1, 1), (y, 12, 31), (y + 1, 1, 1)]);
    }
    for y in [2024, 2025] {
        for m in 1..=12 {
            dates.extend([(y, m, 1), (y, m, month_len(y, m))]);
        }
    }
    let mut out: Vec<u64> = Vec::new();
    for (y, m, d) in dates {
        for (sod, ns) in [(0, 0), (12 * 3600, 0), (86_399, 999_999_999)] {
            out.push(nanos_of_civil(y, m, d, sod, ns));
        }
    }
    for secs in [(1u64 << 31) - 1, 1 << 31, (1 << 32) - 1, 1 << 32] {
        out.extend([secs * 1_000_000_000, secs * 1_000_000_000 + 999_999_999]);
    }
    out.sort();
    out.dedup();
    out
}

/// Move the event onto a calendar edge: a point extent (or the runtime's clock reading) becomes
/// the edge instant; a range keeps its length and ends at the edge, starts at it, or straddles it
/// (a span crossing midnight into a leap day). The clock moves along.
fn move_to_edge(g: &mut Rng, me: &mut ModelEvent, edge: u64) {
    if me.wild.is_some() {
        return;
    }
    match me.extent {
        Some((Some(start), end)) => {
            let len = end - start;
            let new_start = match g.below(3) {
                0 if edge >= len => edge - len,
                1 if edge >= len / 2 + 1 => edge - len / 2 - 1,
                _ => edge,
            };
            let new_end = new_start + len;
            if let Some(c) = me.clock {
                me.clock = Some((c as i128 + new_end as i128 - end as i128).max(0) as u64);
            }
            me.extent = Some((Some(new_start), new_end));
        }
        Some((None, end)) => {
            if let Some(c) = me.clock {
                me.clock = Some((c as i128 + edge as i128 - end as i128).max(0) as u64);
            }
            me.extent = Some((None, edge));
        }
        None => {
            if me.clock.is_some() {
                me.clock = Some(edge);
            }
        }
    }
}

/// One event in eight of the sections that draw ordinary events sits on a calendar edge.
fn maybe_calendar_edge(seed: u64, i: u64, me: &mut ModelEvent, always: bool) {
    let mut g = Rng::stream(seed, &[13, 9, i]);
    if always || g.chance(1, 8) {
        let pool = calendar_pool();
        let edge = if always { pool[(i as usize) % pool.len()] } else { *g.pick(&pool) };
        move_to_edge(&mut g, me, edge);
    }
}

/// Value-class tag for signatures (never random data).
fn class_of(p: &Prop) -> String {
    format!("{}:{}", p.cap.name(), p.model.shape())
}

// ---------------------------------------------------------------------------
// delivery: directly to the sink, or through a runtime with ambient context
// ---------------------------------------------------------------------------

type Tlc = emit::platform::thread_local_ctxt::ThreadLocalCtxt;

/// The hand-written macro call sites of the runtime section (`gen_macro_event` is their model).
fn macro_site<E: Emitter, F: emit::Filter, C: emit::Ctxt, T: emit::Clock, R: emit::Rng>(rt: &emit::runtime::Runtime<E, F, C, T, R>, me: &ModelEvent) {
    let get = |k: &str| &me.props.iter().find(|p| p.key == k).expect("macro site argument").model;
    let vid: &str = &me.vid;
    let int = |k: &str| match get(k) {
        M::I64(x) => *x,
        other => unreachable!("{:?}", other),
    };
    let text = |k: &str| match get(k) {
        M::Str(x) => x.as_str(),
        other => unreachable!("{:?}", other),
    };
    match me.macro_site.expect("macro site") {
        0 => {
            let (a, user) = (int("a"), text("user"));
            emit::emit!(rt, "{vid} macro emit {a}", vid, a, user);
        }
        1 => {
            let (a, data) = (int("a"), get("data"));
            emit::info!(rt, "{vid} macro info", vid, #[emit::as_serde] data, a);
        }
        2 => {
            let user = text("user");
            emit::warn!(rt, "{vid} macro warn {user}", vid, user);
        }
        3 => {
            let err = match get("err") {
                M::Error(e) => e,
                other => unreachable!("{:?}", other),
            };
            emit::error!(rt, "{vid} macro error", vid, err);
        }
        4 => {
            let (a, data) = (int("key with space"), get("data"));
            emit::debug!(rt, "{vid} macro debug", vid, #[emit::as_sval] data, #[emit::key("key with space")] k: a);
        }
        5 => {
            let a = int("a");
            let ts = me.emit_extent();
            emit::emit!(rt, extent: ts, "{vid} macro extent", vid, a);
        }
        _ => {
            let user = text("user");
            let ts = me.emit_extent();
            emit::emit!(rt, extent: ts, "{vid} macro span", vid, evt_kind: emit::Kind::Span, #[emit::as_display] user);
        }
    }
}

fn emit_through<E: Emitter, F: emit::Filter, C: emit::Ctxt + Copy, T: emit::Clock, R: emit::Rng>(rt: &emit::runtime::Runtime<E, F, C, T, R>, me: &ModelEvent, mode: u64) {
    me.with_frames(*rt.ctxt(), 0, &mut || {
        if me.macro_site.is_some() {
            macro_site(rt, me);
        } else if mode == 0 {
            me.with_event(|evt| rt.emit(evt));
        } else {
            me.with_event(|evt| emit::emit!(rt, evt));
        }
    });
}

/// Property keys that need JSON escaping (quotes, backslashes, control characters), as `'static`
/// strs, so that `Str::get_static()` is `Some` when they arrive as static keys.
const ESC_KEYS: &[&str] = &["http.request.header.\"x-request-id\"", "C:\\temp\\new", "line\nbreak", "tab\tkey", "ctl\u{1}key", "q\"and\\slash/"];

/// The escaped-key section's own delivery: the model's key reaches the sink as a static key of a
/// macro call site (`#[emit::key(..)]`), as `Str::new(..)` on hand-built props, or inherited from
/// a `ThreadLocalCtxt` frame it was pushed on as a static key. (`non-static` takes the usual path.)
fn emit_escaped_key<E: Emitter>(sink: &E, me: &ModelEvent, mode: &str) {
    let key_prop = me.effective().find(|p| ESC_KEYS.contains(&p.key.as_str())).expect("escaped key");
    let which = ESC_KEYS.iter().position(|k| *k == key_prop.key).unwrap();
    let key: &'static str = ESC_KEYS[which];
    let a = match &key_prop.model {
        M::I64(x) => *x,
        other => unreachable!("{:?}", other),
    };
    let vid: &str = &me.vid;
    let ts = me.emit_extent();
    let ctxt = Tlc::new();
    let rt = emit::runtime::Runtime::build(sink, emit::Empty, &ctxt, emit::Empty, emit::Empty);
    match mode {
        "static-key-macro" => match which {
            0 => emit::emit!(rt, extent: ts, "{vid} escaped key", vid, #[emit::key("http.request.header.\"x-request-id\"")] k: a, after: 1i32),
            1 => emit::emit!(rt, extent: ts, "{vid} escaped key", vid, #[emit::key("C:\\temp\\new")] k: a, after: 1i32),
            2 => emit::emit!(rt, extent: ts, "{vid} escaped key", vid, #[emit::key("line\nbreak")] k: a, after: 1i32),
            3 => emit::emit!(rt, extent: ts, "{vid} escaped key", vid, #[emit::key("tab\tkey")] k: a, after: 1i32),
            4 => emit::emit!(rt, extent: ts, "{vid} escaped key", vid, #[emit::key("ctl\u{1}key")] k: a, after: 1i32),
            _ => emit::emit!(rt, extent: ts, "{vid} escaped key", vid, #[emit::key("q\"and\\slash/")] k: a, after: 1i32),
        },
        "static-key-ambient" => {
            let frame = emit::Frame::push(&ctxt, [(emit::Str::new(key), emit::Value::from(a))]);
            frame.call(|| emit::emit!(rt, extent: ts, "{vid} escaped key", vid, after: 1i32));
        }
        _ => {
            let props = [(emit::Str::new("vid"), emit::Value::from(vid)), (emit::Str::new(key), emit::Value::from(a)), (emit::Str::new("after"), emit::Value::from(1i32))];
            let parts = [emit::template::Part::hole("vid"), emit::template::Part::text(" escaped key")];
            sink.emit(emit::Event::new(emit::Path::new_raw("c13"), emit::Template::new_ref(&parts), ts, &props[..]));
        }
    }
}

/// The model of event `i` of the escaped-key section.
fn escaped_key_event(seed: u64, i: u64) -> ModelEvent {
    const MODES: [&str; 4] = ["static-key", "static-key-macro", "static-key-ambient", "non-static-key"];
    let key = ESC_KEYS[i as usize % ESC_KEYS.len()];
    let mode = MODES[i as usize / ESC_KEYS.len() % MODES.len()];
    let vid = format!("v{}-escaped-key-{}", seed, i);
    let keyp = Prop::new(key, M::I64(i as i64 - 7), Cap::Typed);
    let mut props = vec![Prop::new("vid", M::Str(vid.clone()), Cap::Typed), Prop::new("after", M::I32(1), Cap::Typed)];
    let mut ambient = Vec::new();
    if mode == "static-key-ambient" {
        ambient.push(vec![keyp]);
    } else {
        props.insert(1, keyp);
    }
    ModelEvent { vid: vid.clone(), mdl: "c13".into(), parts: vec![(true, "vid".into()), (false, " escaped key".into())], extent: Some((None, BASE_NANOS + 950_000_000_000 + i)), props, kind: Kind::Log, directed: Some(format!("escaped-key:{}", mode)), ambient, clock: None, wild: None, macro_site: None }
}

/// Hand every event to `sink`, each under `catch_unwind`. With `via_rt` the events go through a
/// statically typed `Runtime` (even indices) or through the type-erased runtime of an initialised
/// `AmbientSlot` (odd indices), both with the sink as emitter, a `ThreadLocalCtxt` holding the
/// event's ambient frames and a clock reading `me.clock`.
fn deliver<E: Emitter + Send + Sync + 'static>(sink: std::sync::Arc<E>, via_rt: bool, events: &[(u64, ModelEvent)], mut before: impl FnMut(u64), mut after: impl FnMut(usize, Result<(), String>, Vec<ModelEvent>)) {
    if !via_rt {
        for (n, (idx, me)) in events.iter().enumerate() {
            before(*idx);
            let res = match me.directed.as_deref().and_then(|d| d.strip_prefix("escaped-key:")) {
                Some(mode) if mode != "non-static-key" => catch(|| emit_escaped_key(&*sink, me, mode)),
                _ => catch(|| me.with_event(|evt| sink.emit(evt))),
            };
            after(n, res, Vec::new());
        }
        return;
    }
    let clock = vcommon::rec::FakeClock::new(BASE_NANOS);
    let ctxt = Tlc::new();
    let stat = emit::runtime::Runtime::build(sink.clone(), emit::Empty, &ctxt, clock.clone(), vcommon::rec::CountingRng::new());
    let slot = emit::runtime::AmbientSlot::new();
    let init = emit::setup().emit_to(sink.clone()).with_ctxt(Tlc::new()).with_clock(clock.clone()).with_rng(vcommon::rec::CountingRng::new()).init_slot(&slot);
    let ambient = init.get();
    for (n, (idx, me)) in events.iter().enumerate() {
        clock.set(me.clock.unwrap_or(BASE_NANOS));
        before(*idx);
        // re-entrant values emit their inner events through the very runtime (and sink) that is
        // encoding the outer event, on this thread
        let res = if idx % 2 == 0 {
            let reenter = |inner: &ModelEvent| inner.with_event(|evt| stat.emit(evt));
            catch(|| with_reenter(&reenter, || emit_through(&stat, me, (idx / 2) % 2)))
        } else {
            let reenter = |inner: &ModelEvent| inner.with_event(|evt| ambient.emit(evt));
            catch(|| with_reenter(&reenter, || emit_through(ambient, me, (idx / 2) % 2)))
        };
        after(n, res, take_inner_log());
    }
}

// ---------------------------------------------------------------------------
// file sink
// ---------------------------------------------------------------------------

const FILE_FIXED: &[&str] = &["mdl", "msg", "tpl", "ts", "ts_start"];

fn check_file_line(cx: &mut Ctx, me: &ModelEvent, idx: u64, line: &str) {
    cx.r.observe("file:lines", 1);
    let compound = me.compound_key_shapes();
    let tree = match parse_json(line) {
        Ok(t) => t,
        Err(e) => {
            if let Some(shape) = compound.first() {
                cx.violation(
                    me,
                    idx,
                    &format!("C13:file:map-key:{}:malformed", shape),
                    format!("file writer emitted a malformed line for a map with {} keys ({}): {}", shape, e, clip(line)),
                );
            } else if let Some(shape) = me.tagged_key_shape() {
                cx.violation(
                    me,
                    idx,
                    &format!("C13:file:map-key:{}:malformed", shape),
                    format!("file writer emitted an unbalanced line for a map keyed by a {} followed by a labelled value ({}): {}", shape, e, clip(line)),
                );
            } else {
                cx.violation(me, idx, "C13:file:line-malformed", format!("line is not valid JSON ({}): {}", e, clip(line)));
            }
            return;
        }
    };
    if serde_json::from_str::<serde_json::Value>(line).is_err() {
        cx.r.inconclusive("harness JSON parser accepted a file line serde_json rejects");
    }
    if !compound.is_empty() {
        // the line is well-formed although a compound key was present: nothing known to compare with
        cx.r.observe("file:compound-key-line-wellformed", 1);
        return;
    }
    if !matches!(tree, JsonTree::Obj(_)) {
        cx.violation(me, idx, "C13:file:not-an-object", format!("line is not a JSON object: {}", clip(line)));
        return;
    }
    // fixed fields
    let mut fixed: Vec<(&str, Option<String>)> = vec![("mdl", Some(me.mdl.clone())), ("msg", Some(me.msg_text())), ("tpl", Some(me.tpl_text()))];
    if me.wild.is_some() {
        // hostile extents: only presence and well-formedness of the timestamps are required
        cx.r.observe("file:wild-extent-lines", 1);
        let ts_ok = tree.count("ts") == 1 && tree.get("ts").and_then(|v| v.as_str()).is_some();
        let start_n = tree.count("ts_start");
        let start_ok = if me.is_range() { start_n <= 1 } else { start_n == 0 };
        if !ts_ok || !start_ok {
            cx.violation(me, idx, "C13:file:fixed-field:wild-extent", format!("hostile extent {:?}: ts / ts_start fields are not well-formed in {}", me.wild, clip(line)));
        }
    } else {
        match me.eff_extent() {
            None => {
                fixed.push(("ts", None));
                fixed.push(("ts_start", None));
            }
            Some((start, end)) => {
                fixed.push(("ts", Some(ts_text(end))));
                fixed.push(("ts_start", start.map(ts_text)));
            }
        }
    }
    for (k, want) in fixed {
        cx.r.observe("file:fixed-field-comparisons", 1);
        let n = tree.count(k);
        let got = tree.get(k).and_then(|v| v.as_str()).map(|s| s.to_string());
        let ok = match &want {
            None => n == 0,
            Some(w) => n == 1 && got.as_deref() == Some(w.as_str()),
        };
        if !ok {
            // a timestamp text that denotes another instant than the event's (expected text from the
            // harness' own calendar), named by the calendar edge the instant sits on
            let edge = if k == "ts" { me.eff_extent().and_then(|(_, e)| edge_class(e)) } else if k == "ts_start" { me.eff_extent().and_then(|(s, _)| s).and_then(edge_class) } else { None };
            match (edge, me.wild.is_none() && want.is_some() && n == 1) {
                (Some(class), true) => cx.violation(me, idx, &format!("C13:file:timestamp-text-differs-from-the-instant:{}", class), format!("field {} is {:?} but the event's instant is {:?} (calendar reference independent of emit)", k, got, want)),
                _ => cx.violation(me, idx, &format!("C13:file:fixed-field:{}", k), format!("field {} appears {} times with value {:?}, expected {:?}", k, n, got, want)),
            }
        }
    }
    // every other property exactly once with its first value
    for k in me.keys() {
        let p = me.first(k).unwrap();
        cx.r.observe("file:property-comparisons", 1);
        let n = tree.count(k);
        if n != 1 {
            cx.violation(me, idx, &format!("C13:file:property-count:{}", if n == 0 { "missing" } else { "duplicated" }), format!("property {:?} appears {} times in the line {}", k, n, clip(line)));
            continue;
        }
        let img = match p.json_image() {
            Ok(i) => i,
            Err(_) => continue,
        };
        let got = tree.get(k).unwrap();
        let mut res = img.matches(got);
        if res.is_err() && p.model.any(&|n| matches!(n, M::UnitStruct(_))) {
            // serde and sval legitimately differ on unit structs
            if let Ok(i2) = p.model.json_image(Framework::Serde) {
                if i2.matches(got).is_ok() {
                    res = Ok(());
                }
            }
        }
        if let Err(why) = res {
            cx.violation(me, idx, &format!("C13:file:value:{}", class_of(p)), format!("property {:?} ({}) written as {} — {}", k, p.describe(), got.short(), why));
        }
    }
    for (k, _) in tree.entries() {
        if !FILE_FIXED.contains(&k.as_str()) && me.first(k).is_none() {
            cx.violation(me, idx, "C13:file:unexpected-key", format!("line has key {:?} the event does not have", k));
        }
    }
}

fn run_file(cx: &mut Ctx, dir: &str, events: &[(u64, ModelEvent)], via_rt: bool) {
    let sub = format!("{}/f", dir);
    std::fs::create_dir_all(&sub).expect("create dir");
    let set = std::sync::Arc::new(emit_file::set(format!("{}/log.txt", sub)).spawn());
    let mut emitted: Vec<usize> = Vec::new();
    let mut results: Vec<Result<(), String>> = Vec::new();
    // inner events of re-entrant values reach the file before the event that was being encoded
    let mut flat: Vec<(u64, ModelEvent)> = Vec::new();
    deliver(set.clone(), via_rt, events, |_| {}, |n, res, inner| {
        let (idx, me) = &events[n];
        if me.props.iter().any(|p| p.cap.is_noisy()) && res.is_ok() {
            cx.r.observe("file:reentrant-outer-events", 1);
            cx.r.observe("file:reentrant-inner-events", inner.len() as u64);
            if inner.is_empty() {
                cx.violation(me, *idx, "C13:file:reentrant:value-not-encoded", "the event was accepted but its re-entrant value was never encoded".into());
            }
        }
        for i in inner {
            flat.push((*idx, i));
            results.push(Ok(()));
        }
        flat.push((*idx, me.clone()));
        results.push(res);
    });
    let events = &flat[..];
    for (n, res) in results.into_iter().enumerate() {
        let (idx, me) = &events[n];
        cx.r.observe("file:events", 1);
        match res {
            Ok(()) => emitted.push(n),
            Err(p) => cx.violation(me, *idx, &format!("C13:file:panic:{}", if me.compound_key_shapes().is_empty() { if me.wild.is_some() { "wild-extent" } else { "event" } } else { "compound-key" }), format!("emit_file panicked on the caller thread: {}", p)),
        }
    }
    if !set.blocking_flush(Duration::from_secs(30)) {
        cx.r.inconclusive("emit_file did not flush within 30 s");
    }
    // how many events the file set itself says it could not format
    let format_failed: u64 = {
        use emit::metric::Source as _;
        let v = std::cell::Cell::new(0u64);
        set.metric_source().sample_metrics(emit::metric::sampler::from_fn(|m| {
            if m.name() == "event_format_failed" {
                v.set(m.value().by_ref().cast::<u64>().or_else(|| m.value().by_ref().cast::<usize>().map(|x| x as u64)).unwrap_or(u64::MAX));
            }
        }));
        v.get()
    };
    drop(set);
    let mut files: Vec<_> = std::fs::read_dir(&sub).expect("read dir").filter_map(|e| e.ok()).map(|e| e.path()).collect();
    files.sort();
    let mut lines: Vec<String> = Vec::new();
    for f in files {
        let mut text = String::new();
        match std::fs::File::open(&f).and_then(|mut fh| fh.read_to_string(&mut text)) {
            Ok(_) => {}
            Err(e) => {
                cx.r.violation("C13:file:not-utf8", &format!("file {:?} is not readable as UTF-8: {}", f, e), json!({"seed": cx.seed, "section": cx.section}));
                continue;
            }
        }
        if !text.is_empty() && !text.ends_with('\n') {
            cx.r.violation("C13:file:no-trailing-newline", "file does not end with a newline", json!({"seed": cx.seed, "section": cx.section}));
        }
        lines.extend(text.lines().map(|l| l.to_string()));
    }
    // which event does a line belong to: its `vid` (the event's own always wins), parsed or, for a
    // line that does not parse, searched for textually
    let vid_of_line = |l: &str| -> Option<String> {
        if let Ok(t) = parse_json(l) {
            return t.get("vid").and_then(|v| v.as_str()).map(|s| s.to_string());
        }
        let at = l.find("\"vid\":\"")? + 7;
        l[at..].find('"').map(|e| l[at..at + e].to_string())
    };
    let line_vids: Vec<Option<String>> = lines.iter().map(|l| vid_of_line(l)).collect();
    // lines come out in emission order: align them with the accepted events
    let mut at = 0usize;
    let mut dropped_compound = 0u64;
    let mut dropped_other = 0u64;
    for n in &emitted {
        let (idx, me) = &events[*n];
        let mine = match line_vids.get(at) {
            Some(Some(v)) => v == &me.vid,
            // an unidentifiable (truncated) line: attribute it to the next event in order
            Some(None) => true,
            None => false,
        };
        if mine && me.failing_prop().is_some() {
            // a line for an event whose value failed to format: it must at least be well-formed
            cx.r.observe("file:failing-value-events-written", 1);
            if let Err(e) = parse_json(&lines[at]) {
                cx.violation(me, *idx, "C13:file:failing-value:malformed", format!("a value that fails to format part-way left a malformed line ({}): {}", e, clip(&lines[at])));
            }
            at += 1;
            continue;
        }
        if mine {
            check_file_line(cx, me, *idx, &lines[at]);
            at += 1;
            continue;
        }
        // no line for this event
        if me.failing_prop().is_some() {
            // a value that fails to format part-way: the event fails as a whole (cb37458)
            dropped_other += 1;
            cx.r.observe("file:failing-value-events-dropped-whole", 1);
            continue;
        }
        match me.compound_key_shapes().first() {
            Some(shape) => {
                dropped_compound += 1;
                cx.violation(
                    me,
                    *idx,
                    &format!("C13:file:map-key:{}:event-dropped", shape),
                    format!("emit_file wrote nothing for an event holding a map with {} keys (JSON cannot express them; the event fails as a whole)", shape),
                );
            }
            None => {
                dropped_other += 1;
                cx.violation(me, *idx, if me.wild.is_some() { "C13:file:event-dropped:wild-extent" } else { "C13:file:event-dropped" }, "emit_file accepted the event without panic but wrote no line for it".into());
            }
        }
    }
    if at < lines.len() {
        cx.r.violation(
            "C13:file:unattributed-line",
            &format!("{} lines cannot be attributed to an emitted event, first: {}", lines.len() - at, clip(&lines[at])),
            json!({"seed": cx.seed, "section": cx.section, "first_idx": events.first().map(|e| e.0)}),
        );
    }
    cx.r.observe("file:format-failed-metric-comparisons", 1);
    if format_failed != dropped_compound + dropped_other {
        cx.r.violation(
            "C13:file:format-failed-metric",
            &format!("event_format_failed = {} but {} accepted events have no line ({} with compound map keys)", format_failed, dropped_compound + dropped_other, dropped_compound),
            json!({"seed": cx.seed, "section": cx.section, "first_idx": events.first().map(|e| e.0)}),
        );
    }
}

// ---------------------------------------------------------------------------
// OTLP sink
// ---------------------------------------------------------------------------

#[derive(Clone, Copy, PartialEq, Eq, Debug)]
enum Enc {
    Proto,
    Json,
}

impl Enc {
    fn name(self) -> &'static str {
        match self {
            Enc::Proto => "proto",
            Enc::Json => "json",
        }
    }
}

const NONFINITE_ATTR: &str = "C13:otlp:json:non-finite-float:attribute-null";
const NONFINITE_POINT: &str = "C13:otlp:json:non-finite-float:metric-point-null";

thread_local! {
    /// set while comparing with the known JSON rendering of non-finite doubles (`null`) tolerated
    static NONFINITE_NULL_OK: std::cell::Cell<bool> = const { std::cell::Cell::new(false) };
}

fn f64_matches(want: f64, got: Option<f64>) -> bool {
    match got {
        // JSON `null`: only ever tolerated for a non-finite value, and only in the lenient pass
        None => !want.is_finite() && NONFINITE_NULL_OK.with(|f| f.get()),
        Some(g) => (want.is_nan() && g.is_nan()) || want.to_bits() == g.to_bits(),
    }
}

/// `any_matches`, additionally accepting `null` where the model has a non-finite float.
fn any_matches_nonfinite_null(img: &AnyImage, got: &AnyObs, path: &str) -> Result<(), String> {
    NONFINITE_NULL_OK.with(|f| f.set(true));
    let r = any_matches(img, got, path);
    NONFINITE_NULL_OK.with(|f| f.set(false));
    r
}

fn point_matches_nonfinite_null(want: PointWant, got: &PointValue) -> bool {
    NONFINITE_NULL_OK.with(|f| f.set(true));
    let r = point_matches(want, got);
    NONFINITE_NULL_OK.with(|f| f.set(false));
    r
}

fn any_matches(img: &AnyImage, got: &AnyObs, path: &str) -> Result<(), String> {
    let bad = |why: String| Err(format!("{}: {}", path, why));
    match (img, got) {
        (AnyImage::Empty, AnyObs::Empty) => Ok(()),
        (AnyImage::Str(a), AnyObs::Str(b)) if a == b => Ok(()),
        (AnyImage::Bool(a), AnyObs::Bool(b)) if a == b => Ok(()),
        (AnyImage::Int(a), AnyObs::Int(b)) if a == b => Ok(()),
        (AnyImage::Double(a), AnyObs::Double(b)) if f64_matches(*a, *b) => Ok(()),
        (AnyImage::Bytes(a), AnyObs::Bytes(b)) if a == b => Ok(()),
        (AnyImage::Array(a), AnyObs::Array(b)) => {
            if a.len() != b.len() {
                return bad(format!("array of {} exported with {} values", a.len(), b.len()));
            }
            for (i, (x, y)) in a.iter().zip(b).enumerate() {
                any_matches(x, y, &format!("{}[{}]", path, i))?;
            }
            Ok(())
        }
        (AnyImage::KvList(a), AnyObs::Kv(b)) => {
            if a.len() != b.len() {
                return bad(format!("kvlist of {} exported with {} entries", a.len(), b.len()));
            }
            for (i, ((ka, va), (kb, vb))) in a.iter().zip(b).enumerate() {
                if !ka.matches(kb) {
                    return bad(format!("entry {} key {:?} exported as {:?}", i, ka, kb));
                }
                any_matches(va, vb, &format!("{}.{}", path, kb))?;
            }
            Ok(())
        }
        (want, got) => bad(format!("expected {} got {}", clip(&format!("{:?}", want)), clip(&format!("{:?}", got)))),
    }
}

/// Arrays without their empty (null) elements: what the protobuf encoding is observed to keep.
fn strip_img(i: &AnyImage) -> AnyImage {
    match i {
        AnyImage::Array(a) => AnyImage::Array(a.iter().filter(|e| **e != AnyImage::Empty).map(strip_img).collect()),
        AnyImage::KvList(kv) => AnyImage::KvList(kv.iter().map(|(k, v)| (k.clone(), strip_img(v))).collect()),
        other => other.clone(),
    }
}

fn strip_obs(o: &AnyObs) -> AnyObs {
    match o {
        AnyObs::Array(a) => AnyObs::Array(a.iter().filter(|e| **e != AnyObs::Empty).map(strip_obs).collect()),
        AnyObs::Kv(kv) => AnyObs::Kv(kv.iter().map(|(k, v)| (k.clone(), strip_obs(v))).collect()),
        other => other.clone(),
    }
}

fn strip_attrs(a: &Attrs) -> Attrs {
    a.iter().map(|(k, v)| (k.clone(), strip_obs(v))).collect()
}

/// proto and JSON forms of the same value denote the same thing
fn obs_equiv(a: &AnyObs, b: &AnyObs) -> bool {
    match (a, b) {
        (AnyObs::Double(x), AnyObs::Double(y)) => match (x, y) {
            (Some(x), Some(y)) => x.to_bits() == y.to_bits() || (x.is_nan() && y.is_nan()),
            (Some(x), None) | (None, Some(x)) => !x.is_finite(),
            (None, None) => true,
        },
        (AnyObs::Array(x), AnyObs::Array(y)) => x.len() == y.len() && x.iter().zip(y).all(|(p, q)| obs_equiv(p, q)),
        (AnyObs::Kv(x), AnyObs::Kv(y)) => attrs_equiv(x, y),
        (x, y) => x == y,
    }
}

fn attrs_equiv(a: &Attrs, b: &Attrs) -> bool {
    a.len() == b.len() && a.iter().zip(b).all(|((ka, va), (kb, vb))| ka == kb && obs_equiv(va, vb))
}

const LEVELS: &[(&str, i32)] = &[("debug", 5), ("info", 9), ("warn", 13), ("error", 17)];

/// `Some(level text)` if the first `lvl` value settles the level; `None` = wrong-typed (unconstrained).
fn expected_level(me: &ModelEvent) -> Option<&'static str> {
    match me.first("lvl") {
        None => Some("info"),
        Some(p) => match (&p.model, p.cap) {
            (M::Str(s), Cap::Level | Cap::Typed | Cap::Display) => LEVELS.iter().find(|(n, _)| n == s).map(|(n, _)| *n),
            _ => None,
        },
    }
}

/// `Some(bytes)` (possibly empty = absent) if settled, `None` = wrong-typed.
fn expected_id(me: &ModelEvent, key: &str, len: usize) -> Option<Vec<u8>> {
    let p = match me.first(key) {
        None => return Some(Vec::new()),
        Some(p) => p,
    };
    let textual = matches!(p.cap, Cap::TraceId | Cap::SpanId | Cap::Typed | Cap::Display);
    match &p.model {
        M::Str(s) if textual && s.len() == len * 2 && s.bytes().all(|c| c.is_ascii_hexdigit()) && s.bytes().any(|c| c != b'0') => {
            Some((0..len).map(|i| u8::from_str_radix(&s[2 * i..2 * i + 2], 16).unwrap()).collect())
        }
        M::U128(v) if len == 16 && *v != 0 && p.cap == Cap::Typed => Some(v.to_be_bytes().to_vec()),
        M::U64(v) if len == 8 && *v != 0 && p.cap == Cap::Typed => Some(v.to_be_bytes().to_vec()),
        _ => None,
    }
}

fn check_attrs(cx: &mut Ctx, me: &ModelEvent, idx: u64, enc: Enc, signal: &str, got: &Attrs, lifted: &[&str], allow_exception: bool) {
    // unique keys
    for (i, (k, _)) in got.iter().enumerate() {
        if got[..i].iter().any(|(k2, _)| k2 == k) {
            cx.violation(me, idx, &format!("C13:otlp:{}:attribute-duplicated", signal), format!("{} {}: attribute key {:?} appears more than once", enc.name(), signal, k));
        }
    }
    for k in me.keys() {
        if lifted.contains(&k) {
            continue;
        }
        let p = me.first(k).unwrap();
        let img = match p.any_image() {
            Ok(i) => i,
            Err(_) => continue,
        };
        cx.r.observe("otlp:attribute-comparisons", 1);
        match got.iter().filter(|(gk, _)| gk == k).count() {
            0 => {
                cx.violation(me, idx, &format!("C13:otlp:{}:attribute-missing", signal), format!("{} {}: property {:?} ({}) is not exported", enc.name(), signal, k, p.describe()));
                continue;
            }
            _ => {}
        }
        let g = attr(got, k).unwrap();
        if let Err(why) = any_matches(&img, g, "$") {
            if enc == Enc::Json && any_matches_nonfinite_null(&img, g, "$").is_ok() {
                cx.violation(me, idx, NONFINITE_ATTR, format!("JSON {}: property {:?} ({}) exported as {} — a non-finite float is written as `null` instead of \"NaN\" / \"Infinity\" / \"-Infinity\"", signal, k, p.describe(), clip(&format!("{:?}", g))));
                continue;
            }
            if enc == Enc::Proto && any_matches(&strip_img(&img), g, "$").is_ok() {
                cx.violation(me, idx, "C13:otlp:proto:array-null-element-dropped", format!("protobuf {}: property {:?} ({}) exported as {} — null elements of a sequence are dropped, later elements shift position ({})", signal, k, p.describe(), clip(&format!("{:?}", g)), why));
                continue;
            }
            cx.violation(me, idx, &format!("C13:otlp:{}:attribute-value:{}", signal, class_of(p)), format!("{} {}: property {:?} ({}) exported as {} — {}", enc.name(), signal, k, p.describe(), clip(&format!("{:?}", g)), why));
        }
    }
    for (k, _) in got {
        let known = me.first(k).is_some() && !lifted.contains(&k.as_str());
        let exception = allow_exception && (k == "exception.message" || k == "exception.stacktrace");
        if !known && !exception {
            cx.violation(me, idx, &format!("C13:otlp:{}:attribute-unexpected", signal), format!("{} {}: attribute {:?} does not belong to the event's ordinary properties", enc.name(), signal, k));
        }
    }
}

fn check_exception(cx: &mut Ctx, me: &ModelEvent, idx: u64, enc: Enc, signal: &str, attrs: &Attrs) {
    let p = match me.first("err") {
        Some(p) => p,
        None => return,
    };
    cx.r.observe("otlp:exception-comparisons", 1);
    if let Ok(img) = p.any_image() {
        match attr(attrs, "exception.message") {
            None => cx.violation(me, idx, &format!("C13:otlp:{}:exception-message-missing", signal), format!("{} {}: err present but no exception.message", enc.name(), signal)),
            Some(g) => {
                if let Err(why) = any_matches(&img, g, "$") {
                    if enc == Enc::Json && any_matches_nonfinite_null(&img, g, "$").is_ok() {
                        cx.violation(me, idx, NONFINITE_ATTR, format!("JSON {}: err ({}) exported as exception.message {} — a non-finite float is written as `null`", signal, p.describe(), clip(&format!("{:?}", g))));
                        return;
                    }
                    if enc == Enc::Proto && any_matches(&strip_img(&img), g, "$").is_ok() {
                        cx.violation(me, idx, "C13:otlp:proto:array-null-element-dropped", format!("protobuf {}: err ({}) exported as exception.message {} — null elements of a sequence are dropped ({})", signal, p.describe(), clip(&format!("{:?}", g)), why));
                        return;
                    }
                    cx.violation(me, idx, &format!("C13:otlp:{}:exception-message:{}", signal, class_of(p)), format!("{} {}: exception.message is {:?} — {}", enc.name(), signal, g, why));
                }
            }
        }
    }
    // an error buffered in the ambient context is not promised to keep its source chain
    if let (M::Error(e), Cap::Error, false) = (&p.model, p.cap, p.buffered) {
        let sources = &e.messages()[1..];
        match (sources.is_empty(), attr(attrs, "exception.stacktrace")) {
            (true, None) => {}
            (true, Some(g)) => cx.violation(me, idx, &format!("C13:otlp:{}:exception-stacktrace-unexpected", signal), format!("{} {}: error without sources exported with stacktrace {:?}", enc.name(), signal, g)),
            (false, Some(AnyObs::Str(s))) => {
                let mut at = 0;
                for m in sources {
                    match s[at..].find(m.as_str()) {
                        Some(p) => at += p + m.len(),
                        None => {
                            cx.violation(me, idx, &format!("C13:otlp:{}:exception-stacktrace", signal), format!("{} {}: stacktrace {:?} does not carry the source chain {:?}", enc.name(), signal, clip(s), sources));
                            break;
                        }
                    }
                }
            }
            (false, other) => cx.violation(me, idx, &format!("C13:otlp:{}:exception-stacktrace", signal), format!("{} {}: error with sources {:?} exported with stacktrace {:?}", enc.name(), signal, sources, other)),
        }
    }
}

fn check_ids(cx: &mut Ctx, me: &ModelEvent, idx: u64, enc: Enc, signal: &str, fields: &[(&str, usize, &Vec<u8>)]) {
    for (key, len, got) in fields {
        cx.r.observe("otlp:id-comparisons", 1);
        if !(got.is_empty() || got.len() == *len) {
            cx.violation(me, idx, &format!("C13:otlp:{}:id-length:{}", signal, key), format!("{} {}: {} has {} bytes", enc.name(), signal, key, got.len()));
        }
        if let Some(want) = expected_id(me, key, *len) {
            if &&want != got {
                cx.violation(me, idx, &format!("C13:otlp:{}:id:{}", signal, key), format!("{} {}: {} exported as {:02x?}, expected {:02x?}", enc.name(), signal, key, got, want));
            }
        }
    }
}

fn check_log(cx: &mut Ctx, me: &ModelEvent, idx: u64, enc: Enc, r: &LogRec) {
    let s = "logs";
    cx.r.observe("otlp:log-records", 1);
    let end = me.eff_extent().map(|e| e.1).unwrap_or(0);
    if me.wild.is_none() && (r.time != end || r.observed != end) {
        cx.violation(me, idx, "C13:otlp:logs:timestamp", format!("{} logs: time {} observed {}, expected {}", enc.name(), r.time, r.observed, end));
    }
    if r.scope != me.mdl {
        cx.violation(me, idx, "C13:otlp:logs:scope", format!("{} logs: scope {:?}, module {:?}", enc.name(), r.scope, me.mdl));
    }
    if r.body != AnyObs::Str(me.msg_text()) {
        cx.violation(me, idx, "C13:otlp:logs:body", format!("{} logs: body {:?}, rendered message {:?}", enc.name(), r.body, me.msg_text()));
    }
    if let Some(l) = expected_level(me) {
        let n = LEVELS.iter().find(|(n, _)| *n == l).unwrap().1;
        if r.severity_number != n || r.severity_text != l {
            cx.violation(me, idx, "C13:otlp:logs:severity", format!("{} logs: severity {} {:?}, expected {} {:?}", enc.name(), r.severity_number, r.severity_text, n, l));
        }
    }
    check_ids(cx, me, idx, enc, s, &[("trace_id", 16, &r.trace_id), ("span_id", 8, &r.span_id)]);
    check_attrs(cx, me, idx, enc, s, &r.attrs, &["lvl", "trace_id", "span_id", "err"], true);
    check_exception(cx, me, idx, enc, s, &r.attrs);
}

fn check_span(cx: &mut Ctx, me: &ModelEvent, idx: u64, enc: Enc, r: &SpanRec) {
    let s = "traces";
    cx.r.observe("otlp:span-records", 1);
    let (start, end) = match (me.wild, me.eff_extent()) {
        (Some((Some(_), _)), _) => (r.start, r.end),
        (None, Some((Some(a), b))) => (a, b),
        _ => {
            cx.violation(me, idx, "C13:otlp:traces:not-a-span", format!("{} traces: an event without a range extent was exported as a span", enc.name()));
            return;
        }
    };
    if r.start != start || r.end != end {
        cx.violation(me, idx, "C13:otlp:traces:timestamp", format!("{} traces: {}..{}, expected {}..{}", enc.name(), r.start, r.end, start, end));
    }
    if r.scope != me.mdl {
        cx.violation(me, idx, "C13:otlp:traces:scope", format!("{} traces: scope {:?}, module {:?}", enc.name(), r.scope, me.mdl));
    }
    let want_name = match me.first("span_name") {
        None => Some(me.msg_text()),
        Some(p) => match (&p.model, p.cap) {
            (M::Str(s), Cap::Typed | Cap::Display) => Some(s.clone()),
            _ => None,
        },
    };
    if let Some(w) = want_name {
        if r.name != w {
            cx.violation(me, idx, "C13:otlp:traces:name", format!("{} traces: name {:?}, expected {:?}", enc.name(), r.name, w));
        }
    }
    check_ids(cx, me, idx, enc, s, &[("trace_id", 16, &r.trace_id), ("span_id", 8, &r.span_id), ("span_parent", 8, &r.parent_span_id)]);
    check_attrs(cx, me, idx, enc, s, &r.attrs, &["evt_kind", "span_name", "lvl", "span_id", "span_parent", "trace_id", "err"], false);
    cx.r.observe("otlp:status-comparisons", 1);
    let code = r.status.as_ref().map(|s| s.0).unwrap_or(0);
    if me.first("err").is_some() {
        if code != 2 {
            cx.violation(me, idx, "C13:otlp:traces:status", format!("{} traces: err present but status is {:?}", enc.name(), r.status));
        }
        if r.events.len() != 1 || r.events[0].name != "exception" {
            cx.violation(me, idx, "C13:otlp:traces:exception-event", format!("{} traces: err present but events are {:?}", enc.name(), r.events.iter().map(|e| &e.name).collect::<Vec<_>>()));
        } else {
            if me.wild.is_none() && r.events[0].time != end {
                cx.violation(me, idx, "C13:otlp:traces:exception-event-time", format!("{} traces: exception event at {}, span ends {}", enc.name(), r.events[0].time, end));
            }
            check_exception(cx, me, idx, enc, s, &r.events[0].attrs);
        }
    } else {
        if !r.events.is_empty() {
            cx.violation(me, idx, "C13:otlp:traces:unexpected-event", format!("{} traces: no err but {} span events", enc.name(), r.events.len()));
        }
        match expected_level(me) {
            Some("warn") | Some("error") => {
                if code != 2 {
                    cx.violation(me, idx, "C13:otlp:traces:status", format!("{} traces: level {:?} but status {:?}", enc.name(), expected_level(me), r.status));
                }
            }
            Some(_) => {
                if code == 2 {
                    cx.violation(me, idx, "C13:otlp:traces:status", format!("{} traces: level {:?} but status {:?}", enc.name(), expected_level(me), r.status));
                }
            }
            None => {}
        }
    }
}

/// Flat numeric view of the first `metric_value`.
enum MetricValue {
    Scalar(PointWant),
    Seq(Vec<PointWant>),
    Unsettled,
}

#[derive(Clone, Copy, Debug)]
enum PointWant {
    Int(i64),
    Double(f64),
}

fn point_of(m: &M) -> Option<PointWant> {
    match m {
        M::F32(v) => Some(PointWant::Double(*v as f64)),
        M::F64(v) => Some(PointWant::Double(*v)),
        // a data point is a 64-bit signed integer or a double: integers outside i64 become doubles
        other => match other.as_int() {
            Some(Ok(i)) => Some(i64::try_from(i).map(PointWant::Int).unwrap_or(PointWant::Double(i as f64))),
            Some(Err(u)) => Some(PointWant::Double(u as f64)),
            None => None,
        },
    }
}

fn metric_value(me: &ModelEvent) -> MetricValue {
    let p = match me.first("metric_value") {
        Some(p) if p.structural() => p,
        _ => return MetricValue::Unsettled,
    };
    match &p.model {
        M::Seq(v) => match v.iter().map(point_of).collect::<Option<Vec<_>>>() {
            Some(ps) => MetricValue::Seq(ps),
            None => MetricValue::Unsettled,
        },
        other => point_of(other).map(MetricValue::Scalar).unwrap_or(MetricValue::Unsettled),
    }
}

fn point_matches(want: PointWant, got: &PointValue) -> bool {
    match (want, got) {
        (PointWant::Int(a), PointValue::Int(b)) => a == *b,
        (PointWant::Double(a), PointValue::Double(b)) => f64_matches(a, *b),
        _ => false,
    }
}

fn check_metric(cx: &mut Ctx, me: &ModelEvent, idx: u64, enc: Enc, r: &MetricRec) {
    let s = "metrics";
    cx.r.observe("otlp:metric-records", 1);
    if r.scope != me.mdl {
        cx.violation(me, idx, "C13:otlp:metrics:scope", format!("{} metrics: scope {:?}, module {:?}", enc.name(), r.scope, me.mdl));
    }
    let text_of = |key: &str| -> Option<Option<String>> {
        match me.first(key) {
            None => Some(None),
            Some(p) => match (&p.model, p.cap) {
                (M::Str(s), Cap::Typed | Cap::Display) => Some(Some(s.clone())),
                _ => None,
            },
        }
    };
    if let Some(n) = text_of("metric_name") {
        let want = n.unwrap_or_else(|| me.msg_text());
        if r.name != want {
            cx.violation(me, idx, "C13:otlp:metrics:name", format!("{} metrics: name {:?}, expected {:?}", enc.name(), r.name, want));
        }
    }
    if let Some(u) = text_of("metric_unit") {
        let want = u.unwrap_or_default();
        if r.unit != want {
            cx.violation(me, idx, "C13:otlp:metrics:unit", format!("{} metrics: unit {:?}, expected {:?} (first value wins)", enc.name(), r.unit, want));
        }
    }
    let agg = text_of("metric_agg");
    let temporality = match (me.wild, me.eff_extent()) {
        (Some((None, _)), _) => 2,
        (Some((Some(_), _)), _) => 1,
        (None, None) => 0,
        (None, Some((None, _))) => 2,
        (None, Some((Some(_), _))) => 1,
    };
    let wild = me.wild.is_some();
    let want_data = match &agg {
        Some(Some(a)) if a == "count" => Some(MetricData::Sum(temporality, true)),
        Some(Some(a)) if a == "sum" => Some(MetricData::Sum(temporality, false)),
        Some(_) => Some(MetricData::Gauge),
        None => None,
    };
    cx.r.observe("otlp:metric-data-comparisons", 1);
    if let Some(w) = &want_data {
        if &r.data != w {
            cx.violation(me, idx, "C13:otlp:metrics:data-kind", format!("{} metrics: data {:?}, expected {:?} for metric_agg {:?}", enc.name(), r.data, w, agg));
        }
    }
    let (start, end) = match me.eff_extent() {
        None => (0, 0),
        Some((None, e)) => (e, e),
        Some((Some(s), e)) => (s, e),
    };
    let is_sum = matches!(r.data, MetricData::Sum(..));
    match (metric_value(me), want_data.is_some()) {
        (MetricValue::Scalar(w), _) => {
            let zero_sum = is_sum && matches!((w, r.points.first().map(|p| &p.value)), (PointWant::Double(a), Some(PointValue::Double(Some(b)))) if a == 0.0 && *b == 0.0);
            if enc == Enc::Json && r.points.len() == 1 && !point_matches(w, &r.points[0].value) && point_matches_nonfinite_null(w, &r.points[0].value) {
                cx.violation(me, idx, NONFINITE_POINT, format!("JSON metrics: the non-finite sample {:?} is exported as a data point with \"asDouble\":null", w));
            } else if r.points.len() != 1 || !(point_matches(w, &r.points[0].value) || zero_sum) {
                cx.violation(me, idx, "C13:otlp:metrics:point-value:scalar", format!("{} metrics: points {:?}, expected one point {:?}", enc.name(), r.points.iter().map(|p| &p.value).collect::<Vec<_>>(), w));
            } else if !wild && (r.points[0].start != start || r.points[0].time != end) {
                cx.violation(me, idx, "C13:otlp:metrics:point-time", format!("{} metrics: point {}..{}, expected {}..{}", enc.name(), r.points[0].start, r.points[0].time, start, end));
            }
        }
        (MetricValue::Seq(ws), true) if !is_sum => {
            let ok = r.points.len() == ws.len() && ws.iter().zip(&r.points).all(|(w, p)| point_matches(*w, &p.value));
            let ok_lenient = r.points.len() == ws.len() && ws.iter().zip(&r.points).all(|(w, p)| point_matches_nonfinite_null(*w, &p.value));
            if !ok && enc == Enc::Json && ok_lenient {
                cx.violation(me, idx, NONFINITE_POINT, format!("JSON metrics: non-finite buckets of {:?} are exported as data points with \"asDouble\":null", ws));
            } else if !ok {
                cx.violation(me, idx, "C13:otlp:metrics:point-value:sequence", format!("{} metrics: gauge points {:?}, expected {:?}", enc.name(), r.points.iter().map(|p| &p.value).collect::<Vec<_>>(), ws));
            }
            let mut last = start;
            for p in &r.points {
                if wild {
                    break;
                }
                if p.start < last || p.time < p.start || p.time > end.max(start) {
                    cx.violation(me, idx, "C13:otlp:metrics:point-time", format!("{} metrics: point {}..{} outside / out of order in {}..{}", enc.name(), p.start, p.time, start, end));
                    break;
                }
                last = p.start;
            }
        }
        (MetricValue::Seq(ws), true) => {
            // a sum over the buckets
            // integers add exactly until a float joins; an i64 overflow is not settled by the statement
            enum Acc {
                Int(i64),
                Float(f64),
                Unsettled,
            }
            let mut acc = Acc::Int(0);
            for w in &ws {
                acc = match (acc, w) {
                    (Acc::Int(a), PointWant::Int(b)) => a.checked_add(*b).map(Acc::Int).unwrap_or(Acc::Unsettled),
                    (Acc::Int(a), PointWant::Double(b)) => Acc::Float(a as f64 + *b),
                    (Acc::Float(a), PointWant::Int(b)) => Acc::Float(a + *b as f64),
                    (Acc::Float(a), PointWant::Double(b)) => Acc::Float(a + *b),
                    (Acc::Unsettled, _) => Acc::Unsettled,
                };
            }
            let sum_nonfinite = matches!(&acc, Acc::Float(x) if !x.is_finite());
            let json_null = enc == Enc::Json && sum_nonfinite && r.points.len() == 1 && r.points[0].value == PointValue::Double(None);
            let ok = r.points.len() == 1
                && match acc {
                    Acc::Unsettled => true,
                    Acc::Int(sum) => r.points[0].value == PointValue::Int(sum),
                    Acc::Float(sum) => match &r.points[0].value {
                        PointValue::Double(Some(g)) if sum.is_finite() => (g - sum).abs() <= 1e-9 * sum.abs().max(1.0),
                        PointValue::Double(Some(g)) => !g.is_finite(),
                        // JSON `null`: never a faithful double
                        PointValue::Double(None) => false,
                        _ => false,
                    },
                };
            if json_null {
                cx.violation(me, idx, NONFINITE_POINT, format!("JSON metrics: the non-finite sum over {:?} is exported as a data point with \"asDouble\":null", ws));
            } else if !ok {
                cx.violation(me, idx, "C13:otlp:metrics:point-value:sum", format!("{} metrics: sum points {:?} for buckets {:?}", enc.name(), r.points.iter().map(|p| &p.value).collect::<Vec<_>>(), ws));
            }
        }
        _ => {}
    }
    if enc == Enc::Json && r.points.iter().any(|p| p.value_field == "value") {
        cx.violation(me, idx, "C13:otlp:json:metrics:data-point-value-field", format!("JSON metrics: the data point value is written under \"value\" instead of asInt / asDouble: {:?}", r.points.iter().map(|p| (&p.value_field, &p.value)).collect::<Vec<_>>()));
    }
    for (i, p) in r.points.iter().enumerate() {
        if i > 0 && !attrs_equiv(&p.attrs, &r.points[0].attrs) {
            cx.violation(me, idx, "C13:otlp:metrics:point-attributes-differ", format!("{} metrics: point {} carries different attributes", enc.name(), i));
        }
    }
    if let Some(p) = r.points.first() {
        check_attrs(cx, me, idx, enc, s, &p.attrs, &["metric_name", "metric_value", "metric_agg", "metric_unit", "span_id", "span_parent", "trace_id", "evt_kind"], false);
    }
}

/// Do the two encodings' records for one event denote the same thing? `strip`: ignore null array elements.
fn found_equiv(a: &Found, b: &Found, strip: bool) -> bool {
    let at = |x: &Attrs, y: &Attrs| if strip { attrs_equiv(&strip_attrs(x), &strip_attrs(y)) } else { attrs_equiv(x, y) };
    match (a.logs.first(), b.logs.first(), a.spans.first(), b.spans.first(), a.metrics.first(), b.metrics.first()) {
        (Some(x), Some(y), ..) => {
            // everything but the values that may hold NaN (never equal to itself) field by field
            let (mut x2, mut y2) = ((*x).clone(), (*y).clone());
            for r in [&mut x2, &mut y2] {
                r.attrs.clear();
                r.body = AnyObs::Empty;
            }
            x2 == y2 && at(&x.attrs, &y.attrs) && obs_equiv(&x.body, &y.body)
        }
        (_, _, Some(x), Some(y), ..) => {
            let (mut x2, mut y2) = ((*x).clone(), (*y).clone());
            for r in [&mut x2, &mut y2] {
                r.attrs.clear();
                r.events.clear();
            }
            x2 == y2 && at(&x.attrs, &y.attrs) && x.events.len() == y.events.len() && x.events.iter().zip(&y.events).all(|(p, q)| p.name == q.name && p.time == q.time && at(&p.attrs, &q.attrs))
        }
        (_, _, _, _, Some(x), Some(y)) => {
            x.scope == y.scope
                && x.name == y.name
                && x.unit == y.unit
                && x.data == y.data
                && x.points.len() == y.points.len()
                && x.points.iter().zip(&y.points).all(|(p, q)| {
                    p.start == q.start
                        && p.time == q.time
                        && at(&p.attrs, &q.attrs)
                        && match (&p.value, &q.value) {
                            (PointValue::Double(a), PointValue::Double(b)) => obs_equiv(&AnyObs::Double(*a), &AnyObs::Double(*b)),
                            (a, b) => a == b,
                        }
                })
        }
        _ => false,
    }
}

#[derive(Default)]
struct Found<'a> {
    logs: Vec<&'a LogRec>,
    spans: Vec<&'a SpanRec>,
    metrics: Vec<&'a MetricRec>,
}

fn find_records<'a>(d: &'a Decoded, vid: &str) -> Found<'a> {
    Found {
        logs: d.logs.iter().filter(|r| vid_of(&r.attrs) == Some(vid)).collect(),
        spans: d.spans.iter().filter(|r| vid_of(&r.attrs) == Some(vid)).collect(),
        metrics: d.metrics.iter().filter(|r| r.points.iter().any(|p| vid_of(&p.attrs) == Some(vid))).collect(),
    }
}

fn run_otlp(cx: &mut Ctx, collector: &Collector, batch: &str, events: &[(u64, ModelEvent)], dump: bool, via_rt: bool) {
    let mut decoded: BTreeMap<&'static str, Decoded> = BTreeMap::new();
    let mut panicked: BTreeMap<(&'static str, usize), String> = BTreeMap::new();
    let mut inner_events: BTreeMap<(&'static str, usize), Vec<ModelEvent>> = BTreeMap::new();
    for enc in [Enc::Proto, Enc::Json] {
        let base = format!("/{}/{}", batch, enc.name());
        let resource = [("service.name", emit::Value::from("c13")), ("run", emit::Value::from(13))];
        let otlp = match enc {
            Enc::Proto => emit_otlp::new()
                .resource(&resource[..])
                .logs(emit_otlp::logs_proto(emit_otlp::http(collector.url(&format!("{}/v1/logs", base))).allow_compression(false)))
                .traces(emit_otlp::traces_proto(emit_otlp::http(collector.url(&format!("{}/v1/traces", base))).allow_compression(false)))
                .metrics(emit_otlp::metrics_proto(emit_otlp::http(collector.url(&format!("{}/v1/metrics", base))).allow_compression(false)))
                .spawn(),
            Enc::Json => emit_otlp::new()
                .resource(&resource[..])
                .logs(emit_otlp::logs_json(emit_otlp::http(collector.url(&format!("{}/v1/logs", base))).allow_compression(false)))
                .traces(emit_otlp::traces_json(emit_otlp::http(collector.url(&format!("{}/v1/traces", base))).allow_compression(false)))
                .metrics(emit_otlp::metrics_json(emit_otlp::http(collector.url(&format!("{}/v1/metrics", base))).allow_compression(false)))
                .spawn(),
        };
        let otlp = std::sync::Arc::new(otlp);
        cx.r.observe(&format!("otlp:{}:events", enc.name()), events.len() as u64);
        deliver(otlp.clone(), via_rt, events, |_| {}, |n, res, inner| {
            let (idx, me) = &events[n];
            if me.props.iter().any(|p| p.cap.is_noisy()) && res.is_ok() {
                cx.r.observe(&format!("otlp:{}:reentrant-outer-events", enc.name()), 1);
                cx.r.observe(&format!("otlp:{}:reentrant-inner-events", enc.name()), inner.len() as u64);
                if inner.is_empty() {
                    cx.violation(me, *idx, &format!("C13:otlp:{}:reentrant:value-not-encoded", enc.name()), "the event was accepted but its re-entrant value was never encoded".into());
                }
            }
            if let Err(p) = res {
                panicked.insert((enc.name(), n), p);
            }
            inner_events.insert((enc.name(), n), inner);
        });
        if !otlp.blocking_flush(Duration::from_secs(30)) {
            cx.r.inconclusive(format!("emit_otlp ({}) did not flush within 30 s", enc.name()));
        }
        if dump {
            eprintln!("metrics after flush: {:?}", {
                use emit::metric::Source as _;
                let v = std::cell::RefCell::new(Vec::new());
                otlp.metric_source().sample_metrics(emit::metric::sampler::from_fn(|m| { v.borrow_mut().push(format!("{}={}", m.name(), m.value())); }));
                v
            });
        }
        drop(otlp);
        let mut d = Decoded::default();
        for req in collector.take_prefix(&base) {
            cx.r.observe(&format!("otlp:{}:requests", enc.name()), 1);
            if dump {
                match enc {
                    Enc::Json => eprintln!("JSON {} {}", req.path, String::from_utf8_lossy(&req.body)),
                    Enc::Proto => eprintln!("PROTO {} {} bytes", req.path, req.body.len()),
                }
            }
            let want_ct = if enc == Enc::Proto { "application/x-protobuf" } else { "application/json" };
            if req.content_type != want_ct {
                cx.r.violation("C13:otlp:content-type", &format!("{} request to {} carries content-type {:?}", enc.name(), req.path, req.content_type), json!({"seed": cx.seed, "section": cx.section, "batch": batch}));
            }
            let res = match enc {
                Enc::Proto => decode_proto(&req.path, &req.body, &mut d),
                Enc::Json => decode_json(&req.path, &req.body, &mut d),
            };
            if let Err(e) = res {
                let sig = format!("C13:otlp:{}:request-undecodable:{}", enc.name(), req.path.rsplit('/').next().unwrap_or(""));
                cx.r.violation(&sig, &format!("{} request to {} does not decode: {}", enc.name(), req.path, clip(&e)), json!({"seed": cx.seed, "section": cx.section, "batch": batch, "first_idx": events.first().map(|e| e.0)}));
            }
        }
        for res in &d.resources {
            cx.r.observe("otlp:resource-comparisons", 1);
            let mut sorted = res.clone();
            sorted.sort_by(|a, b| a.0.cmp(&b.0));
            if sorted != vec![("run".to_string(), AnyObs::Int(13)), ("service.name".to_string(), AnyObs::Str("c13".into()))] {
                cx.r.violation(&format!("C13:otlp:{}:resource", enc.name()), &format!("{}: resource attributes exported as {:?}", enc.name(), res), json!({"seed": cx.seed, "section": cx.section, "batch": batch}));
            }
        }
        decoded.insert(enc.name(), d);
    }

    // the inner events of re-entrant values: exported like any other event
    for ((enc_name, n), inners) in &inner_events {
        let enc = if *enc_name == "proto" { Enc::Proto } else { Enc::Json };
        let idx = events[*n].0;
        for inner in inners {
            let f = find_records(&decoded[enc_name], &inner.vid);
            let total = f.logs.len() + f.spans.len() + f.metrics.len();
            if total != 1 {
                cx.violation(inner, idx, &format!("C13:otlp:{}:reentrant:inner-record-count:{}", enc_name, if total == 0 { "missing" } else { "duplicated" }), format!("{}: the event emitted while another event was being encoded is found in {} records", enc_name, total));
                continue;
            }
            for r in &f.logs {
                check_log(cx, inner, idx, enc, r);
            }
            for r in &f.spans {
                check_span(cx, inner, idx, enc, r);
            }
            for r in &f.metrics {
                check_metric(cx, inner, idx, enc, r);
            }
        }
    }
    for (n, (idx, me)) in events.iter().enumerate() {
        let compound: Vec<&str> = me.compound_key_shapes().into_iter().filter(|s| OTLP_PANIC_SHAPES.contains(s)).collect();
        let mut per_enc: Vec<(Enc, Found)> = Vec::new();
        for enc in [Enc::Proto, Enc::Json] {
            if let Some(p) = panicked.get(&(enc.name(), n)) {
                if let Some(shape) = compound.first() {
                    cx.violation(me, *idx, &format!("C13:otlp:map-key:{}:panic", shape), format!("emit_otlp ({}) panicked on the caller thread for a map with {} keys: {}", enc.name(), shape, p));
                } else if me.wild.is_some() {
                    cx.violation(me, *idx, &format!("C13:otlp:{}:panic:wild-extent:{:?}", enc.name(), me.kind), format!("emit_otlp ({}) panicked on the caller thread for a hostile extent {:?}: {}", enc.name(), me.wild, p));
                } else {
                    cx.violation(me, *idx, &format!("C13:otlp:{}:panic", enc.name()), format!("emit_otlp ({}) panicked on the caller thread: {}", enc.name(), p));
                }
                continue;
            }
            if !compound.is_empty() {
                cx.r.observe("otlp:compound-key-event-accepted", 1);
                continue;
            }
            if enc == Enc::Json && decoded[enc.name()].bytes_as_array && me.keys().iter().any(|k| { let p = me.first(k).unwrap(); p.structural() && p.model.any(&|n| matches!(n, M::Bytes(_))) }) {
                cx.violation(me, *idx, "C13:otlp:json:bytes-value-not-base64", "JSON: a bytesValue is written as an array of numbers instead of base64 text".into());
            }
            let f = find_records(&decoded[enc.name()], &me.vid);
            let total = f.logs.len() + f.spans.len() + f.metrics.len();
            if total != 1 {
                cx.violation(me, *idx, &format!("C13:otlp:{}:record-count:{}", enc.name(), if total == 0 { "missing" } else { "duplicated" }), format!("{}: event found in {} records (logs {}, spans {}, metrics {})", enc.name(), total, f.logs.len(), f.spans.len(), f.metrics.len()));
                continue;
            }
            for r in &f.logs {
                check_log(cx, me, *idx, enc, r);
            }
            for r in &f.spans {
                check_span(cx, me, *idx, enc, r);
            }
            for r in &f.metrics {
                check_metric(cx, me, *idx, enc, r);
            }
            per_enc.push((enc, f));
        }
        // the JSON form denotes the same record as the protobuf form
        if per_enc.len() == 2 {
            cx.r.observe("otlp:proto-json-comparisons", 1);
            let (a, b) = (&per_enc[0].1, &per_enc[1].1);
            let same = found_equiv(a, b, false);
            let only_nulls = !same && found_equiv(a, b, true);
            if only_nulls {
                cx.r.observe("otlp:proto-json-differ-only-by-dropped-null-elements", 1);
            } else if !same {
                cx.violation(me, *idx, "C13:otlp:proto-json-differ", format!("protobuf and JSON exports of the same event denote different records: {} vs {}", clip(&format!("{:?}", (a.logs.first(), a.spans.first(), a.metrics.first()))), clip(&format!("{:?}", (b.logs.first(), b.spans.first(), b.metrics.first())))));
            }
            let signal = if !a.logs.is_empty() { "logs" } else if !a.spans.is_empty() { "traces" } else { "metrics" };
            cx.r.observe(&format!("otlp:landed:{:?}->{}", me.kind, signal), 1);
        }
    }
}


// ---------------------------------------------------------------------------
// OTLP: one instance whose signals use different encodings, with / without a rich resource
// ---------------------------------------------------------------------------

#[derive(Clone, Copy, Debug)]
struct MixCfg {
    logs: Enc,
    traces: Enc,
    metrics: Enc,
    rich_resource: bool,
}

impl MixCfg {
    fn enc_of(&self, signal: &str) -> Enc {
        match signal {
            "logs" => self.logs,
            "traces" => self.traces,
            _ => self.metrics,
        }
    }

    fn complement(&self) -> MixCfg {
        let flip = |e: Enc| if e == Enc::Proto { Enc::Json } else { Enc::Proto };
        MixCfg { logs: flip(self.logs), traces: flip(self.traces), metrics: flip(self.metrics), rich_resource: self.rich_resource }
    }

    fn name(&self) -> String {
        format!("logs-{}+traces-{}+metrics-{}+{}", self.logs.name(), self.traces.name(), self.metrics.name(), if self.rich_resource { "resource" } else { "no-resource" })
    }
}

/// What every request of an instance with the rich resource must carry (sorted by key).
fn rich_resource_expected() -> Attrs {
    let mut v: Attrs = vec![
        ("service.name".into(), AnyObs::Str("c13-é ✓".into())),
        ("run".into(), AnyObs::Int(13)),
        ("debug".into(), AnyObs::Bool(true)),
        ("ratio".into(), AnyObs::Double(Some(0.5))),
        ("tags".into(), AnyObs::Array(vec![AnyObs::Int(1), AnyObs::Int(2), AnyObs::Int(3)])),
        ("big".into(), AnyObs::Str(u64::MAX.to_string())),
        ("ключ".into(), AnyObs::Str("значение".into())),
        ("m".into(), AnyObs::Kv(vec![("a".into(), AnyObs::Int(1)), ("b".into(), AnyObs::Str("two".into()))])),
    ];
    v.sort_by(|a, b| a.0.cmp(&b.0));
    v
}

fn spawn_mixed(collector: &Collector, base: &str, cfg: &MixCfg) -> emit_otlp::Otlp {
    let t = |signal: &str| emit_otlp::http(collector.url(&format!("{}/v1/{}", base, signal))).allow_compression(false);
    let mut b = emit_otlp::new();
    if cfg.rich_resource {
        let tags = [1, 2, 3];
        let mut m = std::collections::BTreeMap::new();
        m.insert("a", M::I32(1));
        m.insert("b", M::Str("two".into()));
        let resource = [
            ("service.name", emit::Value::from("c13-é ✓")),
            ("run", emit::Value::from(13)),
            ("debug", emit::Value::from(true)),
            ("ratio", emit::Value::from(0.5)),
            ("tags", emit::Value::from(&tags)),
            ("big", emit::Value::from(u64::MAX)),
            ("ключ", emit::Value::from("значение")),
            ("m", emit::Value::from_serde(&m)),
        ];
        b = b.resource(&resource[..]);
    }
    b = b.logs(if cfg.logs == Enc::Proto { emit_otlp::logs_proto(t("logs")) } else { emit_otlp::logs_json(t("logs")) });
    b = b.traces(if cfg.traces == Enc::Proto { emit_otlp::traces_proto(t("traces")) } else { emit_otlp::traces_json(t("traces")) });
    b = b.metrics(if cfg.metrics == Enc::Proto { emit_otlp::metrics_proto(t("metrics")) } else { emit_otlp::metrics_json(t("metrics")) });
    b.spawn()
}

fn run_otlp_mixed(cx: &mut Ctx, collector: &Collector, batch: &str, b: u64, events: &[(u64, ModelEvent)]) {
    // the six mixes in which not all signals share an encoding; the second instance is the complement,
    // so every event is exported once in protobuf and once in JSON and the two can be compared
    let bits = 1 + (b % 6);
    let pick = |bit: u64| if bits & bit != 0 { Enc::Json } else { Enc::Proto };
    let cfg_a = MixCfg { logs: pick(1), traces: pick(2), metrics: pick(4), rich_resource: (b / 6) % 2 == 0 };
    let cfgs = [("a", cfg_a), ("b", cfg_a.complement())];
    // which signal uses the instance first
    let first_kind = [Kind::Span, Kind::Log, Kind::Metric][((b / 12) % 3) as usize];
    let mut ordered: Vec<(u64, ModelEvent)> = events.to_vec();
    if let Some(pos) = ordered.iter().position(|(_, e)| e.kind == first_kind) {
        ordered.swap(0, pos);
    }
    let events = &ordered[..];
    cx.r.observe(&format!("otlp:mixed:config:{}", cfg_a.name()), 1);
    cx.r.observe(&format!("otlp:mixed:first-signal:{:?}", first_kind), 1);
    let batch_case = json!({"seed": cx.seed, "section": cx.section, "batch": batch, "config": cfg_a.name(), "first_idx": events.first().map(|e| e.0)});

    let mut decoded: Vec<Decoded> = Vec::new();
    let mut panicked: BTreeMap<(usize, usize), String> = BTreeMap::new();
    for (k, (label, cfg)) in cfgs.iter().enumerate() {
        let base = format!("/{}/mix-{}", batch, label);
        let otlp = std::sync::Arc::new(spawn_mixed(collector, &base, cfg));
        cx.r.observe("otlp:mixed:events", events.len() as u64);
        deliver(otlp.clone(), false, events, |_| {}, |n, res, _| {
            if let Err(p) = res {
                panicked.insert((k, n), p);
            }
        });
        if !otlp.blocking_flush(Duration::from_secs(30)) {
            cx.r.inconclusive("emit_otlp (mixed encodings) did not flush within 30 s");
        }
        drop(otlp);
        let mut d = Decoded::default();
        let want_resource = if cfg.rich_resource { rich_resource_expected() } else { Vec::new() };
        for req in collector.take_prefix(&base) {
            let signal = req.path.rsplit('/').next().unwrap_or("").to_string();
            let enc = cfg.enc_of(&signal);
            cx.r.observe(&format!("otlp:mixed:requests:{}:{}", signal, enc.name()), 1);
            let want_ct = if enc == Enc::Proto { "application/x-protobuf" } else { "application/json" };
            if req.content_type != want_ct {
                cx.r.violation(&format!("C13:otlp:mixed-encodings:{}:content-type", signal), &format!("instance {}: the {} request carries content-type {:?}, its signal is configured for {}", cfg.name(), signal, req.content_type, enc.name()), batch_case.clone());
            }
            let before = d.resources.len();
            let res = match enc {
                Enc::Proto => decode_proto(&req.path, &req.body, &mut d),
                Enc::Json => decode_json(&req.path, &req.body, &mut d),
            };
            if let Err(e) = res {
                cx.r.violation(&format!("C13:otlp:mixed-encodings:{}:request-undecodable", signal), &format!("instance {}: the {} request does not decode as {}: {}", cfg.name(), signal, enc.name(), clip(&e)), batch_case.clone());
                continue;
            }
            if d.resources.len() == before {
                cx.r.violation(&format!("C13:otlp:mixed-encodings:{}:no-resource-element", signal), &format!("instance {}: the {} request has no Resource* element", cfg.name(), signal), batch_case.clone());
            }
            for res in &d.resources[before..] {
                cx.r.observe("otlp:mixed:resource-comparisons", 1);
                let mut sorted = res.clone();
                sorted.sort_by(|a, b| a.0.cmp(&b.0));
                if !attrs_equiv(&sorted, &want_resource) {
                    cx.r.violation(
                        &format!("C13:otlp:mixed-encodings:{}:resource", signal),
                        &format!("instance {}: the {} request ({}) carries resource attributes {}, configured {}", cfg.name(), signal, enc.name(), clip(&format!("{:?}", sorted)), clip(&format!("{:?}", want_resource))),
                        batch_case.clone(),
                    );
                }
            }
        }
        decoded.push(d);
    }

    for (n, (idx, me)) in events.iter().enumerate() {
        let mut found: Vec<(Enc, Found)> = Vec::new();
        for (k, (_, cfg)) in cfgs.iter().enumerate() {
            if let Some(p) = panicked.get(&(k, n)) {
                cx.violation(me, *idx, "C13:otlp:mixed-encodings:panic", format!("emit_otlp (instance {}) panicked on the caller thread: {}", cfg.name(), p));
                continue;
            }
            let f = find_records(&decoded[k], &me.vid);
            let total = f.logs.len() + f.spans.len() + f.metrics.len();
            if total != 1 {
                cx.violation(me, *idx, &format!("C13:otlp:mixed-encodings:record-count:{}", if total == 0 { "missing" } else { "duplicated" }), format!("instance {}: event found in {} records (logs {}, spans {}, metrics {})", cfg.name(), total, f.logs.len(), f.spans.len(), f.metrics.len()));
                continue;
            }
            let signal = if !f.logs.is_empty() { "logs" } else if !f.spans.is_empty() { "traces" } else { "metrics" };
            let enc = cfg.enc_of(signal);
            cx.r.observe(&format!("otlp:mixed:records:{}:{}", signal, enc.name()), 1);
            if enc == Enc::Json && decoded[k].bytes_as_array && me.keys().iter().any(|key| { let p = me.first(key).unwrap(); p.structural() && p.model.any(&|x| matches!(x, M::Bytes(_))) }) {
                cx.violation(me, *idx, "C13:otlp:json:bytes-value-not-base64", "JSON: a bytesValue is written as an array of numbers instead of base64 text".into());
            }
            for r in &f.logs {
                check_log(cx, me, *idx, enc, r);
            }
            for r in &f.spans {
                check_span(cx, me, *idx, enc, r);
            }
            for r in &f.metrics {
                check_metric(cx, me, *idx, enc, r);
            }
            found.push((enc, f));
        }
        // the two instances export the same event in the two encodings
        if found.len() == 2 && found[0].0 != found[1].0 {
            cx.r.observe("otlp:mixed:proto-json-comparisons", 1);
            let (pi, ji) = if found[0].0 == Enc::Proto { (0, 1) } else { (1, 0) };
            let (a, bb) = (&found[pi].1, &found[ji].1);
            if !found_equiv(a, bb, false) && !found_equiv(a, bb, true) {
                let signal = if !a.logs.is_empty() { "logs" } else if !a.spans.is_empty() { "traces" } else { "metrics" };
                cx.violation(me, *idx, &format!("C13:otlp:mixed-encodings:{}:proto-json-differ", signal), format!("the protobuf and JSON exports of the same event by complementary instances denote different records: {} vs {}", clip(&format!("{:?}", (a.logs.first(), a.spans.first(), a.metrics.first()))), clip(&format!("{:?}", (bb.logs.first(), bb.spans.first(), bb.metrics.first())))));
            }
        }
    }
}


// ---------------------------------------------------------------------------
// values whose formatting fails part-way, between ordinary events of the same batch
// ---------------------------------------------------------------------------

const LIFTED_ANYWHERE: &[&str] = &["lvl", "trace_id", "span_id", "span_parent", "err", "evt_kind", "span_name", "metric_name", "metric_value", "metric_agg", "metric_unit"];

fn expected_signal(me: &ModelEvent) -> &'static str {
    match me.kind {
        Kind::Log => "logs",
        Kind::Span => "traces",
        Kind::Metric => "metrics",
    }
}

fn run_otlp_failing(cx: &mut Ctx, collector: &Collector, batch: &str, events: &[(u64, ModelEvent)], dump: bool) {
    for enc in [Enc::Proto, Enc::Json] {
        let base = format!("/{}/fail-{}", batch, enc.name());
        let t = |signal: &str| emit_otlp::http(collector.url(&format!("{}/v1/{}", base, signal))).allow_compression(false);
        let otlp = match enc {
            Enc::Proto => emit_otlp::new().logs(emit_otlp::logs_proto(t("logs"))).traces(emit_otlp::traces_proto(t("traces"))).metrics(emit_otlp::metrics_proto(t("metrics"))).spawn(),
            Enc::Json => emit_otlp::new().logs(emit_otlp::logs_json(t("logs"))).traces(emit_otlp::traces_json(t("traces"))).metrics(emit_otlp::metrics_json(t("metrics"))).spawn(),
        };
        let otlp = std::sync::Arc::new(otlp);
        let mut panicked: BTreeMap<usize, String> = BTreeMap::new();
        deliver(otlp.clone(), false, events, |_| {}, |n, res, _| {
            if let Err(p) = res {
                panicked.insert(n, p);
            }
        });
        if !otlp.blocking_flush(Duration::from_secs(30)) {
            cx.r.inconclusive("emit_otlp (failing values) did not flush within 30 s");
        }
        let discarded: u64 = {
            use emit::metric::Source as _;
            let v = std::cell::Cell::new(u64::MAX);
            otlp.metric_source().sample_metrics(emit::metric::sampler::from_fn(|m| {
                if m.name() == "event_discarded" {
                    v.set(m.value().by_ref().cast::<u64>().or_else(|| m.value().by_ref().cast::<usize>().map(|x| x as u64)).unwrap_or(u64::MAX));
                }
            }));
            v.get()
        };
        let mut absent_failing = 0u64;
        drop(otlp);
        let batch_case = json!({"seed": cx.seed, "section": cx.section, "batch": batch, "first_idx": events.first().map(|e| e.0)});
        // (2) every request stays decodable
        let mut d = Decoded::default();
        for req in collector.take_prefix(&base) {
            let signal = req.path.rsplit('/').next().unwrap_or("").to_string();
            cx.r.observe(&format!("failing:otlp:{}:{}:requests", enc.name(), signal), 1);
            let res = match enc {
                Enc::Proto => decode_proto(&req.path, &req.body, &mut d),
                Enc::Json => decode_json(&req.path, &req.body, &mut d),
            };
            if dump {
                eprintln!("BODY {} {} {:?}", enc.name(), req.path, String::from_utf8_lossy(&req.body));
            }
            if let Err(e) = res {
                let mut case = batch_case.clone();
                case["body"] = json!(clip(&String::from_utf8_lossy(&req.body)));
                cx.r.violation(&format!("C13:otlp:failing-value:{}:{}:request-undecodable", enc.name(), signal), &format!("a batch holding an event with a part-way failing value: the {} {} request does not decode: {}", enc.name(), signal, clip(&e)), case);
            }
        }
        for (n, (idx, me)) in events.iter().enumerate() {
            let failing = me.failing_prop();
            // (1) no panic on the caller thread
            if let Some(p) = panicked.get(&n) {
                match failing {
                    Some(fp) => cx.violation(me, *idx, &format!("C13:otlp:failing-value:{}:{}:panic", enc.name(), expected_signal(me)), format!("emit_otlp ({}) panicked on the caller thread for a value whose {} fails part-way: {}", enc.name(), fp.cap.name(), p)),
                    None => cx.violation(me, *idx, &format!("C13:otlp:{}:panic", enc.name()), format!("emit_otlp ({}) panicked on the caller thread: {}", enc.name(), p)),
                }
                continue;
            }
            let f = find_records(&d, &me.vid);
            let total = f.logs.len() + f.spans.len() + f.metrics.len();
            let fp = match failing {
                None => {
                    // (3) the ordinary neighbours are exported exactly once and faithful
                    cx.r.observe(&format!("failing:otlp:{}:neighbours", enc.name()), 1);
                    if total != 1 {
                        cx.violation(me, *idx, &format!("C13:otlp:failing-value:{}:{}:neighbours-{}", enc.name(), expected_signal(me), if total == 0 { "lost" } else { "duplicated" }), format!("{}: an ordinary event in a batch that also holds a part-way failing value is found in {} records", enc.name(), total));
                        continue;
                    }
                    for r in &f.logs {
                        check_log(cx, me, *idx, enc, r);
                    }
                    for r in &f.spans {
                        check_span(cx, me, *idx, enc, r);
                    }
                    for r in &f.metrics {
                        check_metric(cx, me, *idx, enc, r);
                    }
                    continue;
                }
                Some(fp) => fp,
            };
            // (4) the failing event itself: observed, classified from the model
            let end = me.eff_extent().map(|e| e.1).unwrap_or(0);
            let by_time_logs: Vec<&LogRec> = d.logs.iter().filter(|r| r.time == end).collect();
            let by_time_spans: Vec<&SpanRec> = d.spans.iter().filter(|r| r.end == end).collect();
            let by_time_metrics: Vec<&MetricRec> = d.metrics.iter().filter(|r| r.points.iter().any(|p| p.time == end)).collect();
            let attrs: Option<(&'static str, Attrs)> = by_time_logs
                .first()
                .map(|r| ("logs", r.attrs.clone()))
                .or(by_time_spans.first().map(|r| ("traces", r.attrs.clone())))
                .or(by_time_metrics.first().map(|r| ("metrics", r.points[0].attrs.clone())));
            let label = me.directed.clone().unwrap_or_default();
            cx.r.observe("failing:otlp:failing-events", 1);
            match &attrs {
                // absent as a whole: fine, the discard counter accounts for it below
                None => {
                    absent_failing += 1;
                    cx.r.observe(&format!("failing:otlp:{}:{}:absent-as-a-whole", enc.name(), expected_signal(me)), 1);
                }
                // present: a well-formed record whose remaining attributes are faithful
                Some((signal, attrs)) => {
                    cx.r.observe(&format!("failing:otlp:{}:{}:present-without-the-failing-attribute", enc.name(), signal), 1);
                    if let Some(v) = attr(attrs, "bad") {
                        let what = match v {
                            AnyObs::Empty => "key-without-value",
                            _ => "half-written-attribute",
                        };
                        cx.violation(me, *idx, &format!("C13:otlp:failing-value:{}:{}:{}", enc.name(), signal, what), format!("{} {}: the value that failed to format ({}) is exported as {} in a record presented as complete", enc.name(), signal, label, clip(&format!("{:?}", v))));
                    }
                    let expected: Vec<&str> = me.keys().into_iter().filter(|k| *k != "bad" && !LIFTED_ANYWHERE.contains(k)).collect();
                    let missing: Vec<&str> = expected.iter().copied().filter(|k| attr(attrs, k).is_none()).collect();
                    if !missing.is_empty() {
                        cx.violation(me, *idx, &format!("C13:otlp:failing-value:{}:{}:later-attributes-dropped", enc.name(), signal), format!("{} {}: the record of an event with a failing value ({}) is presented as complete but lacks attributes {:?}", enc.name(), signal, label, missing));
                    } else {
                        // the attributes that are there are the model's
                        let lifted: &[&str] = match *signal {
                            "logs" => &["lvl", "trace_id", "span_id", "err"],
                            "traces" => &["evt_kind", "span_name", "lvl", "span_id", "span_parent", "trace_id", "err"],
                            _ => &["metric_name", "metric_value", "metric_agg", "metric_unit", "span_id", "span_parent", "trace_id", "evt_kind"],
                        };
                        check_attrs(cx, me, *idx, enc, signal, attrs, lifted, *signal == "logs");
                    }
                }
            }
            let _ = fp;
        }
        // an event that no signal could encode is counted as discarded, nothing else is
        cx.r.observe("failing:otlp:discard-counter-comparisons", 1);
        if discarded != absent_failing {
            cx.r.violation(
                &format!("C13:otlp:failing-value:{}:discard-counter", enc.name()),
                &format!("{}: event_discarded = {} but {} events with a failing value are absent from every signal", enc.name(), discarded, absent_failing),
                batch_case.clone(),
            );
        }
    }
}

// ---------------------------------------------------------------------------
// terminal sink (child process)
// ---------------------------------------------------------------------------

const BLOCKS: &[char] = &['▁', '▂', '▃', '▄', '▅', '▆', '▇'];

fn term_child(seed: u64, section: &str, from: u64, to: u64, compound: bool) {
    install_quiet_panic_hook();
    let term = std::sync::Arc::new(emit_term::stdout().colored(false));
    let events = section_events(seed, section, from, to, compound);
    deliver(
        term,
        section == "rt",
        &events,
        |idx| println!("@@BEGIN {}", idx),
        |n, res, inner| {
            match res {
                Ok(()) => println!("\n@@END {} ok", events[n].0),
                Err(p) => println!("\n@@END {} panic {}", events[n].0, p.replace('\n', " ")),
            }
            for i in inner {
                println!("@@INNERMSG {} {}", events[n].0, i.msg_text());
            }
        },
    );
}

fn run_term(cx: &mut Ctx, events: &[(u64, ModelEvent)], from: u64, to: u64, compound: bool) {
    let exe = std::env::current_exe().expect("current exe");
    let out = Command::new(exe)
        .env("TZ", "UTC")
        .args(["--term-child", "1", "--seed", &cx.seed.to_string(), "--section", cx.section, "--from", &from.to_string(), "--to", &to.to_string(), "--compound", if compound { "1" } else { "0" }])
        .output();
    let out = match out {
        Ok(o) => o,
        Err(e) => {
            cx.r.inconclusive(format!("could not spawn the terminal child: {}", e));
            return;
        }
    };
    let text = String::from_utf8_lossy(&out.stdout).into_owned();
    let mut blocks: BTreeMap<u64, (String, String)> = BTreeMap::new();
    let mut inner_msgs: BTreeMap<u64, Vec<String>> = BTreeMap::new();
    let mut cur: Option<(u64, String)> = None;
    for line in text.split('\n') {
        if let Some(rest) = line.strip_prefix("@@BEGIN ") {
            cur = rest.trim().parse().ok().map(|i| (i, String::new()));
        } else if let Some(rest) = line.strip_prefix("@@INNERMSG ") {
            if let Some((i, msg)) = rest.split_once(' ') {
                if let Ok(i) = i.parse::<u64>() {
                    inner_msgs.entry(i).or_default().push(msg.to_string());
                }
            }
        } else if let Some(rest) = line.strip_prefix("@@END ") {
            if let Some((i, body)) = cur.take() {
                let status = rest.splitn(2, ' ').nth(1).unwrap_or("").to_string();
                blocks.insert(i, (body, status));
            }
        } else if let Some((_, body)) = cur.as_mut() {
            body.push_str(line);
            body.push('\n');
        }
    }
    if !out.status.success() {
        cx.r.violation("C13:term:child-died", &format!("terminal child exited with {:?}: {}", out.status, clip(&String::from_utf8_lossy(&out.stderr))), json!({"seed": cx.seed, "section": cx.section, "from": from, "to": to}));
    }
    for (idx, me) in events {
        cx.r.observe("term:events", 1);
        let (body, status) = match blocks.get(idx) {
            Some(b) => b,
            None => {
                cx.violation(me, *idx, "C13:term:no-output", "the terminal child produced no block for this event".into());
                continue;
            }
        };
        if status != "ok" {
            cx.violation(me, *idx, if me.wild.is_some() { "C13:term:panic:wild-extent" } else { "C13:term:panic" }, format!("emit_term panicked on the caller thread: {}", status));
            continue;
        }
        // a re-entrant value in a template hole emits while the terminal writer renders the message
        let noisy_hole = me.parts.iter().any(|(hole, k)| *hole && me.first(k).map_or(false, |p| p.cap.is_noisy()));
        let inners = inner_msgs.get(idx).cloned().unwrap_or_default();
        if noisy_hole {
            cx.r.observe("term:reentrant-outer-events", 1);
            cx.r.observe("term:reentrant-inner-events", inners.len() as u64);
            if inners.is_empty() {
                cx.violation(me, *idx, "C13:term:reentrant:value-not-encoded", "the message holds a re-entrant value but it was never rendered".into());
            }
        }
        for m in &inners {
            if !body.contains(m.as_str()) {
                cx.violation(me, *idx, "C13:term:reentrant:inner-message-missing", format!("terminal output {:?} does not contain the message {:?} of the event emitted while rendering", clip(body), m));
            }
        }
        // an `err` captured as an error: every message of its source chain, outermost first
        if let Some(p) = me.first("err") {
            if let (M::Error(e), Cap::Error, false) = (&p.model, p.cap, p.buffered) {
                cx.r.observe("term:error-chains", 1);
                let msgs = e.messages();
                cx.r.observe(&format!("term:error-chain-length:{}", msgs.len()), 1);
                let mut at = 0usize;
                for (k, m) in msgs.iter().enumerate() {
                    match body[at..].find(m.as_str()) {
                        Some(pos) => at += pos + m.len(),
                        None => {
                            cx.violation(me, *idx, &format!("C13:term:error-chain:{}", if k == 0 { "outermost-missing" } else { "source-missing" }), format!("terminal output {:?} does not show message {} of the error chain {:?} (in order, outermost first)", clip(body), k, msgs));
                            break;
                        }
                    }
                }
            }
        }
        let hostile = me.parts.iter().any(|(hole, k)| *hole && me.first(k).and_then(|p| p.plain_text()).map_or(false, |t| t.chars().any(|c| !(c.is_ascii_alphanumeric() || c == ' ' || c == '-'))));
        if hostile {
            cx.r.observe("term:messages-with-hostile-hole-text", 1);
        }
        // the instant: emit_term prints the local time of day (`time` crate; the child runs with
        // TZ=UTC) or, when the local offset is unavailable, the RFC 3339 text to the second
        if let (None, Some((_, end))) = (me.wild, me.eff_extent()) {
            cx.r.observe("term:timestamp-comparisons", 1);
            let (y, mo, d, h, mi, s, ns) = civil_of(end);
            let local = format!("{:02}:{:02}:{:02}.{:03}", h, mi, s, ns / 1_000_000);
            let full = format!("{:04}-{:02}-{:02}T{:02}:{:02}:{:02}Z", y, mo, d, h, mi, s);
            if !body.contains(&local) && !body.contains(&full) {
                cx.violation(me, *idx, &format!("C13:term:timestamp-text-differs-from-the-instant:{}", edge_class(end).unwrap_or("ordinary")), format!("terminal output {:?} shows neither {:?} nor {:?}", clip(body), local, full));
            }
        }
        let msg = me.msg_text();
        if me.failing_hole() {
            // the message itself cannot be rendered: only "no panic" is required
            cx.r.observe("term:failing-value-in-message", 1);
        } else if !body.contains(&msg) {
            cx.violation(me, *idx, "C13:term:message-missing", format!("terminal output {:?} does not contain the rendered message {:?}", clip(body), msg));
        }
        if let (Some(p), MetricValue::Seq(ws)) = (me.first("metric_value"), metric_value(me)) {
            if !ws.is_empty() && matches!(p.cap, Cap::Serde | Cap::Sval | Cap::OwnedSerde | Cap::SharedSval) {
                cx.r.observe("term:sparklines", 1);
                let ok = body.lines().any(|l| !l.is_empty() && l.chars().all(|c| BLOCKS.contains(&c)) && l.chars().count() == ws.len());
                if !ok {
                    cx.violation(me, *idx, "C13:term:sparkline", format!("no sparkline of {} buckets in {:?}", ws.len(), clip(body)));
                }
            }
        }
    }
}

// ---------------------------------------------------------------------------
// sections
// ---------------------------------------------------------------------------

fn section_events(seed: u64, section: &str, from: u64, to: u64, compound: bool) -> Vec<(u64, ModelEvent)> {
    match section {
        "directed" => {
            let mut all = directed_compound_events(seed);
            all.extend(directed_other_known(seed));
            all.extend(directed_scalar_key_events(seed));
            all.push(directed_metric_dedup(seed));
            all.into_iter().enumerate().map(|(i, e)| (i as u64, e)).filter(|(i, _)| *i >= from && *i < to).collect()
        }
        // not part of the check: enum / newtype-struct typed map keys followed by labelled values
        // (`--section-only quirk`), kept to reproduce the sval_json `is_internally_tagged` leak
        "quirk" => {
            let keys = [M::UnitVariant("Kind", 1, "Second"), M::NewtypeStruct("Wrapper", Box::new(M::U32(3))), M::Str("plain".into())];
            let vals = [M::Struct("Point", vec![("a", M::U8(1))]), M::NewtypeVariant("Shape", 0, "First", Box::new(M::U8(1))), M::U8(7)];
            let mut out = Vec::new();
            for (i, k) in keys.iter().enumerate() {
                for (j, v) in vals.iter().enumerate() {
                    for (c, cap) in [Cap::Sval, Cap::Serde].into_iter().enumerate() {
                        let vid = format!("v{}-quirk-{}-{}-{}", seed, i, j, cap.name());
                        out.push(ModelEvent {
                            vid: vid.clone(),
                            mdl: "c13".into(),
                            parts: vec![(false, vid.clone())],
                            extent: Some((None, BASE_NANOS + (i * 100 + j * 10 + c) as u64)),
                            props: vec![Prop::new("vid", M::Str(vid.clone()), Cap::Typed), Prop::new("m", M::Map(vec![(k.clone(), v.clone()), (M::Str("z".into()), v.clone())]), cap)],
                            kind: Kind::Log,
                            directed: Some("quirk".into()),
                            ambient: Vec::new(),
                            clock: None,
                            wild: None,
                            macro_site: None,
                        });
                    }
                }
            }
            out.into_iter().enumerate().map(|(i, e)| (i as u64, e)).filter(|(i, _)| *i >= from && *i < to).collect()
        }
        "rt" => (from..to)
            .map(|i| {
                let mut g = Rng::stream(seed, &[13, 2, i]);
                let mut me = gen_rt_event(&mut g, seed, section, i);
                maybe_calendar_edge(seed, i, &mut me, false);
                (i, me)
            })
            .collect(),
        // keys that need JSON escaping, arriving as static / non-static / inherited keys
        "escaped-key" => (from..to).map(|i| (i, escaped_key_event(seed, i))).collect(),
        // every calendar-edge instant of the pool, on events of every kind: as point extents, as
        // the clock's reading, as range ends / starts and inside ranges
        "calendar" => (from..to)
            .map(|i| {
                let mut g = Rng::stream(seed, &[13, 8, i]);
                let mut me = gen_event(&mut g, seed, section, i, false);
                if me.extent.is_none() {
                    me.extent = Some((None, BASE_NANOS));
                }
                maybe_calendar_edge(seed, i, &mut me, true);
                (i, me)
            })
            .collect(),
        // the smallest reproduction of the failing-value defect: before / failing / after
        "failing-min" => {
            let mk = |i: u64, name: &str, bad: Option<Cap>| {
                let vid = format!("v{}-failing-min-{}", seed, name);
                let mut props = vec![Prop::new("vid", M::Str(vid.clone()), Cap::Typed)];
                if let Some(c) = bad {
                    props.push(Prop::new("bad", M::Str(FAIL_PARTIAL.into()), c));
                }
                props.push(Prop::new("after", M::I32(1), Cap::Typed));
                ModelEvent { vid: vid.clone(), mdl: "c13".into(), parts: vec![(false, vid.clone())], extent: Some((None, BASE_NANOS + i)), props, kind: Kind::Log, directed: bad.map(|c| format!("failing:{}:middle:no-hole", c.name())), ambient: Vec::new(), clock: None, wild: None, macro_site: None }
            };
            vec![(0, mk(0, "before", None)), (1, mk(1, "bad", Some(Cap::FailDisplay))), (2, mk(2, "after", None))].into_iter().filter(|(i, _)| *i >= from && *i < to).collect()
        }
        "failing" => (from..to)
            .map(|i| {
                let mut g = Rng::stream(seed, &[13, 5, i]);
                (i, gen_failing_section_event(&mut g, seed, section, i))
            })
            .collect(),
        "mixed" => (from..to)
            .map(|i| {
                let mut g = Rng::stream(seed, &[13, 4, i]);
                (i, gen_event(&mut g, seed, section, i, false))
            })
            .collect(),
        "wild" => (from..to)
            .map(|i| {
                let mut g = Rng::stream(seed, &[13, 3, i]);
                (i, gen_wild_event(&mut g, seed, section, i))
            })
            .collect(),
        _ => (from..to)
            .map(|i| {
                let mut g = Rng::stream(seed, &[13, 1, i]);
                let mut me = gen_event(&mut g, seed, section, i, compound);
                maybe_calendar_edge(seed, i, &mut me, false);
                (i, me)
            })
            .collect(),
    }
}

fn run_batch(r: &mut Report, collector: &Collector, root: &str, seed: u64, section: &str, from: u64, to: u64, compound: bool, sinks: &str, dump: bool) {
    let events = section_events(seed, section, from, to, compound);
    let mut cx = Ctx { r, seed, section };
    for (_, me) in &events {
        cx.r.eval();
        cx.r.observe(&format!("kind:{:?}", me.kind), 1);
        let mut sig: Vec<String> = vec![format!("{:?}", me.kind), format!("{}", me.has_duplicates())];
        for p in &me.props {
            cx.r.observe(&format!("cap:{}", p.cap.name()), 1);
            p.model.walk(&mut |n| cx.r.observe(&format!("shape:{}", n.shape()), 1));
            sig.push(format!("{}={}:{}", p.key, p.cap.name(), p.model.shape()));
        }
        if me.has_duplicates() {
            cx.r.observe("events-with-duplicate-keys", 1);
        }
        if let Some(w) = me.directed.as_deref().and_then(|d| d.strip_prefix("wide:")) {
            cx.r.observe(&format!("rt:wide-events:{}", w), 1);
            cx.r.observe("rt:wide-events:properties", me.effective().count() as u64);
        }
        if !me.ambient.is_empty() {
            cx.r.observe(&format!("rt:ambient-depth:{}", me.ambient.len()), 1);
            let shadowed = me.ambient.iter().flatten().filter(|p| me.props.iter().any(|q| q.key == p.key)).count();
            cx.r.observe("rt:ambient-props-shadowed-by-event", shadowed as u64);
            cx.r.observe("rt:ambient-props", me.ambient.iter().map(|f| f.len() as u64).sum());
            cx.r.observe(if me.macro_site.is_some() { "rt:macro-site-events" } else { "rt:built-events" }, 1);
        }
        if let Some(w) = me.wild {
            let nanos = |(s, n): (u64, u32)| s as u128 * 1_000_000_000 + n as u128;
            let class = match w {
                (None, b) => if nanos(b) > u64::MAX as u128 { "point-beyond-u64" } else { "point" },
                (Some(a), b) if nanos(a) > nanos(b) => "inverted",
                (Some(a), b) if nanos(a) == nanos(b) => "zero-length",
                (Some(a), b) if nanos(b) > u64::MAX as u128 && nanos(a) <= u64::MAX as u128 => "straddling-u64",
                (Some(_), b) if nanos(b) > u64::MAX as u128 => "range-beyond-u64",
                _ => "range",
            };
            cx.r.observe(&format!("wild:{}:{:?}", class, me.kind), 1);
        }
        if let Some(mode) = me.directed.as_deref().and_then(|d| d.strip_prefix("escaped-key:")) {
            cx.r.observe(&format!("escaped-key:{}", mode), 1);
        }
        if let Some(class) = extent_edge_class(me) {
            cx.r.observe(&format!("calendar-edge:{}:{}", class, if me.is_range() { "range" } else { "point" }), 1);
        }
        if me.props.len() > 2 {
            cx.r.nontrivial(&sig);
        }
        if cx.r.wants_sample() && me.props.len() > 4 {
            let d = me.describe();
            cx.r.sample(move || d);
        }
    }
    let batch = format!("{}-{}-{}", section, from, to);
    if section == "failing" || section == "failing-min" {
        if sinks.contains("otlp") {
            run_otlp_failing(&mut cx, collector, &batch, &events, dump);
        }
        if sinks.contains("file") {
            let dir = format!("{}/{}", root, batch);
            run_file(&mut cx, &dir, &events, false);
            let _ = std::fs::remove_dir_all(&dir);
        }
        if sinks.contains("term") {
            run_term(&mut cx, &events, from, to, compound);
        }
        return;
    }
    if section == "mixed" {
        if sinks.contains("otlp") {
            run_otlp_mixed(&mut cx, collector, &batch, from / 50, &events);
        }
        return;
    }
    if sinks.contains("file") {
        let dir = format!("{}/{}", root, batch);
        run_file(&mut cx, &dir, &events, section == "rt");
        let _ = std::fs::remove_dir_all(&dir);
    }
    if sinks.contains("otlp") {
        run_otlp(&mut cx, collector, &batch, &events, dump, section == "rt");
    }
    if sinks.contains("term") {
        run_term(&mut cx, &events, from, to, compound);
    }
}

fn main() {
    let args = Args::parse();
    if args.get("term-child").is_some() {
        term_child(args.seed, args.get("section").unwrap_or("random"), args.get_u64("from", 0), args.get_u64("to", 0), args.get_u64("compound", 0) == 1);
        return;
    }
    let mut r = Report::new(
        "C13",
        &args,
        "one evaluation = one generated event emitted to every sink (file, OTLP proto + JSON, terminal); non-trivial = distinct (kind, duplicate-keys?, [key = capture path : value shape]) signatures of events with more than two properties",
    );
    let seed = args.seed;
    let sinks = args.get("sinks").unwrap_or("file,otlp,term").to_string();
    let dump = args.get("dump").is_some();
    let root = mktemp();
    let collector = Collector::start();

    if let Some(path) = &args.replay {
        let case = load_replay(path);
        let section = case.get("section").and_then(|v| v.as_str()).unwrap_or("random").to_string();
        let idx = case.get("idx").and_then(|v| v.as_u64()).unwrap_or(0);
        let s = case.get("seed").and_then(|v| v.as_u64()).unwrap_or(seed);
        run_batch(&mut r, &collector, &root, s, &section, idx, idx + 1, section == "compound", &sinks, dump);
        collector.stop();
        let _ = std::fs::remove_dir_all(&root);
        std::process::exit(r.finish());
    }

    if let Some(sec) = args.get("section-only") {
        let n = if ["directed", "quirk"].contains(&sec) { section_events(seed, sec, 0, u64::MAX, false).len() as u64 } else { args.get_u64("events", 100) };
        let step = args.get_u64("batch", 100);
        let mut from = 0;
        while from < n {
            run_batch(&mut r, &collector, &root, seed, sec, from, (from + step).min(n), sec == "compound", &sinks, dump);
            from += step;
        }
        collector.stop();
        let _ = std::fs::remove_dir_all(&root);
        std::process::exit(r.finish());
    }

    // 1. directed events: the known compound-key findings (one per key shape, sink and capture
    //    path), scalar-keyed maps, the metric de-duplication case
    let n_directed = section_events(seed, "directed", 0, u64::MAX, false).len() as u64;
    run_batch(&mut r, &collector, &root, seed, "directed", 0, n_directed, false, &sinks, dump);

    // 2. random events, maps restricted to keys with a textual form
    let batch = args.get_u64("batch", 100);
    let n = args.get_u64("events", args.n(30_000, 2_000_000));
    let batches = (n + batch - 1) / batch;
    par_cases(&mut r, &args, batches, |b, r| {
        run_batch(r, &collector, &root, seed, "random", b * batch, ((b + 1) * batch).min(n), false, &sinks, dump);
    });

    // 3. random events whose maps may also have compound keys: only the known signatures may fire
    let n2 = args.get_u64("compound-events", args.n(3_000, 200_000));
    let batches2 = (n2 + batch - 1) / batch;
    par_cases(&mut r, &args, batches2, |b, r| {
        run_batch(r, &collector, &root, seed, "compound", b * batch, ((b + 1) * batch).min(n2), true, &sinks, dump);
    });

    // 4. events emitted through a runtime (static and AmbientSlot) whose ambient context holds
    //    some of the same keys: the event wins over ambient, inner frames over outer ones
    let n3 = args.get_u64("rt-events", args.n(6_000, 400_000));
    let batches3 = (n3 + batch - 1) / batch;
    par_cases(&mut r, &args, batches3, |b, r| {
        run_batch(r, &collector, &root, seed, "rt", b * batch, ((b + 1) * batch).min(n3), false, &sinks, dump);
    });

    // 5. hostile extents on every kind
    let n4 = args.get_u64("wild-events", args.n(4_000, 300_000));
    let batches4 = (n4 + batch - 1) / batch;
    par_cases(&mut r, &args, batches4, |b, r| {
        run_batch(r, &collector, &root, seed, "wild", b * batch, ((b + 1) * batch).min(n4), false, &sinks, dump);
    });

    // 8. every calendar-edge instant (leap days and their neighbours, century years, year and month
    //    ends, 32-bit second boundaries) on events of every kind, three events per instant
    let n7 = args.get_u64("calendar-events", 3 * calendar_pool().len() as u64 * args.n(1, 4));
    let batches7 = (n7 + batch - 1) / batch;
    par_cases(&mut r, &args, batches7, |b, r| {
        run_batch(r, &collector, &root, seed, "calendar", b * batch, ((b + 1) * batch).min(n7), false, &sinks, dump);
    });

    // 9. property keys that need JSON escaping x how the key arrives (static on hand-built props,
    //    static from a macro call site, inherited from a context frame, non-static)
    let n8 = args.get_u64("escaped-key-events", (ESC_KEYS.len() * 4 * 4) as u64);
    run_batch(&mut r, &collector, &root, seed, "escaped-key", 0, n8, false, &sinks, dump);

    // 7. values whose formatting fails part-way, between ordinary events of the same batch
    let n6 = args.get_u64("failing-events", args.n(2_000, 120_000));
    let batches6 = (n6 + batch - 1) / batch;
    par_cases(&mut r, &args, batches6, |b, r| {
        run_batch(r, &collector, &root, seed, "failing", b * batch, ((b + 1) * batch).min(n6), false, &sinks, dump);
    });

    // 6. one Otlp instance whose signals use different encodings, with / without a rich resource,
    //    first used by a span / a log / a metric
    let mixed_batch = 50;
    let n5 = args.get_u64("mixed-events", args.n(3_600, 240_000));
    let batches5 = (n5 + mixed_batch - 1) / mixed_batch;
    par_cases(&mut r, &args, batches5, |b, r| {
        run_batch(r, &collector, &root, seed, "mixed", b * mixed_batch, ((b + 1) * mixed_batch).min(n5), false, &sinks, dump);
    });

    collector.stop();
    let _ = std::fs::remove_dir_all(&root);
    std::process::exit(r.finish());
}
