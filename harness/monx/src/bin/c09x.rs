/*!
C09 (file emitter, end to end) — and the overflow-truncation lane of C11.

The real pipeline `emit_file::set_with_writer(..).verif_spawn_with(fakefs, clock, ids)` over a
filesystem whose `write` blocks on a gate: the worker takes its first batch and parks inside
`write`; the caller then emits tens of thousands of events.

Oracle (C09): every `emit` returns while the worker is parked (a stuck emit loop is reported as
inconclusive by a watchdog, never as a verdict); the `file_queue_length` metric sampled after every
emit never exceeds the channel capacity (10 000); every increment of `file_queue_full_truncated`
drops exactly the 10 000 events pending at that moment and keeps the new one, so after the gate
opens and a flush succeeds the synced records are exactly all events minus those windows.
Oracle (C11, roll rule across an overflow truncation): between two consecutive successful worker
batches in the same period a new file is started only if size-before + batch bytes > limit.

Section `growth` (C09 only; runs ALONE in the process, before the parallel scenarios, because the
counting allocator is process-wide): with the worker parked inside `write`, 24 (thorough: 40) blocks
of 10 000 events of about 1 KiB are emitted and the live heap is read after every block. Judged is
GROWTH, not an absolute number: what a counted truncation discards must be freed, so after the first
truncation the live heap must not keep rising with the number of emitted events. Alarm iff at some
block k >= 8 the heap retained since the start exceeds 3 x capacity x event size AND it rose by more
than a quarter of an event per emitted event between block k/2 and block k (event size = the larger of the
nominal record size and what the first, truncation-free block retained per event). The emit loop of
the measured phase keeps no per-event bookkeeping: the series vector is pre-allocated and the metrics
are read once per block, after the heap sample.
*/

#[path = "../shared/countalloc.rs"]
mod countalloc;
#[path = "../shared/fakefs.rs"]
mod fakefs;
#[path = "../shared/filee2e.rs"]
mod filee2e;

use std::{
    collections::{BTreeMap, HashSet},
    sync::{
        atomic::{AtomicU64, Ordering},
        mpsc, Arc,
    },
    time::Duration,
};

use emit::Emitter as _;
use fakefs::*;
use filee2e::*;
use vcommon::rec::FakeClock;
use vcommon::*;

const CAPACITY: u64 = 10_000;

#[global_allocator]
static ALLOC: countalloc::Counting = countalloc::Counting;

// ---------------------------------------------------------------------------
// section `growth`: what a truncation discards must be freed
// ---------------------------------------------------------------------------

/// First block at which the growth rule is evaluated (then after every block).
const GROWTH_MIN_BLOCK: usize = 8;

/// The growth rule over `series[k]` = live heap after block k (`series[0]` = before the first block).
/// Returns (k, retained, rise since k/2, limit for retained, limit for the rise) when it fires at the last block.
fn growth_alarm(series: &[i64], ev: i64) -> Option<(usize, i64, i64, i64, i64)> {
    let k = series.len() - 1;
    if k < GROWTH_MIN_BLOCK {
        return None;
    }
    let h = k / 2;
    let retained = series[k] - series[0];
    let rise = series[k] - series[h];
    let retained_limit = 3 * CAPACITY as i64 * ev;
    let rise_limit = ev / 4 * (k - h) as i64 * CAPACITY as i64;
    (retained > retained_limit && rise > rise_limit).then_some((k, retained, rise, retained_limit, rise_limit))
}

struct GrowthOut {
    series: Vec<i64>,
    ev: i64,
    max_len: u64,
    trunc: u64,
    parked_all_along: bool,
    alarm: Option<(usize, i64, i64, i64, i64)>,
}

fn growth(r: &mut Report, seed: u64, variant: u64, blocks: usize, print: bool) {
    r.eval();
    let mut g = Rng::stream(seed, &[9, 91, variant]);
    let codec = if variant % 2 == 0 { Codec::Custom } else { Codec::Json };
    let top_len = 960 + g.usize(64);
    let case = json!({"section": "growth", "seed": seed, "variant": variant, "blocks": blocks, "payload_len_max": top_len,
                      "writer": if codec == Codec::Custom { "custom" } else { "default-json" }});
    if !countalloc::installed() {
        r.inconclusive("growth: the counting allocator is not installed");
        return;
    }
    let fs = FakeFs::new(variant + 711);
    fs.set_sep(b'\n');
    fs.close_gate();
    let clock = FakeClock::new(1_709_251_100_000_000_000);
    let ids = IdRng::new(variant + 717, IdMode::Random);
    let builder = match codec {
        Codec::Custom => emit_file::set_with_writer("logs/growth.log", writer(variant % 4 == 0, b"\n", 0, Arc::new(AtomicU64::new(0))), b"\n"),
        Codec::Json => emit_file::set("logs/growth.log"),
    };
    let files = match builder.roll_by_hour().max_files(1000).max_file_size_bytes(1 << 30).verif_spawn_with(fs.clone(), clock.clone(), ids) {
        Ok(f) => Arc::new(f),
        Err(e) => {
            r.inconclusive(format!("growth: could not spawn the file set: {}", e));
            return;
        }
    };
    let (tx, rx) = mpsc::channel::<Result<GrowthOut, String>>();
    let progress = Arc::new(AtomicU64::new(0));
    {
        let (files, fs, progress) = (files.clone(), fs.clone(), progress.clone());
        std::thread::spawn(move || {
            // park the worker inside `write` with the first event
            emit_e2e(&files, codec, 0, top_len, 0);
            let mut parked = false;
            for _ in 0..100_000 {
                if fs.gate_waiting() > 0 && metric(&sample_metrics(&files), "file_queue_length") == 0 {
                    parked = true;
                    break;
                }
                std::thread::sleep(Duration::from_micros(100));
            }
            if !parked {
                let _ = tx.send(Err("the worker never parked on the write gate".into()));
                return;
            }
            let mut out = GrowthOut { series: Vec::with_capacity(blocks + 2), ev: 0, max_len: 0, trunc: 0, parked_all_along: true, alarm: None };
            // nominal size of the largest record: payload + framing (`vid:len:` or the JSON field names) + separator
            let nominal = (top_len + 96) as i64;
            out.ev = nominal;
            out.series.push(countalloc::live_bytes());
            let mut vid = 1u64;
            for k in 1..=blocks {
                // ---- measured phase: nothing is recorded per event ----
                for _ in 0..CAPACITY {
                    emit_e2e(&files, codec, vid, top_len - (vid % 97) as usize, 0);
                    vid += 1;
                }
                out.series.push(countalloc::live_bytes());
                // ---- once per block, after the heap sample ----
                let m = sample_metrics(&files);
                out.max_len = out.max_len.max(metric(&m, "file_queue_length"));
                out.trunc = metric(&m, "file_queue_full_truncated");
                out.parked_all_along &= fs.gate_waiting() > 0;
                progress.store(vid, Ordering::SeqCst);
                if k == 1 {
                    // the first block fills the queue without a truncation: what one event really retains
                    out.ev = nominal.max((out.series[1] - out.series[0]) / CAPACITY as i64);
                }
                out.alarm = growth_alarm(&out.series, out.ev);
                if out.alarm.is_some() {
                    break; // do not eat the machine's memory on a tree that leaks
                }
            }
            let _ = tx.send(Ok(out));
        });
    }
    let out = match rx.recv_timeout(Duration::from_secs(300)) {
        Ok(Ok(out)) => out,
        Ok(Err(why)) => {
            r.inconclusive(format!("growth variant {}: {}", variant, why));
            fs.open_gate();
            return;
        }
        Err(_) => {
            r.inconclusive(format!(
                "growth variant {}: the emit loop did not finish within 300 s while the worker was parked ({} emits returned)",
                variant,
                progress.load(Ordering::SeqCst)
            ));
            fs.open_gate();
            return;
        }
    };
    let done_blocks = out.series.len() - 1;
    let rel: Vec<i64> = out.series.iter().map(|l| (l - out.series[0]) / 1024).collect();
    if print {
        eprintln!("growth variant {} ({:?}): event size {} B, live heap after each block of {} emits, KiB above the start: {:?}", variant, codec, out.ev, CAPACITY, rel);
    }
    r.observe("growth:emit-calls-returned-while-worker-parked", done_blocks as u64 * CAPACITY);
    r.observe("growth:heap-samples", out.series.len() as u64);
    r.observe("growth:overflow-truncations", out.trunc);
    r.set(&format!("growth-variant-{}-retained-kib-per-block", variant), json!(rel));
    r.set(&format!("growth-variant-{}-event-bytes", variant), json!(out.ev));
    if out.max_len > CAPACITY {
        r.violation(
            "C09:files-e2e:queue-length-above-capacity",
            &format!("file_queue_length reached {} (capacity {}) while the filesystem was stalled", out.max_len, CAPACITY),
            case.clone(),
        );
    }
    if let Some((k, retained, rise, retained_limit, rise_limit)) = out.alarm {
        let mut c = case.clone();
        c["retained_kib_after_each_block"] = json!(rel);
        c["event_bytes"] = json!(out.ev);
        c["worker_parked_all_along"] = json!(out.parked_all_along);
        r.violation(
            "C09:files:retained-heap-grows-with-emitted-events",
            &format!(
                "with the worker parked inside write, the live heap after {} blocks of {} emits is {} KiB above the start (limit 3 x capacity x {} B = {} KiB) and rose by {} KiB over the last {} blocks (limit a quarter of an event per emitted event = {} KiB), with {} counted truncations and file_queue_length <= {}: what the truncations discarded is not freed",
                k,
                CAPACITY,
                retained / 1024,
                out.ev,
                retained_limit / 1024,
                rise / 1024,
                k - k / 2,
                rise_limit / 1024,
                out.trunc,
                out.max_len
            ),
            c,
        );
    } else if out.trunc == 0 {
        r.inconclusive(format!("growth variant {}: no truncation was counted in {} blocks; growth not judged", variant, done_blocks));
    } else {
        r.observe("growth:scenarios-with-a-plateau", 1);
    }
    r.nontrivial(&("growth", variant % 2, out.trunc > 0));
    // release and let the pipeline finish (bounded by the flush timeout)
    fs.open_gate();
    if !files.blocking_flush(Duration::from_secs(120)) {
        r.inconclusive(format!("growth variant {}: blocking_flush timed out after the gate was opened", variant));
    }
    // let the worker thread go before the next scenario takes its own baseline (bounded; only tidiness)
    drop(files);
    for _ in 0..2_000 {
        if !worker_thread_alive() {
            break;
        }
        std::thread::sleep(Duration::from_millis(1));
    }
}

fn worker_thread_alive() -> bool {
    std::fs::read_dir("/proc/self/task")
        .map(|d| d.flatten().any(|e| std::fs::read_to_string(e.path().join("comm")).map(|c| c.trim_end().starts_with("emit_file_worke")).unwrap_or(false)))
        .unwrap_or(false)
}

struct Scn {
    idx: u64,
    events: u64,
    limit: usize,
    len_mod: u64,
}

fn gen(seed: u64, idx: u64) -> Scn {
    let mut g = Rng::stream(seed, &[9, 90, idx]);
    let (events, limit) = match idx % 4 {
        0 => (50_000, 600_000),
        1 => (5_000, 600_000),
        2 => (25_000 + g.below(20_000), 1 << 30),
        _ => (10_001 + g.below(45_000), 200_000 + g.usize(800_000)),
    };
    Scn { idx, events, limit, len_mod: 1 + g.below(40) }
}

fn run(r: &mut Report, seed: u64, idx: u64) {
    let s = gen(seed, idx);
    r.eval();
    let case = || json!({"seed": seed, "scenario": idx, "events": s.events, "max_file_size_bytes": s.limit, "payload_len_mod": s.len_mod});
    let fs = FakeFs::new(idx + 11);
    fs.set_sep(b'\n');
    fs.close_gate();
    let clock = FakeClock::new(1_709_251_100_000_000_000);
    let ids = IdRng::new(idx + 17, IdMode::Random);
    let files = match emit_file::set_with_writer("logs/stall.log", writer(idx % 2 == 0, b"\n", 0, Arc::new(AtomicU64::new(0))), b"\n")
        .roll_by_hour()
        .max_files(1000)
        .max_file_size_bytes(s.limit)
        .verif_spawn_with(fs.clone(), clock.clone(), ids)
    {
        Ok(f) => Arc::new(f),
        Err(e) => {
            r.inconclusive(format!("could not spawn the file set: {}", e));
            return;
        }
    };

    // phase 1: emit with the worker parked inside `write`
    let (tx, rx) = mpsc::channel::<(u64, Vec<u64>, u64)>();
    let progress = Arc::new(AtomicU64::new(0));
    {
        let (files, fs, progress) = (files.clone(), fs.clone(), progress.clone());
        let (events, len_mod) = (s.events, s.len_mod);
        std::thread::spawn(move || {
            let mut max_len = 0u64;
            let mut trunc_at: Vec<u64> = Vec::new();
            let mut seen_trunc = 0u64;
            let mut parked_seen = 0u64;
            for vid in 0..events {
                emit_record(&files, vid, (vid % len_mod) as usize);
                let m = sample_metrics(&files);
                max_len = max_len.max(metric(&m, "file_queue_length"));
                let t = metric(&m, "file_queue_full_truncated");
                while seen_trunc < t {
                    seen_trunc += 1;
                    trunc_at.push(vid);
                }
                if vid == 0 {
                    // let the worker take the first batch and park on the gate (bounded; only shapes the scenario)
                    for _ in 0..20_000 {
                        if fs.gate_waiting() > 0 {
                            break;
                        }
                        std::thread::sleep(Duration::from_micros(100));
                    }
                }
                if fs.gate_waiting() > 0 {
                    parked_seen += 1;
                }
                progress.store(vid + 1, Ordering::SeqCst);
            }
            let _ = tx.send((max_len, trunc_at, parked_seen));
        });
    }
    let (max_len, trunc_at, parked_seen) = match rx.recv_timeout(Duration::from_secs(300)) {
        Ok(x) => x,
        Err(_) => {
            r.inconclusive(format!(
                "scenario {}: the emit loop did not finish within 300 s while the worker was parked ({} of {} emits returned, writers parked on the gate: {})",
                idx,
                progress.load(Ordering::SeqCst),
                s.events,
                fs.gate_waiting()
            ));
            fs.open_gate();
            return;
        }
    };
    r.observe("emit-calls-returned-while-worker-parked", parked_seen);
    r.observe("emit-calls-returned", s.events);
    r.observe("queue-length-samples", s.events);
    r.observe("overflow-truncations", trunc_at.len() as u64);
    r.set(&format!("scenario-{}-max-queue-length", idx), json!(max_len));
    if parked_seen == 0 {
        r.inconclusive(format!("scenario {}: the worker never parked on the write gate", idx));
    }
    if max_len > CAPACITY {
        r.violation(
            "C09:files-e2e:queue-length-above-capacity",
            &format!("file_queue_length reached {} (capacity {}) while the filesystem was stalled", max_len, CAPACITY),
            case(),
        );
    }

    // phase 2: release the worker, flush, compare what survived with the truncation windows
    fs.open_gate();
    let flushed = files.blocking_flush(Duration::from_secs(120));
    if !flushed {
        r.inconclusive(format!("scenario {}: blocking_flush timed out after the gate was opened", idx));
        return;
    }
    let (synced, log, sizes_ok): (HashSet<u64>, Vec<OpRec>, bool) = {
        let st = fs.lock();
        (synced_vids(&st, b'\n'), st.log.clone(), bad_pieces(&st, b'\n', false).is_empty())
    };
    if !sizes_ok {
        r.violation("C10:e2e:record-mangled:after-stall", "a file holds a piece that is not a complete record after the stalled run", case());
    }
    // first batch = everything emitted before the worker parked: [0, first_taken); it is not
    // known exactly, but nothing of it may be missing. Expected missing = union of the truncation windows.
    let mut expected_missing: HashSet<u64> = HashSet::new();
    for t in &trunc_at {
        // the emit of `t` found 10 000 pending: t-10_000 .. t-1
        for v in t.saturating_sub(CAPACITY)..*t {
            expected_missing.insert(v);
        }
    }
    let missing: Vec<u64> = (0..s.events).filter(|v| !synced.contains(v)).collect();
    let unexpected: Vec<u64> = missing.iter().copied().filter(|v| !expected_missing.contains(v)).collect();
    let survived_dropped: Vec<u64> = expected_missing.iter().copied().filter(|v| synced.contains(v)).collect();
    r.observe("records-synced-after-release", synced.len() as u64);
    r.observe("records-dropped-by-truncation", missing.len() as u64);
    if !unexpected.is_empty() {
        r.violation(
            "C09:files-e2e:event-lost-outside-a-truncation-window",
            &format!("{} events (first vid {}) are missing although no counted truncation covers them; truncations happened at emits {:?}", unexpected.len(), unexpected[0], trunc_at),
            case(),
        );
    }
    if !survived_dropped.is_empty() {
        r.violation(
            "C09:files-e2e:truncation-did-not-drop-the-whole-pending-queue",
            &format!("{} events inside a counted truncation window were still written", survived_dropped.len()),
            case(),
        );
    }
    if !synced.contains(&(s.events - 1)) {
        r.violation("C09:files-e2e:newest-event-not-kept", "the last emitted event is not in synced content after the flush", case());
    }

    // roll rule over the logged worker batches (fixed clock: one period)
    let batches = logged_batches(&log);
    let mut size: BTreeMap<String, usize> = BTreeMap::new();
    let mut prev: Option<LoggedBatch> = None;
    for b in &batches {
        if let Some(p) = &prev {
            if p.ok && b.ok {
                r.observe("roll-decisions-checked", 1);
                let before = *size.get(&p.path).unwrap_or(&0);
                let rolled = b.created || b.path != p.path;
                let over = before + b.bytes > s.limit;
                if rolled && !over {
                    r.violation(
                        &format!("C11:roll:spurious:{}", if trunc_at.is_empty() { "e2e-no-truncation" } else { "after-overflow-truncation" }),
                        &format!(
                            "the worker moved from {} ({} bytes) to the new file {} for a batch of {} bytes although the limit is {} and the period did not change; {} overflow truncations happened before this batch was taken",
                            p.path,
                            before,
                            b.path,
                            b.bytes,
                            s.limit,
                            trunc_at.len()
                        ),
                        case(),
                    );
                } else if !rolled && over {
                    r.violation(
                        "C11:roll:missing:size-limit:e2e",
                        &format!("the worker stayed on {} ({} bytes) for a batch of {} bytes, limit {}", p.path, before, b.bytes, s.limit),
                        case(),
                    );
                }
            }
        }
        *size.entry(b.path.clone()).or_insert(0) += b.bytes;
        prev = Some(b.clone());
    }
    r.observe("worker-batches-in-op-log", batches.len() as u64);
    if !trunc_at.is_empty() {
        r.nontrivial(&(idx, "truncated"));
    } else {
        r.nontrivial(&(idx, "no-truncation"));
    }
    if idx < 2 {
        let (tr, bl) = (trunc_at.clone(), batches.iter().map(|b| json!([b.path, b.bytes, b.created, b.ok])).collect::<Vec<_>>());
        let c = case();
        r.sample(move || json!({"case": c, "truncations_at_emit": tr, "max_queue_length": max_len, "worker_batches": bl}));
    }
}

fn main() {
    let args = Args::parse();
    let prop = args.get("prop").unwrap_or("C09").to_string();
    let mut r = Report::new(
        &prop,
        &args,
        "one evaluation = one stalled-filesystem scenario (thousands of emits while the worker is parked inside write, then release + flush); \
         non-trivial = distinct scenarios, split by whether the channel overflowed (10 001+ pending) or not",
    );
    emit_batcher::verif::set_delay_divisor(2000);
    let seed = args.seed;
    if let Some(path) = &args.replay {
        let case = load_replay(path);
        let idx = case.get("scenario").and_then(|v| v.as_u64()).unwrap_or(0);
        let cseed = case.get("seed").and_then(|v| v.as_u64()).unwrap_or(seed);
        if case.get("section").and_then(|v| v.as_str()) == Some("growth") {
            let variant = case.get("variant").and_then(|v| v.as_u64()).unwrap_or(0);
            let blocks = case.get("blocks").and_then(|v| v.as_u64()).unwrap_or(24) as usize;
            growth(&mut r, cseed, variant, blocks, true);
            growth(&mut r, cseed, variant + 1, blocks, true);
            std::process::exit(r.finish());
        }
        run(&mut r, cseed, idx);
        run(&mut r, cseed, idx + 1);
        std::process::exit(r.finish());
    }
    // the growth scenarios read the process-wide live heap: they run alone, one after the other
    if prop == "C09" && args.get_u64("growth", 1) != 0 {
        let blocks = args.get_u64("growth-blocks", if args.thorough() { 40 } else { 24 }) as usize;
        let print = args.get_u64("print-series", 0) != 0;
        for v in 0..args.n(2, 4) {
            growth(&mut r, seed, 2 * (seed % 2) + v, blocks, print);
        }
    }
    let n = args.get_u64("scenarios", args.n(8, 96));
    par_cases(&mut r, &args, n, |i, r| run(r, seed, i));
    std::process::exit(r.finish());
}
