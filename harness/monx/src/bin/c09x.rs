/*!
C09 (file emitter, end to end) — and the overflow-truncation lane of C11.

The real pipeline `emit_file::set_with_writer(..).verif_spawn_with(fakefs, clock, ids)` over a
filesystem whose `write` blocks on a gate: the worker takes its first batch and parks inside
`write`; the caller then emits tens of thousands of events.

Oracle (C09): every `emit` returns while the worker is parked (a stuck emit loop is reported as
inconclusive by a watchdog, never as a verdict); the `file_queue_length` metric sampled after every
emit never exceeds the channel capacity (10 000); every increment of `file_queue_full_truncated`
drops exactly the 10 000 events pending at that moment and keeps the new one, so after the gate
opens and a flush succeeds the synced records are exactly all events minus those windows.
Oracle (C11, roll rule across an overflow truncation): between two consecutive successful worker
batches in the same period a new file is started only if size-before + batch bytes > limit.
*/

#[path = "../shared/fakefs.rs"]
mod fakefs;
#[path = "../shared/filee2e.rs"]
mod filee2e;

use std::{
    collections::{BTreeMap, HashSet},
    sync::{
        atomic::{AtomicU64, Ordering},
        mpsc, Arc,
    },
    time::Duration,
};

use emit::Emitter as _;
use fakefs::*;
use filee2e::*;
use vcommon::rec::FakeClock;
use vcommon::*;

const CAPACITY: u64 = 10_000;

struct Scn {
    idx: u64,
    events: u64,
    limit: usize,
    len_mod: u64,
}

fn gen(seed: u64, idx: u64) -> Scn {
    let mut g = Rng::stream(seed, &[9, 90, idx]);
    let (events, limit) = match idx % 4 {
        0 => (50_000, 600_000),
        1 => (5_000, 600_000),
        2 => (25_000 + g.below(20_000), 1 << 30),
        _ => (10_001 + g.below(45_000), 200_000 + g.usize(800_000)),
    };
    Scn { idx, events, limit, len_mod: 1 + g.below(40) }
}

fn run(r: &mut Report, seed: u64, idx: u64) {
    let s = gen(seed, idx);
    r.eval();
    let case = || json!({"seed": seed, "scenario": idx, "events": s.events, "max_file_size_bytes": s.limit, "payload_len_mod": s.len_mod});
    let fs = FakeFs::new(idx + 11);
    fs.set_sep(b'\n');
    fs.close_gate();
    let clock = FakeClock::new(1_709_251_100_000_000_000);
    let ids = IdRng::new(idx + 17, IdMode::Random);
    let files = match emit_file::set_with_writer("logs/stall.log", writer(idx % 2 == 0, b"\n", 0, Arc::new(AtomicU64::new(0))), b"\n")
        .roll_by_hour()
        .max_files(1000)
        .max_file_size_bytes(s.limit)
        .verif_spawn_with(fs.clone(), clock.clone(), ids)
    {
        Ok(f) => Arc::new(f),
        Err(e) => {
            r.inconclusive(format!("could not spawn the file set: {}", e));
            return;
        }
    };

    // phase 1: emit with the worker parked inside `write`
    let (tx, rx) = mpsc::channel::<(u64, Vec<u64>, u64)>();
    let progress = Arc::new(AtomicU64::new(0));
    {
        let (files, fs, progress) = (files.clone(), fs.clone(), progress.clone());
        let (events, len_mod) = (s.events, s.len_mod);
        std::thread::spawn(move || {
            let mut max_len = 0u64;
            let mut trunc_at: Vec<u64> = Vec::new();
            let mut seen_trunc = 0u64;
            let mut parked_seen = 0u64;
            for vid in 0..events {
                emit_record(&files, vid, (vid % len_mod) as usize);
                let m = sample_metrics(&files);
                max_len = max_len.max(metric(&m, "file_queue_length"));
                let t = metric(&m, "file_queue_full_truncated");
                while seen_trunc < t {
                    seen_trunc += 1;
                    trunc_at.push(vid);
                }
                if vid == 0 {
                    // let the worker take the first batch and park on the gate (bounded; only shapes the scenario)
                    for _ in 0..20_000 {
                        if fs.gate_waiting() > 0 {
                            break;
                        }
                        std::thread::sleep(Duration::from_micros(100));
                    }
                }
                if fs.gate_waiting() > 0 {
                    parked_seen += 1;
                }
                progress.store(vid + 1, Ordering::SeqCst);
            }
            let _ = tx.send((max_len, trunc_at, parked_seen));
        });
    }
    let (max_len, trunc_at, parked_seen) = match rx.recv_timeout(Duration::from_secs(300)) {
        Ok(x) => x,
        Err(_) => {
            r.inconclusive(format!(
                "scenario {}: the emit loop did not finish within 300 s while the worker was parked ({} of {} emits returned, writers parked on the gate: {})",
                idx,
                progress.load(Ordering::SeqCst),
                s.events,
                fs.gate_waiting()
            ));
            fs.open_gate();
            return;
        }
    };
    r.observe("emit-calls-returned-while-worker-parked", parked_seen);
    r.observe("emit-calls-returned", s.events);
    r.observe("queue-length-samples", s.events);
    r.observe("overflow-truncations", trunc_at.len() as u64);
    r.set(&format!("scenario-{}-max-queue-length", idx), json!(max_len));
    if parked_seen == 0 {
        r.inconclusive(format!("scenario {}: the worker never parked on the write gate", idx));
    }
    if max_len > CAPACITY {
        r.violation(
            "C09:files-e2e:queue-length-above-capacity",
            &format!("file_queue_length reached {} (capacity {}) while the filesystem was stalled", max_len, CAPACITY),
            case(),
        );
    }

    // phase 2: release the worker, flush, compare what survived with the truncation windows
    fs.open_gate();
    let flushed = files.blocking_flush(Duration::from_secs(120));
    if !flushed {
        r.inconclusive(format!("scenario {}: blocking_flush timed out after the gate was opened", idx));
        return;
    }
    let (synced, log, sizes_ok): (HashSet<u64>, Vec<OpRec>, bool) = {
        let st = fs.lock();
        (synced_vids(&st, b'\n'), st.log.clone(), bad_pieces(&st, b'\n', false).is_empty())
    };
    if !sizes_ok {
        r.violation("C10:e2e:record-mangled:after-stall", "a file holds a piece that is not a complete record after the stalled run", case());
    }
    // first batch = everything emitted before the worker parked: [0, first_taken); it is not
    // known exactly, but nothing of it may be missing. Expected missing = union of the truncation windows.
    let mut expected_missing: HashSet<u64> = HashSet::new();
    for t in &trunc_at {
        // the emit of `t` found 10 000 pending: t-10_000 .. t-1
        for v in t.saturating_sub(CAPACITY)..*t {
            expected_missing.insert(v);
        }
    }
    let missing: Vec<u64> = (0..s.events).filter(|v| !synced.contains(v)).collect();
    let unexpected: Vec<u64> = missing.iter().copied().filter(|v| !expected_missing.contains(v)).collect();
    let survived_dropped: Vec<u64> = expected_missing.iter().copied().filter(|v| synced.contains(v)).collect();
    r.observe("records-synced-after-release", synced.len() as u64);
    r.observe("records-dropped-by-truncation", missing.len() as u64);
    if !unexpected.is_empty() {
        r.violation(
            "C09:files-e2e:event-lost-outside-a-truncation-window",
            &format!("{} events (first vid {}) are missing although no counted truncation covers them; truncations happened at emits {:?}", unexpected.len(), unexpected[0], trunc_at),
            case(),
        );
    }
    if !survived_dropped.is_empty() {
        r.violation(
            "C09:files-e2e:truncation-did-not-drop-the-whole-pending-queue",
            &format!("{} events inside a counted truncation window were still written", survived_dropped.len()),
            case(),
        );
    }
    if !synced.contains(&(s.events - 1)) {
        r.violation("C09:files-e2e:newest-event-not-kept", "the last emitted event is not in synced content after the flush", case());
    }

    // roll rule over the logged worker batches (fixed clock: one period)
    let batches = logged_batches(&log);
    let mut size: BTreeMap<String, usize> = BTreeMap::new();
    let mut prev: Option<LoggedBatch> = None;
    for b in &batches {
        if let Some(p) = &prev {
            if p.ok && b.ok {
                r.observe("roll-decisions-checked", 1);
                let before = *size.get(&p.path).unwrap_or(&0);
                let rolled = b.created || b.path != p.path;
                let over = before + b.bytes > s.limit;
                if rolled && !over {
                    r.violation(
                        &format!("C11:roll:spurious:{}", if trunc_at.is_empty() { "e2e-no-truncation" } else { "after-overflow-truncation" }),
                        &format!(
                            "the worker moved from {} ({} bytes) to the new file {} for a batch of {} bytes although the limit is {} and the period did not change; {} overflow truncations happened before this batch was taken",
                            p.path,
                            before,
                            b.path,
                            b.bytes,
                            s.limit,
                            trunc_at.len()
                        ),
                        case(),
                    );
                } else if !rolled && over {
                    r.violation(
                        "C11:roll:missing:size-limit:e2e",
                        &format!("the worker stayed on {} ({} bytes) for a batch of {} bytes, limit {}", p.path, before, b.bytes, s.limit),
                        case(),
                    );
                }
            }
        }
        *size.entry(b.path.clone()).or_insert(0) += b.bytes;
        prev = Some(b.clone());
    }
    r.observe("worker-batches-in-op-log", batches.len() as u64);
    if !trunc_at.is_empty() {
        r.nontrivial(&(idx, "truncated"));
    } else {
        r.nontrivial(&(idx, "no-truncation"));
    }
    if idx < 2 {
        let (tr, bl) = (trunc_at.clone(), batches.iter().map(|b| json!([b.path, b.bytes, b.created, b.ok])).collect::<Vec<_>>());
        let c = case();
        r.sample(move || json!({"case": c, "truncations_at_emit": tr, "max_queue_length": max_len, "worker_batches": bl}));
    }
}

fn main() {
    let args = Args::parse();
    let prop = args.get("prop").unwrap_or("C09").to_string();
    let mut r = Report::new(
        &prop,
        &args,
        "one evaluation = one stalled-filesystem scenario (thousands of emits while the worker is parked inside write, then release + flush); \
         non-trivial = distinct scenarios, split by whether the channel overflowed (10 001+ pending) or not",
    );
    emit_batcher::verif::set_delay_divisor(2000);
    let seed = args.seed;
    if let Some(path) = &args.replay {
        let case = load_replay(path);
        let idx = case.get("scenario").and_then(|v| v.as_u64()).unwrap_or(0);
        let cseed = case.get("seed").and_then(|v| v.as_u64()).unwrap_or(seed);
        run(&mut r, cseed, idx);
        run(&mut r, cseed, idx + 1);
        std::process::exit(r.finish());
    }
    let n = args.get_u64("scenarios", args.n(8, 96));
    par_cases(&mut r, &args, n, |i, r| run(r, seed, i));
    std::process::exit(r.finish());
}
