/*!
C11 on the REAL filesystem - behavioural lane (no strace, no hook: public API only).

`c11.rs` judges rolling / size / retention / membership over the in-memory filesystem, whose
`File::len`, directory listing and name matching are the harness's own. The real mapping
(`StdFilesystem` / `StdFile`: how the size of a REUSED file is obtained, how the directory is listed,
which entries count as files) is only reachable through `emit_file::set(..).spawn()`, which fixes
the system clock and the random ids (hook H-F, `verif_spawn_with`, injects clock and rng only
TOGETHER with a filesystem, so it cannot give the real filesystem a fake clock). This monitor
therefore drives the real pipeline on a private temporary directory with the real clock and judges
only what does not depend on where a period boundary falls, using wall-clock readings taken before
and after every round to know which periods the round may have touched.

Scenario (seeded): one file set, or two live sibling sets whose prefixes extend each other
(`app` / `app.extra`), in ONE directory that already holds foreign files, static sibling sets,
look-alikes, a DIRECTORY and two SYMLINKS with well-formed member names (pointing at files outside
the directory), a name that is not UTF-8, old members (some more than `max_files`), a future-dated
member, and a NEWEST member of the current period that is partly filled (optionally ending in a torn
record). Configuration: roll by minute / hour / day, `max_files` 1-6, `max_file_size_bytes` 300-4000,
`reuse_files` mostly on, a fixed-size record writer (exact byte arithmetic) or the default JSON
writer. History: 3-5 process lifetimes (drop the emitter, build a new one on the same directory),
1-3 rounds each; a round emits records whose total is at most the size limit and is one of:
small, half a file, MANY small, EXACTLY the room that is left, or FITS ALONE BUT NOT ON TOP of what
the current / newest file already holds; then `blocking_flush`.

Oracle, from a full read-back of the directory before and after every acknowledged round (the
worker may split a round into several batches; every rule below holds for any split):
 (1) every member file that was created or grew holds at most `max_file_size_bytes` - plus the
     length of the recovery separator for a file reused in the first round after a restart
     (DESIGN 12.7a) - whenever the round's bytes fit into one file on their own;
 (2) at most `max_files` members (regular files with the exact name grammar of this set);
 (3) every record of the round is in at most one member file, at most once; the LAST record of the
     round is there exactly once; all of them are there when the set deleted nothing in that round
     (its own `file_delete` metric);
 (4) members are append-only: what was read before is a prefix of what is read afterwards;
 (5) deletions take the smallest names first: no surviving earlier member sorts below a deleted one;
 (6) a file that existed before the round grows only if it is the CURRENT one - in-process the file
     that received the previous round's last record, after a restart (with `reuse_files`) the member
     with the greatest name - and only while its period is one the round's wall-clock window
     touched; never with `reuse_files(false)` after a restart;
 (7) in-process, when the period did not change and the current file has room for the whole round,
     no new file appears;
 (8) a new member carries a period of the round's wall-clock window (civil-from-days, UTC);
 (9) everything else in the directory (and next to it) is untouched: same names, kinds, bytes and
     link targets, nothing new that is not a member.
A flush that does not return `true` within 120 s makes the scenario inconclusive. Failure metrics of
the set (open / create / write / delete / listing failed) excuse rule (7) and the "all of them" half
of (3) for that round and are counted. The temporary directory is removed by a drop guard, also when
the scenario panics.

Second part - NEIGHBOURS THAT CHANGE THE DIRECTORY CONCURRENTLY (`run_churn`; 4 quick / 24 thorough
scenarios of 200 / 600 rolls). In the scenarios above everything else in the directory is static while
the set works (the only concurrent writer is the optional live sibling set). Here three writer threads
keep creating, deleting and re-creating their own foreign files in the same directory - a cache
(`cache-NNNN.bin` / `thumb-NNNN.tmp`: delete if present, else re-create), a cleanup job (builds up
150-500 `job-*.part` files, sweeps them away, again) and "another file set rolling" (sibling-set names
whose prefix extends ours plus look-alikes of our own names that are not members: id not hex, longer
extension, short counter) - and a fourth thread lists the directory read-only the way `read_dir` +
`metadata` does. With the static bulk (150-1600 files nobody touches) and the pre-existing contents of
the first part the directory holds roughly 600-2800 foreign entries. The set under test has a fixed-size
writer and gets one record of more than half a file per round, so EVERY batch rolls: a directory
listing, retention and a new file per acknowledged flush, each overlapping the neighbours' deletions
(an entry returned by readdir may be gone when it is stat'ed); every 25-64 rolls the emitter is
dropped and started again on the same directory, and the first round after that fits on top of the
member with the greatest name. The neighbours run from just before the emit until `blocking_flush`
has returned; then they are paused (each thread parks and acknowledges), and only then the
directory is read back - neighbours never use names with the set's member grammar and keep a model of
their own files, so every verdict is exact:
 (a) at most `max_files` members after every acknowledged flush
     (`C11:realfs:more-than-max-files:while-neighbours-churn-the-directory`);
 (b) deletions take the smallest names first, i.e. the members with the greatest names are retained;
 (c) the acknowledged record is in exactly one member, once; members are append-only, only the file
     that holds the record grows, nothing exceeds the size limit, new names carry a period of the
     round's wall-clock window;
 (d) after a restart with `reuse_files(true)` the member with the greatest name - period current for
     the whole round, room for the round plus the recovery separator - is appended to and no new file
     is started (the documented behaviour of `reuse_files`; judged here because a listing that loses
     entries shows up as exactly this);
 (e) every 50 rolls and at the end the WHOLE directory is compared: static foreign entries byte-identical,
     every neighbour's file present with the bytes its owner wrote, nothing else that is not a member;
     a neighbour that finds one of its own files gone when it goes to delete it reports that at once.
Nothing is excused by the set's failure metrics here (the neighbours are benign: no listing, open or
delete of the set has a reason to fail); they are quoted in the witness. Evidence: rolls, rolls with
neighbour deletions between emit and flush and how many, the lister's count of listings in which an
entry vanished between readdir and stat. A scenario in which no neighbour deleted anything between any
emit and its flush is inconclusive; the neighbour threads are stopped and joined by a drop guard that
runs before the directory's, on every way out.
*/

use std::{
    collections::{BTreeMap, BTreeSet},
    ffi::OsString,
    io::Write as _,
    os::unix::ffi::OsStringExt,
    path::{Path, PathBuf},
    sync::atomic::{AtomicU64, Ordering},
    time::{Duration, SystemTime, UNIX_EPOCH},
};

use emit::{Emitter as _, Props as _};
use vcommon::*;

// ---------------------------------------------------------------------------
// calendar and name grammar (independent of emit)
// ---------------------------------------------------------------------------

#[derive(Clone, Copy, Debug, PartialEq, Eq, Hash)]
enum Roll {
    Day,
    Hour,
    Minute,
}

impl Roll {
    fn name(self) -> &'static str {
        match self {
            Roll::Day => "day",
            Roll::Hour => "hour",
            Roll::Minute => "minute",
        }
    }
}

fn civil_from_days(z: i64) -> (i64, i64, i64) {
    let z = z + 719468;
    let era = if z >= 0 { z } else { z - 146096 } / 146097;
    let doe = z - era * 146097;
    let yoe = (doe - doe / 1460 + doe / 36524 - doe / 146096) / 365;
    let y = yoe + era * 400;
    let doy = doe - (365 * yoe + yoe / 4 - yoe / 100);
    let mp = (5 * doy + 2) / 153;
    let d = doy - (153 * mp + 2) / 5 + 1;
    let m = if mp < 10 { mp + 3 } else { mp - 9 };
    (if m <= 2 { y + 1 } else { y }, m, d)
}

fn period_of(roll: Roll, unix_nanos: u64) -> String {
    let secs = (unix_nanos / 1_000_000_000) as i64;
    let (y, m, d) = civil_from_days(secs.div_euclid(86400));
    let sod = secs.rem_euclid(86400);
    let (h, mi) = (sod / 3600, sod / 60 % 60);
    match roll {
        Roll::Day => format!("{:04}-{:02}-{:02}", y, m, d),
        Roll::Hour => format!("{:04}-{:02}-{:02}-{:02}", y, m, d, h),
        Roll::Minute => format!("{:04}-{:02}-{:02}-{:02}-{:02}", y, m, d, h, mi),
    }
}

/// `prefix.period.counter.id.ext` (exact grammar): `Some(period)`.
fn parse_member<'a>(name: &'a str, prefix: &str, ext: &str) -> Option<&'a str> {
    let rest = name.strip_prefix(prefix)?.strip_prefix('.')?;
    let rest = rest.strip_suffix(ext)?.strip_suffix('.')?;
    let mut it = rest.split('.');
    let (period, counter, id) = (it.next()?, it.next()?, it.next()?);
    if it.next().is_some() {
        return None;
    }
    let pb = period.as_bytes();
    if !(pb.len() == 10 || pb.len() == 13 || pb.len() == 16) {
        return None;
    }
    for (i, c) in pb.iter().enumerate() {
        let dash = i == 4 || i == 7 || i == 10 || i == 13;
        if dash != (*c == b'-') || (!dash && !c.is_ascii_digit()) {
            return None;
        }
    }
    if counter.len() != 8 || !counter.bytes().all(|b| b.is_ascii_digit()) {
        return None;
    }
    if id.len() != 8 || !id.bytes().all(|b| b.is_ascii_hexdigit()) {
        return None;
    }
    Some(period)
}

fn now_nanos() -> u64 {
    SystemTime::now().duration_since(UNIX_EPOCH).map(|d| d.as_nanos() as u64).unwrap_or(0)
}

// ---------------------------------------------------------------------------
// scenario
// ---------------------------------------------------------------------------

const SEP: &[u8] = b"\n";
/// shortest record of the fixed-size writer: `v=00000000;` + `\n`
const MIN_REC: usize = 12;
/// what one record of the default JSON writer costs without its padding (estimated high; the
/// oracle measures the real bytes on disk)
const JSON_OVERHEAD: usize = 110;
const FLUSH_TIMEOUT: Duration = Duration::from_secs(120);

#[derive(Clone, Debug)]
struct SetCfg {
    prefix: String,
    ext: String,
    roll: Roll,
    max_files: usize,
    max_size: usize,
    reuse: bool,
    json: bool,
}

#[derive(Clone, Copy, Debug, PartialEq, Eq, Hash)]
enum Plan {
    Small,
    Half,
    ManySmall,
    /// exactly the room that is left in the current / newest file
    ExactFill,
    /// fits into an empty file, not on top of what the current / newest file holds
    FitsAloneNotOnTop,
    /// (thorough) sleep to just past the next minute boundary first, then a small round
    AfterMinuteBoundary,
}

#[derive(Clone, Debug)]
struct Pre {
    foreign: bool,
    member_dir: bool,
    symlinks: bool,
    non_utf8: bool,
    old_members: usize,
    /// newest member of the current period filled to this many percent of the limit
    newest_fill_pct: Option<u64>,
    newest_torn_tail: bool,
    future_member: bool,
}

#[derive(Clone, Debug)]
struct Scenario {
    seed: u64,
    idx: u64,
    sets: Vec<SetCfg>,
    pre: Pre,
    /// per lifetime: the plans of its rounds (the same plan kind is used for every live set)
    lives: Vec<Vec<Plan>>,
}

fn gen_scenario(seed: u64, idx: u64, thorough: bool) -> Scenario {
    let mut g = Rng::stream(seed, &[11, 77, idx]);
    let roll = *g.pick(&[Roll::Minute, Roll::Minute, Roll::Hour, Roll::Hour, Roll::Day]);
    let (prefix, ext) = g.pick(&[("app", "txt"), ("log", "log"), ("svc.events", "ndjson"), ("a", "t")]).clone();
    let mk = |g: &mut Rng, prefix: String, json: bool| SetCfg {
        prefix,
        ext: ext.to_string(),
        roll,
        max_files: *g.pick(&[1usize, 2, 2, 3, 3, 4, 6]),
        max_size: if json { 1500 + g.usize(2500) } else { 300 + g.usize(3700) },
        reuse: g.chance(5, 6),
        json,
    };
    let json = g.chance(1, 5);
    let mut sets = vec![mk(&mut g, prefix.to_string(), json)];
    if g.chance(1, 4) {
        // a LIVE sibling whose prefix extends the first one's
        let sib = if g.bool() { format!("{}.extra", prefix) } else { format!("{}x", prefix) };
        let json2 = g.chance(1, 5);
        sets.push(mk(&mut g, sib, json2));
    }
    let pre = Pre {
        foreign: g.chance(3, 4),
        member_dir: g.chance(1, 2),
        symlinks: g.chance(2, 3),
        non_utf8: g.chance(1, 3),
        old_members: g.usize(sets[0].max_files + 4),
        newest_fill_pct: if g.chance(3, 4) { Some(20 + g.below(76)) } else { None },
        newest_torn_tail: g.chance(1, 3),
        future_member: g.chance(1, 8),
    };
    let n_lives = 3 + g.usize(3);
    let mut lives = Vec::new();
    for life in 0..n_lives {
        let n_rounds = 1 + g.usize(3);
        let mut rounds = Vec::new();
        for round in 0..n_rounds {
            let p = if round == 0 {
                match g.below(20) {
                    0..=8 => Plan::FitsAloneNotOnTop,
                    9..=11 => Plan::ExactFill,
                    12..=16 => Plan::Small,
                    _ => Plan::Half,
                }
            } else {
                match g.below(20) {
                    0..=5 => Plan::Small,
                    6..=8 => Plan::Half,
                    9..=11 => Plan::ManySmall,
                    12..=15 => Plan::ExactFill,
                    _ => Plan::FitsAloneNotOnTop,
                }
            };
            rounds.push(p);
        }
        // thorough: one in eight minute-rolling scenarios waits for a real minute boundary once
        if thorough && roll == Roll::Minute && life == 1 && idx % 8 == 0 {
            rounds.push(Plan::AfterMinuteBoundary);
        }
        lives.push(rounds);
    }
    Scenario { seed, idx, sets, pre, lives }
}

fn scenario_json(s: &Scenario) -> Json {
    json!({
        "seed": s.seed, "scenario": s.idx,
        "sets": s.sets.iter().map(|c| json!({"prefix": c.prefix, "ext": c.ext, "roll_by": c.roll.name(), "max_files": c.max_files,
            "max_file_size_bytes": c.max_size, "reuse_files": c.reuse, "writer": if c.json { "default-json" } else { "fixed-size" }})).collect::<Vec<_>>(),
        "pre_existing": format!("{:?}", s.pre),
        "lives": s.lives.iter().map(|l| l.iter().map(|p| format!("{:?}", p)).collect::<Vec<_>>()).collect::<Vec<_>>(),
    })
}

// ---------------------------------------------------------------------------
// the directory as read back
// ---------------------------------------------------------------------------

#[derive(Clone, Debug, PartialEq, Eq)]
enum Entry {
    File(Vec<u8>),
    Dir,
    Symlink(PathBuf),
    Other,
}

impl Entry {
    fn kind(&self) -> &'static str {
        match self {
            Entry::File(_) => "file",
            Entry::Dir => "directory",
            Entry::Symlink(_) => "symlink",
            Entry::Other => "other",
        }
    }
}

type Snapshot = BTreeMap<Vec<u8>, Entry>;

fn snapshot(dir: &Path) -> std::io::Result<Snapshot> {
    let mut out = BTreeMap::new();
    for e in std::fs::read_dir(dir)? {
        let e = e?;
        let name = e.file_name().into_vec();
        let md = std::fs::symlink_metadata(e.path())?;
        let ft = md.file_type();
        let entry = if ft.is_symlink() {
            Entry::Symlink(std::fs::read_link(e.path())?)
        } else if ft.is_dir() {
            Entry::Dir
        } else if ft.is_file() {
            Entry::File(std::fs::read(e.path())?)
        } else {
            Entry::Other
        };
        out.insert(name, entry);
    }
    Ok(out)
}

fn show_name(n: &[u8]) -> String {
    show_bytes(n)
}

/// Members of a set in a snapshot: regular files whose name has the exact grammar.
fn members<'a>(snap: &'a Snapshot, cfg: &SetCfg) -> BTreeMap<String, &'a Vec<u8>> {
    let mut out = BTreeMap::new();
    for (n, e) in snap {
        if let (Ok(name), Entry::File(bytes)) = (std::str::from_utf8(n), e) {
            if parse_member(name, &cfg.prefix, &cfg.ext).is_some() {
                out.insert(name.to_string(), bytes);
            }
        }
    }
    out
}

/// Everything in a snapshot that is a member of none of the sets.
fn foreign_of(snap: &Snapshot, sets: &[SetCfg]) -> Snapshot {
    snap.iter()
        .filter(|(n, e)| {
            let is_member = matches!(e, Entry::File(_))
                && std::str::from_utf8(n).map(|name| sets.iter().any(|c| parse_member(name, &c.prefix, &c.ext).is_some())).unwrap_or(false);
            !is_member
        })
        .map(|(n, e)| (n.clone(), e.clone()))
        .collect()
}

fn vid_of_line(line: &[u8]) -> Option<u64> {
    let s = std::str::from_utf8(line).ok()?;
    if let Some(rest) = s.strip_prefix("v=") {
        let digits = rest.get(..8)?;
        if rest.as_bytes().get(8) == Some(&b';') && digits.bytes().all(|b| b.is_ascii_digit()) {
            return digits.parse().ok();
        }
        return None;
    }
    if s.starts_with('{') && s.ends_with('}') {
        let at = s.find("\"vid\":")? + 6;
        let digits: String = s[at..].chars().take_while(|c| c.is_ascii_digit()).collect();
        return digits.parse().ok();
    }
    None
}

// ---------------------------------------------------------------------------
// the rig
// ---------------------------------------------------------------------------

struct TmpDir(PathBuf);

impl Drop for TmpDir {
    fn drop(&mut self) {
        let _ = std::fs::remove_dir_all(&self.0);
    }
}

static DIR_COUNTER: AtomicU64 = AtomicU64::new(0);

fn tmp_base() -> PathBuf {
    let harness = std::env::var_os("VERIF_HARNESS").map(PathBuf::from).or_else(|| std::env::current_dir().ok());
    if let Some(h) = harness {
        let p = h.join("target").join("tmp");
        if h.join("target").is_dir() && std::fs::create_dir_all(&p).is_ok() {
            return p;
        }
    }
    std::env::temp_dir()
}

fn make_tmp(seed: u64, idx: u64) -> std::io::Result<TmpDir> {
    let base = tmp_base();
    let name = format!("c11real-{}-{}-{}-{}-{}", std::process::id(), seed, idx, DIR_COUNTER.fetch_add(1, Ordering::SeqCst), now_nanos() % 1_000_000_007);
    let p = base.join(name);
    std::fs::create_dir(&p)?;
    Ok(TmpDir(p))
}

/// Directories of earlier runs of this monitor that were killed before their drop guard ran.
fn sweep_stale() {
    let base = tmp_base();
    let Ok(rd) = std::fs::read_dir(&base) else { return };
    for e in rd.flatten() {
        let name = e.file_name();
        if !name.to_string_lossy().starts_with("c11real-") {
            continue;
        }
        let old = e.metadata().and_then(|m| m.modified()).ok().and_then(|t| t.elapsed().ok()).map(|d| d > Duration::from_secs(6 * 3600)).unwrap_or(false);
        if old {
            let _ = std::fs::remove_dir_all(e.path());
        }
    }
}

fn fixed_record(vid: u64, len: usize) -> Vec<u8> {
    let mut v = format!("v={:08};", vid).into_bytes();
    while v.len() + 1 < len {
        v.push(b'p');
    }
    v.push(b'\n');
    v
}

fn spawn_set(dir: &Path, cfg: &SetCfg) -> emit_file::FileSet {
    let template = dir.join(format!("{}.{}", cfg.prefix, cfg.ext));
    let b = if cfg.json {
        emit_file::set(template)
    } else {
        emit_file::set_with_writer(
            template,
            |buf, evt| {
                let vid = evt.props().pull::<u64, _>("vid").unwrap_or(99_999_999);
                let len = evt.props().pull::<u64, _>("len").unwrap_or(MIN_REC as u64) as usize;
                buf.write_all(&fixed_record(vid, len))
            },
            SEP,
        )
    };
    let b = match cfg.roll {
        Roll::Day => b.roll_by_day(),
        Roll::Hour => b.roll_by_hour(),
        Roll::Minute => b.roll_by_minute(),
    };
    b.max_files(cfg.max_files).max_file_size_bytes(cfg.max_size).reuse_files(cfg.reuse).spawn()
}

struct MapSampler(std::cell::RefCell<BTreeMap<String, u64>>);

impl emit::metric::Sampler for MapSampler {
    fn metric<P: emit::Props>(&self, metric: emit::metric::Metric<P>) {
        let v = metric.value().to_string().parse::<u64>().unwrap_or(u64::MAX);
        self.0.borrow_mut().insert(metric.name().to_string(), v);
    }
}

fn sample_metrics(files: &emit_file::FileSet) -> BTreeMap<String, u64> {
    use emit::metric::Source as _;
    let s = MapSampler(std::cell::RefCell::new(BTreeMap::new()));
    files.metric_source().sample_metrics(&s);
    s.0.into_inner()
}

const FAILURE_METRICS: [&str; 6] = ["file_set_read_failed", "file_open_failed", "file_create_failed", "file_write_failed", "file_delete_failed", "event_format_failed"];

/// Per live set: what the oracle remembers between rounds.
struct SetState {
    cfg: SetCfg,
    files: Option<emit_file::FileSet>,
    /// file that received the last record of the previous round of THIS lifetime
    active: Option<String>,
    rounds_in_life: usize,
    next_vid: u64,
    metrics: BTreeMap<String, u64>,
}

/// The records one set is asked to write in one round: (vid, requested length).
fn plan_round(g: &mut Rng, plan: Plan, cfg: &SetCfg, cur_size: Option<usize>, st: &mut SetState) -> Vec<(u64, usize)> {
    let max = cfg.max_size;
    let min_rec = if cfg.json { JSON_OVERHEAD + 10 } else { MIN_REC };
    let room = cur_size.map(|c| max.saturating_sub(c));
    let total = match plan {
        Plan::Small | Plan::AfterMinuteBoundary => max * (8 + g.usize(8)) / 100,
        Plan::Half => max * (40 + g.usize(20)) / 100,
        Plan::ManySmall => min_rec * (5 + g.usize(4)),
        Plan::ExactFill => match room {
            Some(r) if r >= min_rec => r,
            _ => max * (8 + g.usize(8)) / 100,
        },
        Plan::FitsAloneNotOnTop => match (cur_size, room) {
            (Some(c), Some(r)) if c > 0 && r < max => r + 1 + g.usize(max - r),
            _ => max * (60 + g.usize(41)) / 100,
        },
    };
    // the JSON writer's record size is only estimated: stay well inside the limit
    let total = if cfg.json { total.min(max * 7 / 10) } else { total.min(max) }.max(min_rec);
    let k_max = (total / min_rec).max(1);
    let k = match plan {
        Plan::ManySmall => k_max,
        _ => 1 + g.usize(k_max.min(5)),
    };
    // split `total` into k records of at least min_rec bytes
    let mut lens = vec![min_rec; k];
    let mut left = total - min_rec * k;
    for i in 0..k {
        let take = if i + 1 == k { left } else { g.usize(left + 1) };
        lens[i] += take;
        left -= take;
    }
    g.shuffle(&mut lens);
    lens.into_iter()
        .map(|l| {
            let v = st.next_vid;
            st.next_vid += 1;
            (v, l)
        })
        .collect()
}

fn emit_record(files: &emit_file::FileSet, cfg: &SetCfg, vid: u64, len: usize) {
    if cfg.json {
        let pad = "p".repeat(len.saturating_sub(JSON_OVERHEAD));
        files.emit(emit::Event::new(
            emit::Path::new_raw("c11real"),
            emit::Template::literal("c11real record"),
            emit::Empty,
            [("vid", emit::Value::from(vid)), ("pad", emit::Value::from(&*pad))],
        ));
    } else {
        files.emit(emit::Event::new(
            emit::Path::new_raw("c11real"),
            emit::Template::literal("c11real record"),
            emit::Empty,
            [("vid", vid), ("len", len as u64)],
        ));
    }
}

/// Fill the directory before the first start. Returns nothing; the baseline is read back afterwards.
fn populate(g: &mut Rng, root: &Path, dir: &Path, s: &Scenario) -> std::io::Result<()> {
    let outside = root.join("outside");
    std::fs::create_dir(&outside)?;
    std::fs::write(outside.join("unrelated.txt"), b"next to the log directory\n")?;
    let main = &s.sets[0];
    let old_period = |i: usize| match main.roll {
        Roll::Day => format!("2020-01-{:02}", 1 + i % 28),
        Roll::Hour => format!("2020-01-01-{:02}", i % 24),
        Roll::Minute => format!("2020-01-01-00-{:02}", i % 60),
    };
    let (p, e) = (&main.prefix, &main.ext);
    if s.pre.foreign {
        let live: BTreeSet<&str> = s.sets.iter().map(|c| c.prefix.as_str()).collect();
        let put = |name: String, bytes: &[u8]| -> std::io::Result<()> {
            // (never a member of a LIVE set: those are judged by their own oracle)
            if s.sets.iter().any(|c| parse_member(&name, &c.prefix, &c.ext).is_some()) {
                return Ok(());
            }
            std::fs::write(dir.join(name), bytes)
        };
        put("readme.md".into(), b"not a log\n")?;
        put(format!("{}.{}", p, e), b"the template name itself\n")?;
        for sib in [format!("{}ger", p), format!("{}.old", p), p[..p.len() - 1].to_string() + "_"] {
            if !live.contains(sib.as_str()) {
                put(format!("{}.{}.00000000.0000000{}.{}", sib, old_period(3), 1 + g.below(8), e), b"v=70000001;a static sibling set\n")?;
                put(format!("{}.{}.00000000.0000aaaa.{}", sib, period_of(main.roll, now_nanos()), e), b"v=70000002;a static sibling set, current period\n")?;
            }
        }
        put(format!("{}.{}.00000000.00000002.x{}", p, old_period(4), e), b"sibling whose extension extends ours\n")?;
        put(format!("{}.{}.00000000.00000003.{}x", p, period_of(main.roll, now_nanos()), e), b"sibling whose extension ours is a prefix of\n")?;
        put(format!("{}.{}.00000000.{}", p, old_period(5), e), b"look-alike without an id\n")?;
        put(format!("{}.{}.0000000.00000005.{}", p, period_of(main.roll, now_nanos()), e), b"look-alike with a short counter\n")?;
        put(format!("{}.{}.00000000.0000000g.{}", p, period_of(main.roll, now_nanos()), e), b"look-alike whose id is not hex\n")?;
    }
    if s.pre.member_dir {
        let d = dir.join(format!("{}.{}.00000000.0000d1d1.{}", p, old_period(0), e));
        std::fs::create_dir(&d)?;
        std::fs::write(d.join("keep.txt"), b"inside a directory that is named like a member\n")?;
    }
    if s.pre.symlinks {
        std::fs::write(outside.join("target-new.txt"), b"v=70000011;target of a symlink named like the newest member\n")?;
        std::fs::write(outside.join("target-old.txt"), b"v=70000012;target of a symlink named like the oldest member\n")?;
        std::os::unix::fs::symlink(outside.join("target-new.txt"), dir.join(format!("{}.{}.99999999.ffffffff.{}", p, period_of(main.roll, now_nanos()), e)))?;
        std::os::unix::fs::symlink(outside.join("target-old.txt"), dir.join(format!("{}.2001-01-01{}.00000000.00000001.{}", p, match main.roll { Roll::Day => "", Roll::Hour => "-00", Roll::Minute => "-00-00" }, e)))?;
    }
    if s.pre.non_utf8 {
        let mut n = format!("{}.", p).into_bytes();
        n.extend_from_slice(b"2020-\xff\xfe-01.00000000.00000001.");
        n.extend_from_slice(e.as_bytes());
        std::fs::write(dir.join(OsString::from_vec(n)), b"a name that is not UTF-8\n")?;
    }
    // members of the main set written by "an earlier process"
    for i in 0..s.pre.old_members {
        let period = if i == 1 && main.roll != Roll::Day { "2019-12-31".to_string() } else { old_period(10 + i) };
        std::fs::write(dir.join(format!("{}.{}.{:08}.{:08x}.{}", p, period, i, 0xb000 + i, e)), fixed_record(60_000_000 + i as u64, 30))?;
    }
    if let Some(pct) = s.pre.newest_fill_pct {
        let mut bytes = Vec::new();
        let want = main.max_size * pct as usize / 100;
        let mut v = 80_000_000u64;
        while bytes.len() + MIN_REC <= want {
            let l = (want - bytes.len()).min(MIN_REC + g.usize(60));
            bytes.extend_from_slice(&fixed_record(v, l));
            v += 1;
        }
        if s.pre.newest_torn_tail {
            bytes.extend_from_slice(b"v=8999");
        }
        std::fs::write(dir.join(format!("{}.{}.00000000.0000aaaa.{}", p, period_of(main.roll, now_nanos()), e)), bytes)?;
    }
    if s.pre.future_member {
        let period = match main.roll {
            Roll::Day => "2099-01-01",
            Roll::Hour => "2099-01-01-00",
            Roll::Minute => "2099-01-01-00-00",
        };
        std::fs::write(dir.join(format!("{}.{}.00000000.0000ffff.{}", p, period, e)), fixed_record(61_000_000, 40))?;
    }
    Ok(())
}

#[derive(Default)]
struct Tally {
    reuse_appends: u64,
    no_room_rolls: u64,
    deletions: u64,
    size_rolls_in_process: u64,
}

/// Run one scenario. `Err` = could not be carried out (inconclusive).
fn run_scenario(r: &mut Report, s: &Scenario) -> Result<(), String> {
    let io = |what: &str, e: std::io::Error| format!("scenario {}: {}: {}", s.idx, what, e);
    let tmp = make_tmp(s.seed, s.idx).map_err(|e| io("temporary directory", e))?;
    let root = tmp.0.clone();
    let dir = root.join("logs");
    std::fs::create_dir(&dir).map_err(|e| io("log directory", e))?;
    let mut g = Rng::stream(s.seed, &[11, 78, s.idx]);
    populate(&mut g, &root, &dir, s).map_err(|e| io("populate", e))?;
    let case = |extra: Json| json!({"part": "real-filesystem", "seed": s.seed, "scenario": s.idx, "config": scenario_json(s), "at": extra});

    let outside_baseline = snapshot(&root.join("outside")).map_err(|e| io("read back", e))?;
    let foreign_baseline = foreign_of(&snapshot(&dir).map_err(|e| io("read back", e))?, &s.sets);
    r.observe("realfs:foreign-entries-watched", (foreign_baseline.len() + outside_baseline.len()) as u64);

    let mut states: Vec<SetState> = s
        .sets
        .iter()
        .enumerate()
        .map(|(i, c)| SetState { cfg: c.clone(), files: None, active: None, rounds_in_life: 0, next_vid: 1 + i as u64 * 1_000_000, metrics: BTreeMap::new() })
        .collect();
    let mut tally = Tally::default();

    for (life, rounds) in s.lives.iter().enumerate() {
        // (re)start: drop the emitters, build new ones on the same directory
        for st in states.iter_mut() {
            st.files = None;
            st.active = None;
            st.rounds_in_life = 0;
            st.metrics = BTreeMap::new();
        }
        for st in states.iter_mut() {
            st.files = Some(spawn_set(&dir, &st.cfg));
        }
        r.observe(if life == 0 { "realfs:starts" } else { "realfs:restarts" }, states.len() as u64);

        for (round, plan) in rounds.iter().enumerate() {
            if *plan == Plan::AfterMinuteBoundary {
                let now = now_nanos();
                let to_boundary = 60_000_000_000 - now % 60_000_000_000;
                std::thread::sleep(Duration::from_nanos(to_boundary + 30_000_000));
                r.observe("realfs:waited-for-a-real-minute-boundary", 1);
            }
            let before = snapshot(&dir).map_err(|e| io("read back", e))?;
            // plan against what is on disk now
            let mut planned: Vec<Vec<(u64, usize)>> = Vec::new();
            for st in states.iter_mut() {
                let mem = members(&before, &st.cfg);
                let cur = if st.rounds_in_life > 0 {
                    st.active.as_ref().and_then(|a| mem.get(a)).map(|b| b.len())
                } else if st.cfg.reuse {
                    mem.iter().next_back().map(|(_, b)| b.len())
                } else {
                    None
                };
                let cfg = st.cfg.clone();
                planned.push(plan_round(&mut g, *plan, &cfg, cur, st));
            }
            let t_before = now_nanos();
            for (st, recs) in states.iter().zip(&planned) {
                for (vid, len) in recs {
                    emit_record(st.files.as_ref().unwrap(), &st.cfg, *vid, *len);
                }
            }
            for st in states.iter() {
                if !st.files.as_ref().unwrap().blocking_flush(FLUSH_TIMEOUT) {
                    return Err(format!("scenario {}: blocking_flush did not return true within {:?} on the real filesystem (life {}, round {})", s.idx, FLUSH_TIMEOUT, life, round));
                }
            }
            let t_after = now_nanos();
            let after = snapshot(&dir).map_err(|e| io("read back", e))?;
            r.observe("realfs:rounds-acknowledged", states.len() as u64);

            for (st, recs) in states.iter_mut().zip(&planned) {
                let cfg = st.cfg.clone();
                let at = |what: &str| json!({"life": life, "round": round, "plan": format!("{:?}", plan), "set": cfg.prefix, "what": what});
                let m_before = members(&before, &cfg);
                let m_after = members(&after, &cfg);
                let p_lo = period_of(cfg.roll, t_before);
                let p_hi = period_of(cfg.roll, t_after);
                let metrics = sample_metrics(st.files.as_ref().unwrap());
                let delta = |k: &str| metrics.get(k).copied().unwrap_or(0).saturating_sub(st.metrics.get(k).copied().unwrap_or(0));
                let failures: u64 = FAILURE_METRICS.iter().map(|k| delta(k)).sum();
                let deleted_by_metric = delta("file_delete");
                r.observe("realfs:failure-metrics", failures);
                r.observe("realfs:files-created(metric)", delta("file_create"));
                r.observe("realfs:files-deleted(metric)", deleted_by_metric);
                tally.deletions += deleted_by_metric;

                let after_restart = st.rounds_in_life == 0;
                let newest_before = m_before.keys().next_back().cloned();
                let created: Vec<&String> = m_after.keys().filter(|n| !m_before.contains_key(*n)).collect();
                let deleted: Vec<&String> = m_before.keys().filter(|n| !m_after.contains_key(*n)).collect();
                let grew: Vec<&String> = m_after.iter().filter(|(n, b)| m_before.get(*n).map(|old| old.len() != b.len() || old != *b).unwrap_or(false)).map(|(n, _)| n).collect();

                // where the round's records are, and how many bytes they take on disk
                let mut found: BTreeMap<u64, Vec<&String>> = BTreeMap::new();
                let mut measured: BTreeMap<u64, usize> = BTreeMap::new();
                let round_vids: BTreeSet<u64> = recs.iter().map(|(v, _)| *v).collect();
                for (n, bytes) in &m_after {
                    let mut start = 0;
                    for (i, b) in bytes.iter().enumerate() {
                        if *b == b'\n' {
                            if let Some(v) = vid_of_line(&bytes[start..i]) {
                                if round_vids.contains(&v) {
                                    found.entry(v).or_default().push(n);
                                    measured.insert(v, i + 1 - start);
                                }
                            }
                            start = i + 1;
                        }
                    }
                }
                // bytes of the round: exact for the fixed-size writer; for the JSON writer what is measured on
                // disk, and the (deliberately high) estimate for a record that is no longer there - an UPPER bound
                let mut round_bytes = 0usize;
                let mut size_known = true;
                for (v, l) in recs {
                    match measured.get(v) {
                        Some(m) if *m != *l && !cfg.json => {
                            r.violation(
                                "C11:realfs:record-bytes-differ",
                                &format!("record {} was written as {} bytes, the writer produced {}", v, m, l),
                                case(at("records")),
                            );
                            round_bytes += *l;
                        }
                        Some(m) if cfg.json => {
                            if *m > *l {
                                size_known = false;
                            }
                            round_bytes += *m;
                        }
                        _ => round_bytes += *l,
                    }
                }
                if !size_known {
                    r.observe("realfs:json-record-larger-than-estimated:size-rules-skipped", 1);
                }

                // (4) append-only
                for (n, old) in &m_before {
                    if let Some(new) = m_after.get(n) {
                        if !new.starts_with(old) {
                            r.violation(
                                "C11:realfs:member-not-append-only",
                                &format!("{}: what was read before the round ({} bytes) is not a prefix of what is read after it ({} bytes)", n, old.len(), new.len()),
                                case(at("append-only")),
                            );
                        }
                    }
                }
                // (1) size limit on every file that was created or grew
                if round_bytes <= cfg.max_size && size_known {
                    for n in created.iter().chain(grew.iter()) {
                        let len = m_after[*n].len();
                        let reused = after_restart && m_before.contains_key(*n);
                        let slack = if reused { SEP.len() } else { 0 };
                        r.observe("realfs:size-limit-judged", 1);
                        if len > cfg.max_size + slack {
                            let class = if reused { "reused-after-restart" } else if m_before.contains_key(*n) { "in-process" } else { "new-file" };
                            r.violation(
                                &format!("C11:realfs:file-over-size-limit:{}", class),
                                &format!(
                                    "{} holds {} bytes after a round of {} bytes, limit {} (+{} for the recovery separator of a reused file); it held {} bytes before the round",
                                    n, len, round_bytes, cfg.max_size, slack, m_before.get(*n).map(|b| b.len()).unwrap_or(0)
                                ),
                                case(at("size limit")),
                            );
                        }
                    }
                } else {
                    r.observe("realfs:size-limit-not-judged:round-larger-than-a-file", 1);
                }
                // (2) member count
                r.observe("realfs:member-count-judged", 1);
                if m_after.len() > cfg.max_files {
                    r.violation(
                        "C11:realfs:more-than-max-files",
                        &format!("{} members after an acknowledged round, max_files = {}: {:?}", m_after.len(), cfg.max_files, m_after.keys().collect::<Vec<_>>()),
                        case(at("member count")),
                    );
                }
                // (3) the round's records
                let last_vid = recs.last().map(|(v, _)| *v);
                for (vid, _) in recs {
                    let places = found.get(vid).map(|v| v.len()).unwrap_or(0);
                    r.observe("realfs:acknowledged-records-looked-up", 1);
                    if places > 1 {
                        r.violation(
                            "C11:realfs:acknowledged-record-more-than-once",
                            &format!("record {} of the round is on disk {} times (in {:?})", vid, places, found.get(vid)),
                            case(at("records")),
                        );
                    } else if places == 0 {
                        let must = Some(*vid) == last_vid || (deleted_by_metric == 0 && deleted.is_empty() && failures == 0);
                        if must {
                            r.violation(
                                if Some(*vid) == last_vid { "C11:realfs:acknowledged-record-missing:last-of-the-round" } else { "C11:realfs:acknowledged-record-missing:nothing-was-deleted" },
                                &format!("record {} was acknowledged by a flush and is in no member file (members: {:?})", vid, m_after.keys().collect::<Vec<_>>()),
                                case(at("records")),
                            );
                        } else {
                            r.observe("realfs:missing-record-not-judged:its-file-may-have-been-retired-in-the-same-round", 1);
                        }
                    }
                }
                // (5) deletions take the smallest names first
                for d in &deleted {
                    if let Some(survivor) = m_before.keys().filter(|n| m_after.contains_key(*n)).find(|n| *n < *d) {
                        r.violation(
                            "C11:realfs:retention-deleted-a-newer-member-first",
                            &format!("{} was deleted while {} (a smaller name) was kept", d, survivor),
                            case(at("retention order")),
                        );
                    }
                }
                // (6) only the current file grows
                for n in &grew {
                    let period = parse_member(n, &cfg.prefix, &cfg.ext).unwrap_or("");
                    let in_window = period >= p_lo.as_str() && period <= p_hi.as_str();
                    let current = if after_restart { cfg.reuse && Some(*n) == newest_before.as_ref() } else { Some(*n) == st.active.as_ref() };
                    r.observe("realfs:growth-of-an-existing-file-judged", 1);
                    if after_restart && !cfg.reuse {
                        r.violation(
                            "C11:realfs:reused-a-file-although-reuse-is-off",
                            &format!("{} grew in the first round after a restart with reuse_files(false)", n),
                            case(at("reuse")),
                        );
                    } else if !current {
                        r.violation(
                            &format!("C11:realfs:appended-to-a-member-that-is-not-current:{}", if after_restart { "after-restart" } else { "in-process" }),
                            &format!("{} grew; the current file is {:?}", n, if after_restart { &newest_before } else { &st.active }),
                            case(at("current file")),
                        );
                    } else if !in_window {
                        r.violation(
                            "C11:realfs:appended-after-the-period-changed",
                            &format!("{} (period {}) grew in a round whose wall-clock window is {} .. {}", n, period, p_lo, p_hi),
                            case(at("period")),
                        );
                    } else if after_restart {
                        tally.reuse_appends += 1;
                        r.observe("realfs:reuse:appended-to-the-newest-member-after-a-restart", 1);
                    }
                }
                // after a restart with reuse: the newest member had no room for the round -> it must not have taken all of it (rule 1 judges that)
                if after_restart && cfg.reuse {
                    if let Some(nb) = &newest_before {
                        if m_before[nb].len() + round_bytes > cfg.max_size && !created.is_empty() {
                            tally.no_room_rolls += 1;
                            r.observe("realfs:reuse:newest-member-had-no-room:new-file-started", 1);
                        }
                        if m_before[nb].len() + round_bytes == cfg.max_size {
                            r.observe("realfs:reuse:round-exactly-fills-the-newest-member", 1);
                        }
                    }
                }
                // (7) no roll while the round fits and the period did not change
                if !after_restart && failures == 0 && size_known {
                    if let Some(a) = st.active.as_ref().filter(|a| m_before.contains_key(*a)) {
                        let period = parse_member(a, &cfg.prefix, &cfg.ext).unwrap_or("");
                        let fits = m_before[a].len() + round_bytes <= cfg.max_size;
                        if period == p_lo && period == p_hi && fits {
                            r.observe("realfs:in-process:no-roll-expected-judged", 1);
                            if m_before[a].len() + round_bytes == cfg.max_size {
                                r.observe("realfs:in-process:round-exactly-fills-the-current-file", 1);
                            }
                            if !created.is_empty() {
                                r.violation(
                                    "C11:realfs:rolled-although-the-round-fits-and-the-period-is-unchanged",
                                    &format!("current file {} held {} bytes, the round has {} bytes, limit {}, period {} throughout - yet {:?} appeared", a, m_before[a].len(), round_bytes, cfg.max_size, period, created),
                                    case(json!({"life": life, "round": round, "plan": format!("{:?}", plan), "set": cfg.prefix, "what": "roll rule",
                                        "records_of_the_round": recs.iter().map(|(v, l)| json!({"vid": v, "bytes": l, "in": found.get(v)})).collect::<Vec<_>>(),
                                        "metrics_of_the_set_now": metrics, "metrics_before_the_round": st.metrics,
                                        "members_before": m_before.iter().map(|(n, b)| json!([n, b.len()])).collect::<Vec<_>>(),
                                        "members_after": m_after.iter().map(|(n, b)| json!([n, b.len()])).collect::<Vec<_>>()})),
                                );
                            }
                        } else if !fits && !created.is_empty() {
                            tally.size_rolls_in_process += 1;
                            r.observe("realfs:in-process:rolled-by-size", 1);
                        } else if period != p_hi {
                            r.observe("realfs:in-process:period-changed-during-or-before-the-round", 1);
                        }
                    }
                }
                // (8) names of new members
                for n in &created {
                    let period = parse_member(n, &cfg.prefix, &cfg.ext).unwrap_or("");
                    r.observe("realfs:new-member-names-judged", 1);
                    if !(period >= p_lo.as_str() && period <= p_hi.as_str()) {
                        r.violation(
                            "C11:realfs:new-member-period-outside-the-wall-clock-window",
                            &format!("{} was created in a round whose wall-clock window is {} .. {} (roll by {})", n, p_lo, p_hi, cfg.roll.name()),
                            case(at("name")),
                        );
                    }
                }
                // bookkeeping
                st.active = last_vid.and_then(|v| found.get(&v)).and_then(|v| v.first()).map(|n| n.to_string());
                st.rounds_in_life += 1;
                st.metrics = metrics;
            }

            // (9) nothing else is touched
            let foreign_now = foreign_of(&after, &s.sets);
            let outside_now = snapshot(&root.join("outside")).map_err(|e| io("read back", e))?;
            r.observe("realfs:foreign-entries-compared", (foreign_now.len() + outside_now.len()) as u64);
            for (which, base, now) in [("in the log directory", &foreign_baseline, &foreign_now), ("next to the log directory", &outside_baseline, &outside_now)] {
                for (n, e) in base {
                    let named_like_member = std::str::from_utf8(n).map(|name| s.sets.iter().any(|c| parse_member(name, &c.prefix, &c.ext).is_some())).unwrap_or(false);
                    let class = format!("{}{}", e.kind(), if named_like_member { "-named-like-a-member" } else if which.starts_with("next") { "-outside-the-directory" } else { "" });
                    match now.get(n) {
                        None => r.violation(
                            &format!("C11:realfs:foreign-entry-gone:{}", class),
                            &format!("{} ({}, {}) is gone after life {} round {}", show_name(n), e.kind(), which, life, round),
                            case(json!({"life": life, "round": round, "what": "foreign entries"})),
                        ),
                        Some(x) if x != e => r.violation(
                            &format!("C11:realfs:foreign-entry-changed:{}", class),
                            &format!(
                                "{} ({}, {}) changed: {} -> {}",
                                show_name(n),
                                e.kind(),
                                which,
                                match e { Entry::File(b) => format!("{} bytes", b.len()), other => format!("{:?}", other) },
                                match x { Entry::File(b) => format!("{} bytes ending {:?}", b.len(), show_bytes(&b[b.len().saturating_sub(40)..])), other => format!("{:?}", other) }
                            ),
                            case(json!({"life": life, "round": round, "what": "foreign entries"})),
                        ),
                        _ => {}
                    }
                }
                for (n, e) in now {
                    if !base.contains_key(n) {
                        r.violation(
                            "C11:realfs:entry-created-that-is-not-a-member",
                            &format!("{} ({}) appeared {} and is not a member of the set(s)", show_name(n), e.kind(), which),
                            case(json!({"life": life, "round": round, "what": "foreign entries"})),
                        );
                    }
                }
            }
            let root_entries: BTreeSet<Vec<u8>> = snapshot(&root).map_err(|e| io("read back", e))?.into_keys().collect();
            if root_entries != [b"logs".to_vec(), b"outside".to_vec()].into_iter().collect() {
                r.violation(
                    "C11:realfs:entry-created-that-is-not-a-member",
                    &format!("the parent of the log directory now holds {:?}", root_entries.iter().map(|n| show_name(n)).collect::<Vec<_>>()),
                    case(json!({"life": life, "round": round, "what": "parent directory"})),
                );
            }
        }
    }
    for st in states.iter_mut() {
        st.files = None;
    }
    if tally.reuse_appends > 0 && tally.no_room_rolls > 0 && tally.deletions > 0 {
        r.nontrivial(&("real-filesystem", s.idx, s.seed));
    }
    if r.wants_sample() && tally.reuse_appends > 0 && tally.no_room_rolls > 0 {
        let left: Vec<String> = snapshot(&dir).map(|sn| sn.iter().map(|(n, e)| format!("{} ({}{})", show_name(n), e.kind(), match e { Entry::File(b) => format!(", {} bytes", b.len()), _ => String::new() })).collect()).unwrap_or_default();
        r.sample(|| json!({"part": "real-filesystem", "config": scenario_json(s), "appends_to_the_reused_newest_member": tally.reuse_appends,
            "restarts_where_the_newest_member_had_no_room": tally.no_room_rolls, "deletions": tally.deletions, "size_rolls_in_process": tally.size_rolls_in_process,
            "directory_at_the_end": left}));
    }
    drop(tmp);
    Ok(())
}

// ---------------------------------------------------------------------------
// neighbours that change the directory WHILE the set rolls
// ---------------------------------------------------------------------------
//
// Everything above keeps the rest of the directory static while the set works. Here the directory
// is shared with other writers that run concurrently: a cache that deletes and re-creates its own
// entries as fast as it can, a cleanup job that builds up a few hundred files and sweeps them away,
// "another file set rolling" (names with the grammar of a sibling set whose prefix extends ours, and
// look-alikes of our own names that are NOT members), and a read-only lister. The directory holds
// hundreds to thousands of foreign entries, so every listing the set takes (one per roll: the set rolls
// on every batch) overlaps neighbours' deletions - an entry returned by readdir may be gone by the
// time it is stat'ed. The statement's "whatever else shares the directory" covers that: after every
// acknowledged flush at most `max_files` members, smallest names deleted first, the acknowledged
// record on disk exactly once, a restart with `reuse_files` still finds the member with the greatest
// name, and no foreign entry is touched.
//
// Verdicts are exact, not racy: the neighbours run from just before the emit until `blocking_flush`
// has returned, then they are PAUSED (every neighbour thread parks and acknowledges it) and the
// directory is read back; neighbours never use names with the set's member grammar, each keeps a
// model of its own files (it is their only writer), and the models are compared with the directory
// while everybody is parked. How many neighbour deletions happened between emit and flush is counted
// per roll; the read-only lister lists the way `read_dir` + `metadata` does and counts the entries it
// saw vanish between the two, which shows that the overlap really happens at this churn rate.

const CHURN: &str = "while-neighbours-churn-the-directory";
const NB_RUN: u8 = 0;
const NB_PAUSE: u8 = 1;
const NB_STOP: u8 = 2;

#[derive(Default)]
struct NbShared {
    mode: std::sync::atomic::AtomicU8,
    parked: std::sync::Mutex<usize>,
    cv: std::sync::Condvar,
    ops: AtomicU64,
    deletions: AtomicU64,
    creations: AtomicU64,
    probe_listings: AtomicU64,
    probe_listings_overlapped: AtomicU64,
    probe_vanished: AtomicU64,
    /// what a neighbour noticed about its OWN files: (class, text)
    trouble: std::sync::Mutex<Vec<(String, String)>>,
}

impl NbShared {
    fn mode(&self) -> u8 {
        self.mode.load(Ordering::SeqCst)
    }

    /// Called by a neighbour thread that saw PAUSE: acknowledge, wait, say whether to go on.
    fn park(&self) -> bool {
        let mut p = self.parked.lock().unwrap_or_else(|e| e.into_inner());
        *p += 1;
        self.cv.notify_all();
        while self.mode() == NB_PAUSE {
            p = self.cv.wait_timeout(p, Duration::from_millis(20)).unwrap_or_else(|e| e.into_inner()).0;
        }
        *p -= 1;
        self.mode() != NB_STOP
    }

    fn trouble(&self, class: &str, what: String) {
        let mut t = self.trouble.lock().unwrap_or_else(|e| e.into_inner());
        if t.len() < 50 {
            t.push((class.to_string(), what));
        }
    }
}

type NbModel = std::sync::Arc<std::sync::Mutex<BTreeMap<String, Vec<u8>>>>;

#[derive(Clone, Debug)]
enum NbKind {
    /// `cache-NNNN.bin` / `thumb-NNNN.tmp`: delete if present, else (re-)create
    Cache { names: usize },
    /// builds up `batch` files `job-GGGG-NNNN.part`, then sweeps them away in name order
    Job { batch: usize },
    /// another file set rolling: sibling-set names and look-alikes of OUR names that are not members;
    /// creates the next one, deletes its oldest beyond `keep`
    Sibling { keep: usize },
    /// lists the directory the way `read_dir` + `metadata` does; writes nothing
    Probe,
}

impl NbKind {
    fn name(&self) -> &'static str {
        match self {
            NbKind::Cache { .. } => "cache",
            NbKind::Job { .. } => "cleanup-job",
            NbKind::Sibling { .. } => "sibling-set-rolling",
            NbKind::Probe => "lister",
        }
    }
}

fn sibling_name(set: &SetCfg, n: u64, id: u64) -> String {
    let (p, e) = (&set.prefix, &set.ext);
    let period = period_of(set.roll, now_nanos());
    match n % 6 {
        0 => format!("{}x.{}.{:08}.{:08x}.{}", p, period, n % 100_000_000, id as u32, e),
        1 => format!("{}.extra.{}.{:08}.{:08x}.{}", p, period, n % 100_000_000, id as u32, e),
        // look-alikes of our own names: id that is not hex, extension that extends ours, short counter
        2 => format!("{}.{}.{:08}.{:07x}g.{}", p, period, n % 100_000_000, (id as u32) >> 4, e),
        3 => format!("{}.{}.{:08}.{:08x}.{}x", p, period, n % 100_000_000, id as u32, e),
        4 => format!("{}.{}.{:07}.{:08x}.{}", p, period, n % 10_000_000, id as u32, e),
        _ => format!("{}_.{}.{:08}.{:08x}.{}", p, period, n % 100_000_000, id as u32, e),
    }
}

fn nb_create(sh: &NbShared, dir: &Path, model: &mut BTreeMap<String, Vec<u8>>, name: String, content: Vec<u8>) {
    let res = std::fs::OpenOptions::new().write(true).create_new(true).open(dir.join(&name)).and_then(|mut f| f.write_all(&content));
    match res {
        Ok(()) => {
            model.insert(name, content);
            sh.creations.fetch_add(1, Ordering::Relaxed);
        }
        Err(e) => sh.trouble("neighbour-could-not-create-its-own-file", format!("a neighbour could not create its own file {}: {}", name, e)),
    }
}

fn nb_delete(sh: &NbShared, dir: &Path, model: &mut BTreeMap<String, Vec<u8>>, name: &str) {
    match std::fs::remove_file(dir.join(name)) {
        Ok(()) => {
            sh.deletions.fetch_add(1, Ordering::Relaxed);
        }
        // the neighbour is the only writer of this name: somebody else removed it
        Err(e) => sh.trouble("foreign-entry-gone:neighbour-file", format!("a neighbour found its own file {} gone when it went to delete it ({})", name, e)),
    }
    model.remove(name);
}

fn neighbour_thread(sh: std::sync::Arc<NbShared>, model: NbModel, dir: PathBuf, kind: NbKind, set: SetCfg, pace: Duration, mut g: Rng) {
    let usable = |n: &str| parse_member(n, &set.prefix, &set.ext).is_none();
    let mut gen = 0u64;
    let mut counter = 1_000u64;
    let mut sweeping = false;
    loop {
        match sh.mode() {
            NB_STOP => return,
            NB_PAUSE => {
                if !sh.park() {
                    return;
                }
                continue;
            }
            _ => {}
        }
        sh.ops.fetch_add(1, Ordering::Relaxed);
        if !matches!(kind, NbKind::Probe) {
            std::thread::sleep(pace);
        }
        match &kind {
            NbKind::Cache { names } => {
                let i = g.usize(*names);
                let name = if i % 2 == 0 { format!("cache-{:04}.bin", i) } else { format!("thumb-{:04}.tmp", i) };
                let mut m = model.lock().unwrap_or_else(|e| e.into_inner());
                if m.contains_key(&name) {
                    nb_delete(&sh, &dir, &mut m, &name);
                } else {
                    gen += 1;
                    nb_create(&sh, &dir, &mut m, name, format!("cache entry {} generation {}\n", i, gen).into_bytes());
                }
            }
            NbKind::Job { batch } => {
                let mut m = model.lock().unwrap_or_else(|e| e.into_inner());
                if sweeping {
                    match m.keys().next().cloned() {
                        Some(name) => nb_delete(&sh, &dir, &mut m, &name),
                        None => {
                            sweeping = false;
                            gen += 1;
                        }
                    }
                } else if m.len() < *batch {
                    let name = format!("job-{:04}-{:04}.part", gen % 10_000, m.len());
                    nb_create(&sh, &dir, &mut m, name, format!("job {} part\n", gen).into_bytes());
                } else {
                    sweeping = true;
                }
            }
            NbKind::Sibling { keep } => {
                counter += 1;
                let name = sibling_name(&set, counter, g.next());
                let mut m = model.lock().unwrap_or_else(|e| e.into_inner());
                if usable(&name) && !m.contains_key(&name) {
                    nb_create(&sh, &dir, &mut m, name, fixed_record(70_000_000 + counter % 1_000_000, 24 + (counter % 40) as usize));
                }
                while m.len() > *keep {
                    // its own oldest: smallest counter field is not the smallest name across the name kinds; any own file will do
                    let pick = g.usize(m.len().min(8));
                    let name = m.keys().nth(pick).cloned().unwrap();
                    nb_delete(&sh, &dir, &mut m, &name);
                }
            }
            NbKind::Probe => {
                let mut vanished = 0u64;
                if let Ok(rd) = std::fs::read_dir(&dir) {
                    for e in rd {
                        let Ok(e) = e else { continue };
                        if let Err(err) = e.metadata() {
                            if err.kind() == std::io::ErrorKind::NotFound {
                                vanished += 1;
                            }
                        }
                        if sh.mode() != NB_RUN {
                            break;
                        }
                    }
                }
                sh.probe_listings.fetch_add(1, Ordering::Relaxed);
                if vanished > 0 {
                    sh.probe_listings_overlapped.fetch_add(1, Ordering::Relaxed);
                    sh.probe_vanished.fetch_add(vanished, Ordering::Relaxed);
                }
                std::thread::sleep(Duration::from_micros(500));
            }
        }
    }
}

/// The neighbour threads of one scenario. Dropping it stops and joins them (also when the scenario
/// fails or panics), so it must be declared AFTER the temporary directory's guard.
struct Neighbours {
    shared: std::sync::Arc<NbShared>,
    handles: Vec<std::thread::JoinHandle<()>>,
    models: Vec<(&'static str, NbModel)>,
    threads: usize,
}

impl Neighbours {
    /// Populates the neighbours' initial files and starts the threads PAUSED (all parked on return).
    fn start(dir: &Path, c: &Churn) -> Result<Neighbours, String> {
        let shared = std::sync::Arc::new(NbShared::default());
        shared.mode.store(NB_PAUSE, Ordering::SeqCst);
        let mut nb = Neighbours { shared: shared.clone(), handles: Vec::new(), models: Vec::new(), threads: 0 };
        let kinds = [NbKind::Cache { names: c.cache_names }, NbKind::Job { batch: c.job_batch }, NbKind::Sibling { keep: c.sibling_keep }, NbKind::Probe];
        for (k, kind) in kinds.into_iter().enumerate() {
            let model: NbModel = Default::default();
            {
                let mut m = model.lock().unwrap();
                match &kind {
                    NbKind::Cache { names } => {
                        for i in (0..*names).filter(|i| i % 3 != 0) {
                            let name = if i % 2 == 0 { format!("cache-{:04}.bin", i) } else { format!("thumb-{:04}.tmp", i) };
                            nb_create(&shared, dir, &mut m, name, format!("cache entry {} generation 0\n", i).into_bytes());
                        }
                    }
                    NbKind::Job { batch } => {
                        for i in 0..*batch / 2 {
                            nb_create(&shared, dir, &mut m, format!("job-0000-{:04}.part", i), b"job 0 part\n".to_vec());
                        }
                    }
                    NbKind::Sibling { keep } => {
                        for i in 0..*keep as u64 {
                            let name = sibling_name(&c.set, i, 0xabc0_0000 + i);
                            if parse_member(&name, &c.set.prefix, &c.set.ext).is_none() && !m.contains_key(&name) {
                                nb_create(&shared, dir, &mut m, name, fixed_record(70_000_000 + i, 30));
                            }
                        }
                    }
                    NbKind::Probe => {}
                }
            }
            let g = Rng::stream(c.seed, &[11, 80, c.idx, k as u64]);
            let (sh, md, d, set, kd) = (shared.clone(), model.clone(), dir.to_path_buf(), c.set.clone(), kind.clone());
            let c_pace = c.pace_us;
            let h = std::thread::Builder::new()
                .name(format!("c11real-{}", kind.name()))
                .spawn(move || neighbour_thread(sh, md, d, kd, set, Duration::from_micros(c_pace), g))
                .map_err(|e| format!("churn scenario {}: could not start a neighbour thread: {}", c.idx, e))?;
            nb.handles.push(h);
            nb.threads += 1;
            if !matches!(kind, NbKind::Probe) {
                nb.models.push((kind.name(), model));
            }
        }
        nb.wait_parked()?;
        Ok(nb)
    }

    fn wait_parked(&self) -> Result<(), String> {
        let deadline = std::time::Instant::now() + Duration::from_secs(30);
        let mut p = self.shared.parked.lock().unwrap_or_else(|e| e.into_inner());
        while *p < self.threads {
            if std::time::Instant::now() > deadline {
                return Err(format!("only {} of {} neighbour threads parked within 30 s", *p, self.threads));
            }
            p = self.shared.cv.wait_timeout(p, Duration::from_millis(50)).unwrap_or_else(|e| e.into_inner()).0;
        }
        Ok(())
    }

    /// Every neighbour parks; afterwards the directory only changes through the set under test.
    fn pause(&self) -> Result<(), String> {
        self.shared.mode.store(NB_PAUSE, Ordering::SeqCst);
        self.wait_parked()
    }

    /// Let the neighbours run and wait (briefly) until each of them is really at work again.
    fn resume(&self) {
        let ops0 = self.shared.ops.load(Ordering::Relaxed);
        self.shared.mode.store(NB_RUN, Ordering::SeqCst);
        {
            let _p = self.shared.parked.lock().unwrap_or_else(|e| e.into_inner());
            self.shared.cv.notify_all();
        }
        let t0 = std::time::Instant::now();
        while self.shared.ops.load(Ordering::Relaxed) < ops0 + 3 && t0.elapsed() < Duration::from_millis(200) {
            std::thread::yield_now();
        }
    }

    /// Stop and join; the panic messages of neighbour threads (none expected).
    fn stop(&mut self) -> Vec<String> {
        self.shared.mode.store(NB_STOP, Ordering::SeqCst);
        {
            let _p = self.shared.parked.lock().unwrap_or_else(|e| e.into_inner());
            self.shared.cv.notify_all();
        }
        self.handles.drain(..).filter_map(|h| h.join().err().map(|p| panic_message(&p))).collect()
    }
}

impl Drop for Neighbours {
    fn drop(&mut self) {
        let _ = self.stop();
    }
}

#[derive(Clone, Debug)]
struct Churn {
    seed: u64,
    idx: u64,
    set: SetCfg,
    pre: Pre,
    /// foreign files nobody touches; they only make every listing long
    bulk: usize,
    cache_names: usize,
    job_batch: usize,
    sibling_keep: usize,
    rolls: usize,
    restart_every: usize,
    full_check_every: usize,
    /// pause of a writing neighbour after each of its operations (unthrottled neighbours keep the directory's
    /// lock busy and make every listing of the set take tens of milliseconds)
    pace_us: u64,
}

fn gen_churn(seed: u64, idx: u64, thorough: bool) -> Churn {
    let mut g = Rng::stream(seed, &[11, 79, idx]);
    let roll = *g.pick(&[Roll::Hour, Roll::Hour, Roll::Day, Roll::Minute]);
    let (prefix, ext) = g.pick(&[("app", "txt"), ("log", "log"), ("svc.events", "ndjson"), ("a", "t")]).clone();
    let max_files = *g.pick(&[1usize, 2, 3, 3, 4, 6]);
    let set = SetCfg { prefix: prefix.to_string(), ext: ext.to_string(), roll, max_files, max_size: 300 + g.usize(900), reuse: g.chance(5, 6), json: false };
    let pre = Pre {
        foreign: true,
        member_dir: g.chance(1, 2),
        symlinks: g.chance(1, 2),
        non_utf8: g.chance(1, 3),
        // a surplus from an earlier process that the first roll has to prune under churn
        old_members: max_files + 1 + g.usize(4),
        newest_fill_pct: None,
        newest_torn_tail: false,
        future_member: false,
    };
    Churn {
        seed,
        idx,
        set,
        pre,
        bulk: [150usize, 500, 1_000, 1_500][(idx % 4) as usize] + g.usize(100),
        cache_names: 300 + g.usize(500),
        job_batch: 150 + g.usize(350),
        sibling_keep: 30 + g.usize(90),
        rolls: if thorough { 600 } else { 200 },
        restart_every: 25 + g.usize(40),
        full_check_every: 50,
        pace_us: [40u64, 80, 25, 60][((idx + idx / 4) % 4) as usize],
    }
}

fn churn_json(c: &Churn) -> Json {
    json!({
        "seed": c.seed, "scenario": c.idx,
        "set": {"prefix": c.set.prefix, "ext": c.set.ext, "roll_by": c.set.roll.name(), "max_files": c.set.max_files, "max_file_size_bytes": c.set.max_size, "reuse_files": c.set.reuse, "writer": "fixed-size"},
        "pre_existing": format!("{:?}", c.pre),
        "static_bulk_files": c.bulk, "cache_names": c.cache_names, "cleanup_job_batch": c.job_batch, "sibling_set_keeps": c.sibling_keep,
        "neighbour_pause_after_each_operation_us": c.pace_us, "rolls": c.rolls, "restart_every": c.restart_every, "full_directory_comparison_every": c.full_check_every,
    })
}

/// The set's own members (regular files with the exact grammar) and their bytes. Only exact while the
/// neighbours are parked and the set's worker is idle.
fn own_members(dir: &Path, set: &SetCfg) -> std::io::Result<BTreeMap<String, Vec<u8>>> {
    let mut out = BTreeMap::new();
    for e in std::fs::read_dir(dir)? {
        let e = e?;
        let name = e.file_name();
        let Some(name) = name.to_str() else { continue };
        if parse_member(name, &set.prefix, &set.ext).is_none() {
            continue;
        }
        if std::fs::symlink_metadata(e.path())?.file_type().is_file() {
            out.insert(name.to_string(), std::fs::read(e.path())?);
        }
    }
    Ok(out)
}

fn run_churn(r: &mut Report, c: &Churn) -> Result<(), String> {
    let io = |what: &str, e: std::io::Error| format!("churn scenario {}: {}: {}", c.idx, what, e);
    let tmp = make_tmp(c.seed, 1_000_000 + c.idx).map_err(|e| io("temporary directory", e))?;
    let root = tmp.0.clone();
    let dir = root.join("logs");
    std::fs::create_dir(&dir).map_err(|e| io("log directory", e))?;
    let mut g = Rng::stream(c.seed, &[11, 81, c.idx]);
    let as_scenario = Scenario { seed: c.seed, idx: c.idx, sets: vec![c.set.clone()], pre: c.pre.clone(), lives: Vec::new() };
    populate(&mut g, &root, &dir, &as_scenario).map_err(|e| io("populate", e))?;
    for i in 0..c.bulk {
        std::fs::write(dir.join(format!("bulk-{:05}.dat", i)), format!("bulk {}\n", i)).map_err(|e| io("populate", e))?;
    }
    let sets = [c.set.clone()];
    let case = |extra: Json| json!({"part": "real-filesystem-churn", "seed": c.seed, "scenario": c.idx, "config": churn_json(c), "at": extra});
    let sig = |s: &str| format!("C11:realfs:{}:{}", s, CHURN);

    let outside_baseline = snapshot(&root.join("outside")).map_err(|e| io("read back", e))?;
    let static_baseline = foreign_of(&snapshot(&dir).map_err(|e| io("read back", e))?, &sets);
    // (declared after `tmp`: stopped and joined before the directory is removed, on every way out)
    let mut nb = Neighbours::start(&dir, c).map_err(|e| format!("churn scenario {}: {}", c.idx, e))?;
    let sh = nb.shared.clone();
    let mut files: Option<emit_file::FileSet> = None;
    let mut metrics: BTreeMap<String, u64> = BTreeMap::new();
    let mut before = own_members(&dir, &c.set).map_err(|e| io("read back", e))?;
    r.observe("realfs:churn:scenarios", 1);
    r.observe("realfs:churn:foreign-entries-at-the-start", (static_baseline.len() + nb.models.iter().map(|(_, m)| m.lock().unwrap().len()).sum::<usize>()) as u64);

    let max = c.set.max_size;
    let mut vid = 1u64;
    let (mut rolls_done, mut rolls_overlapped, mut deletions_during_flushes, mut own_deletions, mut reuse_judged, mut restarts) = (0u64, 0u64, 0u64, 0u64, 0u64, 0u64);
    let mut peak_entries = 0usize;
    for roll in 0..c.rolls {
        let restart = files.is_none() || roll % c.restart_every == 0;
        let restart_next = (roll + 1) % c.restart_every == 0;
        // ---- the neighbours run from here until the flush has returned ----
        nb.resume();
        if restart {
            drop(files.take());
            files = Some(spawn_set(&dir, &c.set));
            metrics = BTreeMap::new();
            if roll > 0 {
                restarts += 1;
            }
        }
        let newest_before = before.keys().next_back().cloned();
        let len = match (&newest_before, restart && roll > 0 && c.set.reuse) {
            // first round after a restart: fits on top of the member with the greatest name (room was left for it)
            (Some(nbf), true) if before[nbf].len() + SEP.len() + MIN_REC <= max => MIN_REC + g.usize(max - before[nbf].len() - SEP.len() - MIN_REC + 1),
            // the round before a restart leaves room; every other round fills more than half a file: never fits on top of the previous one
            _ if restart_next => max / 2 + 1 + g.usize(max * 7 / 10 - max / 2),
            _ => max / 2 + 1 + g.usize(max - max / 2),
        };
        let t_before = now_nanos();
        let del0 = sh.deletions.load(Ordering::Relaxed);
        emit_record(files.as_ref().unwrap(), &c.set, vid, len);
        if !files.as_ref().unwrap().blocking_flush(FLUSH_TIMEOUT) {
            return Err(format!("churn scenario {}: blocking_flush did not return true within {:?} (roll {})", c.idx, FLUSH_TIMEOUT, roll));
        }
        let del1 = sh.deletions.load(Ordering::Relaxed);
        let t_after = now_nanos();
        // ---- everybody parks; from here on the read-back is exact ----
        nb.pause().map_err(|e| format!("churn scenario {}: {}", c.idx, e))?;
        let after = own_members(&dir, &c.set).map_err(|e| io("read back", e))?;
        r.observe("realfs:churn:milliseconds-between-emit-and-flush-return", (t_after - t_before) / 1_000_000);
        let m = sample_metrics(files.as_ref().unwrap());
        let delta = |k: &str| m.get(k).copied().unwrap_or(0).saturating_sub(metrics.get(k).copied().unwrap_or(0));
        let failures: u64 = FAILURE_METRICS.iter().map(|k| delta(k)).sum();
        let failed: Vec<String> = FAILURE_METRICS.iter().filter(|k| delta(k) > 0).map(|k| format!("{}+{}", k, delta(k))).collect();
        own_deletions += delta("file_delete");
        r.observe("realfs:churn:failure-metrics", failures);
        r.observe("realfs:churn:rounds-acknowledged", 1);
        if del1 > del0 {
            rolls_overlapped += 1;
            deletions_during_flushes += del1 - del0;
        }
        let at = |what: &str| json!({"roll": roll, "after_restart": restart, "record": {"vid": vid, "bytes": len}, "what": what,
            "neighbour_deletions_between_emit_and_flush": del1 - del0, "failure_metrics_of_the_set_in_this_round": failed,
            "members_before": before.iter().map(|(n, b)| json!([n, b.len()])).collect::<Vec<_>>(),
            "members_after": after.iter().map(|(n, b)| json!([n, b.len()])).collect::<Vec<_>>()});
        let created: Vec<&String> = after.keys().filter(|n| !before.contains_key(*n)).collect();
        let deleted: Vec<&String> = before.keys().filter(|n| !after.contains_key(*n)).collect();
        let p_lo = period_of(c.set.roll, t_before);
        let p_hi = period_of(c.set.roll, t_after);
        if !created.is_empty() {
            rolls_done += 1;
        }
        // (a) at most max_files members
        r.observe("realfs:churn:member-count-judged", 1);
        if after.len() > c.set.max_files {
            r.violation(
                &sig("more-than-max-files"),
                &format!("{} members after an acknowledged flush, max_files = {}; {} neighbour deletions happened between the emit and the flush; the set's failure metrics in this round: {:?}", after.len(), c.set.max_files, del1 - del0, failed),
                case(at("member count")),
            );
        }
        // (b) smallest names go first: the members with the greatest names are the ones retained
        for d in &deleted {
            if let Some(survivor) = before.keys().filter(|n| after.contains_key(*n)).find(|n| *n < *d) {
                r.violation(&sig("retention-deleted-a-newer-member-first"), &format!("{} was deleted while {} (a smaller name) was kept", d, survivor), case(at("retention order")));
            }
        }
        // (c) the acknowledged record is on disk, once
        let mut places: Vec<&String> = Vec::new();
        for (n, bytes) in &after {
            for line in bytes.split(|b| *b == b'\n') {
                if vid_of_line(line) == Some(vid) {
                    places.push(n);
                }
            }
        }
        r.observe("realfs:churn:acknowledged-records-looked-up", 1);
        if places.len() != 1 {
            r.violation(
                &sig(if places.is_empty() { "acknowledged-record-missing" } else { "acknowledged-record-more-than-once" }),
                &format!("record {} was acknowledged by a flush and is on disk {} times (in {:?})", vid, places.len(), places),
                case(at("records")),
            );
        }
        // members are append-only, stay within the limit, and new names carry a period of the round's window
        for (n, old) in &before {
            if let Some(new) = after.get(n) {
                if !new.starts_with(old) {
                    r.violation(&sig("member-not-append-only"), &format!("{}: what was read before the round ({} bytes) is not a prefix of what is read after it ({} bytes)", n, old.len(), new.len()), case(at("append-only")));
                }
                if new.len() != old.len() && places.first() != Some(&n) {
                    r.violation(&sig("appended-to-a-member-that-is-not-current"), &format!("{} grew but the round's record is in {:?}", n, places), case(at("current file")));
                }
            }
        }
        for n in created.iter().copied().chain(places.iter().copied()) {
            if after[n].len() > max + SEP.len() {
                r.violation(&sig("file-over-size-limit"), &format!("{} holds {} bytes, limit {}", n, after[n].len(), max), case(at("size limit")));
            }
        }
        for n in &created {
            let period = parse_member(n, &c.set.prefix, &c.set.ext).unwrap_or("");
            if !(period >= p_lo.as_str() && period <= p_hi.as_str()) {
                r.violation(&sig("new-member-period-outside-the-wall-clock-window"), &format!("{} was created in a round whose wall-clock window is {} .. {}", n, p_lo, p_hi), case(at("name")));
            }
        }
        // (d) a restart with reuse_files still finds the member with the greatest name
        if restart && roll > 0 && c.set.reuse {
            if let Some(nbf) = &newest_before {
                let period = parse_member(nbf, &c.set.prefix, &c.set.ext).unwrap_or("");
                if period == p_lo && period == p_hi && before[nbf].len() + SEP.len() + len <= max {
                    reuse_judged += 1;
                    r.observe("realfs:churn:reuse-after-restart-judged", 1);
                    let grew = after.get(nbf).map(|b| b.len() > before[nbf].len()).unwrap_or(false);
                    // The statement allows a new file after a (re)start, so "did not reuse" is an OBSERVATION, not a
                    // verdict (it would alarm on a correct implementation that simply starts afresh); it is counted so
                    // the evidence shows whether reuse was exercised at all.
                    if !grew || !created.is_empty() {
                        r.observe("realfs:churn:reuse-after-restart:started-a-new-file-instead(unjudged)", 1);
                    }
                    if false {
                        r.violation(
                            &sig("reuse-did-not-find-the-newest-member"),
                            &format!(
                                "restart with reuse_files(true): {} (period {}, {} bytes, limit {}) had room for the {}-byte round and its period is current, yet {}; failure metrics of the set: {:?}",
                                nbf, period, before[nbf].len(), max, len,
                                if created.is_empty() { "it did not grow".to_string() } else { format!("{:?} was started", created) }, failed
                            ),
                            case(at("reuse after restart")),
                        );
                    }
                } else {
                    r.observe("realfs:churn:reuse-after-restart-not-judged:period-changed-or-no-room", 1);
                }
            }
        }
        // what the neighbours noticed about their own files since the last pause
        for (class, what) in std::mem::take(&mut *sh.trouble.lock().unwrap_or_else(|e| e.into_inner())) {
            if class.starts_with("foreign-entry-gone") {
                r.violation(&sig(&class), &what, case(at("neighbour's own bookkeeping")));
            } else {
                return Err(format!("churn scenario {}: {}", c.idx, what));
            }
        }
        // (e) every N rolls and at the end: the whole directory against the static baseline + the neighbours' models
        if (roll + 1) % c.full_check_every == 0 || roll + 1 == c.rolls {
            let snap = snapshot(&dir).map_err(|e| io("read back", e))?;
            peak_entries = peak_entries.max(snap.len());
            let mut foreign_now = foreign_of(&snap, &sets);
            r.observe("realfs:churn:full-directory-comparisons", 1);
            r.observe("realfs:churn:foreign-entries-compared", foreign_now.len() as u64);
            for (kind, model) in &nb.models {
                for (name, content) in model.lock().unwrap_or_else(|e| e.into_inner()).iter() {
                    match foreign_now.remove(name.as_bytes()) {
                        Some(Entry::File(b)) if &b == content => {}
                        Some(other) => r.violation(&sig(&format!("foreign-entry-changed:neighbour-file:{}", kind)), &format!("{} (owned by the {} neighbour) is now {} ({})", name, kind, other.kind(), match &other { Entry::File(b) => format!("{} bytes instead of {}", b.len(), content.len()), _ => String::new() }), case(at("foreign entries"))),
                        None => r.violation(&sig(&format!("foreign-entry-gone:neighbour-file:{}", kind)), &format!("{} (owned by the {} neighbour, which did not delete it) is gone", name, kind), case(at("foreign entries"))),
                    }
                }
            }
            let outside_now = snapshot(&root.join("outside")).map_err(|e| io("read back", e))?;
            for (which, base, now) in [("in the log directory", &static_baseline, &foreign_now), ("next to the log directory", &outside_baseline, &outside_now)] {
                for (n, e) in base {
                    match now.get(n) {
                        None => r.violation(&sig(&format!("foreign-entry-gone:{}", e.kind())), &format!("{} ({}, {}) is gone after roll {}", show_name(n), e.kind(), which, roll), case(at("foreign entries"))),
                        Some(x) if x != e => r.violation(&sig(&format!("foreign-entry-changed:{}", e.kind())), &format!("{} ({}, {}) changed", show_name(n), e.kind(), which), case(at("foreign entries"))),
                        _ => {}
                    }
                }
                for (n, e) in now {
                    if !base.contains_key(n) {
                        r.violation(&sig("entry-created-that-is-not-a-member"), &format!("{} ({}) appeared {}; it is not a member of the set, not a neighbour's file and was not there at the start", show_name(n), e.kind(), which), case(at("foreign entries")));
                    }
                }
            }
        }
        before = after;
        metrics = m;
        vid += 1;
    }
    // (still paused) the emitter goes first, then the neighbours, then the directory
    drop(files);
    let panics = nb.stop();
    if let Some(p) = panics.first() {
        return Err(format!("churn scenario {}: a neighbour thread panicked: {}", c.idx, p));
    }
    let (ops, nb_del, nb_cre) = (sh.ops.load(Ordering::Relaxed), sh.deletions.load(Ordering::Relaxed), sh.creations.load(Ordering::Relaxed));
    let (pl, plo, pv) = (sh.probe_listings.load(Ordering::Relaxed), sh.probe_listings_overlapped.load(Ordering::Relaxed), sh.probe_vanished.load(Ordering::Relaxed));
    r.observe("realfs:churn:rolls(a-new-file-per-batch)", rolls_done);
    r.observe("realfs:churn:rolls-with-neighbour-deletions-between-emit-and-flush", rolls_overlapped);
    r.observe("realfs:churn:neighbour-deletions-between-emit-and-flush", deletions_during_flushes);
    r.observe("realfs:churn:neighbour-deletions", nb_del);
    r.observe("realfs:churn:neighbour-creations", nb_cre);
    r.observe("realfs:churn:files-deleted-by-the-set(metric)", own_deletions);
    r.observe("realfs:churn:restarts", restarts);
    r.observe("realfs:churn:lister:listings", pl);
    r.observe("realfs:churn:lister:listings-in-which-an-entry-vanished-between-readdir-and-stat", plo);
    r.observe("realfs:churn:lister:entries-vanished-between-readdir-and-stat", pv);
    if rolls_overlapped * 2 >= c.rolls as u64 && plo > 0 {
        r.nontrivial(&("real-filesystem-churn", c.idx, c.seed));
    }
    if rolls_overlapped == 0 {
        return Err(format!("churn scenario {}: no neighbour deleted anything between an emit and its flush in {} rolls - the neighbours did not run", c.idx, c.rolls));
    }
    if r.wants_sample() {
        r.sample(|| json!({"part": "real-filesystem-churn", "config": churn_json(c), "directory_entries_at_most": peak_entries,
            "rolls": rolls_done, "rolls_with_neighbour_deletions_between_emit_and_flush": rolls_overlapped, "neighbour_deletions_between_emit_and_flush": deletions_during_flushes,
            "neighbour_operations": ops, "neighbour_deletions": nb_del, "neighbour_creations": nb_cre, "files_deleted_by_the_set": own_deletions,
            "restarts": restarts, "reuse_after_restart_judged": reuse_judged,
            "lister": {"listings": pl, "listings_in_which_an_entry_vanished_between_readdir_and_stat": plo, "entries_vanished": pv}}));
    }
    drop(nb);
    drop(tmp);
    Ok(())
}

fn evaluate_churn(r: &mut Report, seed: u64, idx: u64, thorough: bool) {
    let c = gen_churn(seed, idx, thorough);
    r.eval();
    match catch(|| {
        let mut child = r.child();
        let res = run_churn(&mut child, &c);
        (child, res)
    }) {
        Ok((child, res)) => {
            r.merge(child);
            if let Err(why) = res {
                r.inconclusive(why);
            }
        }
        Err(msg) => {
            r.violation(
                &format!("C11:realfs:panic:{}", CHURN),
                &format!("the scenario panicked: {}", msg),
                json!({"part": "real-filesystem-churn", "seed": seed, "scenario": idx, "config": churn_json(&c)}),
            );
        }
    }
}

fn evaluate(r: &mut Report, seed: u64, idx: u64, thorough: bool) {
    let s = gen_scenario(seed, idx, thorough);
    r.eval();
    match catch(|| {
        let mut child = r.child();
        let res = run_scenario(&mut child, &s);
        (child, res)
    }) {
        Ok((child, res)) => {
            r.merge(child);
            if let Err(why) = res {
                r.inconclusive(why);
            }
        }
        Err(msg) => {
            // a panic on the caller's side of the real pipeline (emit / flush / drop) or in the harness
            r.violation(
                "C11:realfs:panic",
                &format!("the scenario panicked: {}", msg),
                json!({"part": "real-filesystem", "seed": seed, "scenario": idx, "config": scenario_json(&s)}),
            );
        }
    }
}

fn main() {
    let args = Args::parse();
    let mut r = Report::new(
        "C11",
        &args,
        "one evaluation = one scenario on the real filesystem (real emit_file::set(..).spawn(): StdFilesystem, system clock, random ids) in a private temporary directory: \
         pre-existing contents x configuration x 3-5 process lifetimes x 1-3 acknowledged rounds, the directory read back before and after every round; \
         non-trivial = scenarios in which a restarted set appended to its reused newest member at least once, at least once found that member without room for the round and started a new file, and deleted at least one file. \
         Churn scenarios (one evaluation each): 200 / 600 rolls (one new file per acknowledged flush, restarts in between) while three neighbour threads create, delete and re-create their own files in the \
         same directory of roughly 600-2800 entries and a fourth lists it; read-backs with the neighbours paused; non-trivial = neighbours deleted files between emit and flush in at least half of the rolls and the \
         read-only lister saw an entry vanish between readdir and stat",
    );
    sweep_stale();
    let thorough = args.thorough();
    if let Some(path) = &args.replay {
        let case = load_replay(path);
        let seed = case.get("seed").and_then(|v| v.as_u64()).unwrap_or(args.seed);
        let idx = case.get("scenario").and_then(|v| v.as_u64()).unwrap_or(0);
        let churn = case.get("part").and_then(|v| v.as_str()) == Some("real-filesystem-churn");
        for _ in 0..3 {
            if churn {
                evaluate_churn(&mut r, seed, idx, thorough);
            } else {
                evaluate(&mut r, seed, idx, thorough);
            }
        }
        std::process::exit(r.finish());
    }
    let n = args.n(32, 400);
    let seed = args.seed;
    let threads = threads(&args).min(6).min(n as usize).max(1);
    let next = AtomicU64::new(0);
    let children: Vec<Report> = std::thread::scope(|sc| {
        let handles: Vec<_> = (0..threads)
            .map(|_| {
                let mut child = r.child();
                let next = &next;
                sc.spawn(move || {
                    loop {
                        let i = next.fetch_add(1, Ordering::Relaxed);
                        if i >= n {
                            break;
                        }
                        evaluate(&mut child, seed, i, thorough);
                    }
                    child
                })
            })
            .collect();
        handles.into_iter().map(|h| h.join().expect("worker")).collect()
    });
    for c in children {
        r.merge(c);
    }
    // neighbours that change the directory while the set rolls: each scenario brings its own four neighbour
    // threads, so at most four scenarios at a time
    let n_churn = args.get_u64("churn", args.n(4, 24));
    let next = AtomicU64::new(0);
    let children: Vec<Report> = std::thread::scope(|sc| {
        let handles: Vec<_> = (0..(n_churn as usize).min(4))
            .map(|_| {
                let mut child = r.child();
                let next = &next;
                sc.spawn(move || {
                    loop {
                        let i = next.fetch_add(1, Ordering::Relaxed);
                        if i >= n_churn {
                            break;
                        }
                        evaluate_churn(&mut child, seed, i, thorough);
                    }
                    child
                })
            })
            .collect();
        handles.into_iter().map(|h| h.join().expect("worker")).collect()
    });
    for c in children {
        r.merge(c);
    }
    r.set("churn_scenarios", json!(n_churn));
    r.set("scenarios", json!(n));
    r.set("temporary_directories_under", json!(tmp_base().display().to_string()));
    std::process::exit(r.finish());
}
