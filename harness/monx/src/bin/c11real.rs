/*!
C11 on the REAL filesystem - behavioural lane (no strace, no hook: public API only).

`c11.rs` judges rolling / size / retention / membership over the in-memory filesystem, whose
`File::len`, directory listing and name matching are the harness's own. The real mapping
(`StdFilesystem` / `StdFile`: how the size of a REUSED file is obtained, how the directory is listed,
which entries count as files) is only reachable through `emit_file::set(..).spawn()`, which fixes
the system clock and the random ids (hook H-F, `verif_spawn_with`, injects clock and rng only
TOGETHER with a filesystem, so it cannot give the real filesystem a fake clock). This monitor
therefore drives the real pipeline on a private temporary directory with the real clock and judges
only what does not depend on where a period boundary falls, using wall-clock readings taken before
and after every round to know which periods the round may have touched.

Scenario (seeded): one file set, or two live sibling sets whose prefixes extend each other
(`app` / `app.extra`), in ONE directory that already holds foreign files, static sibling sets,
look-alikes, a DIRECTORY and two SYMLINKS with well-formed member names (pointing at files outside
the directory), a name that is not UTF-8, old members (some more than `max_files`), a future-dated
member, and a NEWEST member of the current period that is partly filled (optionally ending in a torn
record). Configuration: roll by minute / hour / day, `max_files` 1-6, `max_file_size_bytes` 300-4000,
`reuse_files` mostly on, a fixed-size record writer (exact byte arithmetic) or the default JSON
writer. History: 3-5 process lifetimes (drop the emitter, build a new one on the same directory),
1-3 rounds each; a round emits records whose total is at most the size limit and is one of:
small, half a file, MANY small, EXACTLY the room that is left, or FITS ALONE BUT NOT ON TOP of what
the current / newest file already holds; then `blocking_flush`.

Oracle, from a full read-back of the directory before and after every acknowledged round (the
worker may split a round into several batches; every rule below holds for any split):
 (1) every member file that was created or grew holds at most `max_file_size_bytes` - plus the
     length of the recovery separator for a file reused in the first round after a restart
     (DESIGN 12.7a) - whenever the round's bytes fit into one file on their own;
 (2) at most `max_files` members (regular files with the exact name grammar of this set);
 (3) every record of the round is in at most one member file, at most once; the LAST record of the
     round is there exactly once; all of them are there when the set deleted nothing in that round
     (its own `file_delete` metric);
 (4) members are append-only: what was read before is a prefix of what is read afterwards;
 (5) deletions take the smallest names first: no surviving earlier member sorts below a deleted one;
 (6) a file that existed before the round grows only if it is the CURRENT one - in-process the file
     that received the previous round's last record, after a restart (with `reuse_files`) the member
     with the greatest name - and only while its period is one the round's wall-clock window
     touched; never with `reuse_files(false)` after a restart;
 (7) in-process, when the period did not change and the current file has room for the whole round,
     no new file appears;
 (8) a new member carries a period of the round's wall-clock window (civil-from-days, UTC);
 (9) everything else in the directory (and next to it) is untouched: same names, kinds, bytes and
     link targets, nothing new that is not a member.
A flush that does not return `true` within 120 s makes the scenario inconclusive. Failure metrics of
the set (open / create / write / delete / listing failed) excuse rule (7) and the "all of them" half
of (3) for that round and are counted. The temporary directory is removed by a drop guard, also when
the scenario panics.
*/

use std::{
    collections::{BTreeMap, BTreeSet},
    ffi::OsString,
    io::Write as _,
    os::unix::ffi::OsStringExt,
    path::{Path, PathBuf},
    sync::atomic::{AtomicU64, Ordering},
    time::{Duration, SystemTime, UNIX_EPOCH},
};

use emit::{Emitter as _, Props as _};
use vcommon::*;

// ---------------------------------------------------------------------------
// calendar and name grammar (independent of emit)
// ---------------------------------------------------------------------------

#[derive(Clone, Copy, Debug, PartialEq, Eq, Hash)]
enum Roll {
    Day,
    Hour,
    Minute,
}

impl Roll {
    fn name(self) -> &'static str {
        match self {
            Roll::Day => "day",
            Roll::Hour => "hour",
            Roll::Minute => "minute",
        }
    }
}

fn civil_from_days(z: i64) -> (i64, i64, i64) {
    let z = z + 719468;
    let era = if z >= 0 { z } else { z - 146096 } / 146097;
    let doe = z - era * 146097;
    let yoe = (doe - doe / 1460 + doe / 36524 - doe / 146096) / 365;
    let y = yoe + era * 400;
    let doy = doe - (365 * yoe + yoe / 4 - yoe / 100);
    let mp = (5 * doy + 2) / 153;
    let d = doy - (153 * mp + 2) / 5 + 1;
    let m = if mp < 10 { mp + 3 } else { mp - 9 };
    (if m <= 2 { y + 1 } else { y }, m, d)
}

fn period_of(roll: Roll, unix_nanos: u64) -> String {
    let secs = (unix_nanos / 1_000_000_000) as i64;
    let (y, m, d) = civil_from_days(secs.div_euclid(86400));
    let sod = secs.rem_euclid(86400);
    let (h, mi) = (sod / 3600, sod / 60 % 60);
    match roll {
        Roll::Day => format!("{:04}-{:02}-{:02}", y, m, d),
        Roll::Hour => format!("{:04}-{:02}-{:02}-{:02}", y, m, d, h),
        Roll::Minute => format!("{:04}-{:02}-{:02}-{:02}-{:02}", y, m, d, h, mi),
    }
}

/// `prefix.period.counter.id.ext` (exact grammar): `Some(period)`.
fn parse_member<'a>(name: &'a str, prefix: &str, ext: &str) -> Option<&'a str> {
    let rest = name.strip_prefix(prefix)?.strip_prefix('.')?;
    let rest = rest.strip_suffix(ext)?.strip_suffix('.')?;
    let mut it = rest.split('.');
    let (period, counter, id) = (it.next()?, it.next()?, it.next()?);
    if it.next().is_some() {
        return None;
    }
    let pb = period.as_bytes();
    if !(pb.len() == 10 || pb.len() == 13 || pb.len() == 16) {
        return None;
    }
    for (i, c) in pb.iter().enumerate() {
        let dash = i == 4 || i == 7 || i == 10 || i == 13;
        if dash != (*c == b'-') || (!dash && !c.is_ascii_digit()) {
            return None;
        }
    }
    if counter.len() != 8 || !counter.bytes().all(|b| b.is_ascii_digit()) {
        return None;
    }
    if id.len() != 8 || !id.bytes().all(|b| b.is_ascii_hexdigit()) {
        return None;
    }
    Some(period)
}

fn now_nanos() -> u64 {
    SystemTime::now().duration_since(UNIX_EPOCH).map(|d| d.as_nanos() as u64).unwrap_or(0)
}

// ---------------------------------------------------------------------------
// scenario
// ---------------------------------------------------------------------------

const SEP: &[u8] = b"\n";
/// shortest record of the fixed-size writer: `v=00000000;` + `\n`
const MIN_REC: usize = 12;
/// what one record of the default JSON writer costs without its padding (estimated high; the
/// oracle measures the real bytes on disk)
const JSON_OVERHEAD: usize = 110;
const FLUSH_TIMEOUT: Duration = Duration::from_secs(120);

#[derive(Clone, Debug)]
struct SetCfg {
    prefix: String,
    ext: String,
    roll: Roll,
    max_files: usize,
    max_size: usize,
    reuse: bool,
    json: bool,
}

#[derive(Clone, Copy, Debug, PartialEq, Eq, Hash)]
enum Plan {
    Small,
    Half,
    ManySmall,
    /// exactly the room that is left in the current / newest file
    ExactFill,
    /// fits into an empty file, not on top of what the current / newest file holds
    FitsAloneNotOnTop,
    /// (thorough) sleep to just past the next minute boundary first, then a small round
    AfterMinuteBoundary,
}

#[derive(Clone, Debug)]
struct Pre {
    foreign: bool,
    member_dir: bool,
    symlinks: bool,
    non_utf8: bool,
    old_members: usize,
    /// newest member of the current period filled to this many percent of the limit
    newest_fill_pct: Option<u64>,
    newest_torn_tail: bool,
    future_member: bool,
}

#[derive(Clone, Debug)]
struct Scenario {
    seed: u64,
    idx: u64,
    sets: Vec<SetCfg>,
    pre: Pre,
    /// per lifetime: the plans of its rounds (the same plan kind is used for every live set)
    lives: Vec<Vec<Plan>>,
}

fn gen_scenario(seed: u64, idx: u64, thorough: bool) -> Scenario {
    let mut g = Rng::stream(seed, &[11, 77, idx]);
    let roll = *g.pick(&[Roll::Minute, Roll::Minute, Roll::Hour, Roll::Hour, Roll::Day]);
    let (prefix, ext) = g.pick(&[("app", "txt"), ("log", "log"), ("svc.events", "ndjson"), ("a", "t")]).clone();
    let mk = |g: &mut Rng, prefix: String, json: bool| SetCfg {
        prefix,
        ext: ext.to_string(),
        roll,
        max_files: *g.pick(&[1usize, 2, 2, 3, 3, 4, 6]),
        max_size: if json { 1500 + g.usize(2500) } else { 300 + g.usize(3700) },
        reuse: g.chance(5, 6),
        json,
    };
    let json = g.chance(1, 5);
    let mut sets = vec![mk(&mut g, prefix.to_string(), json)];
    if g.chance(1, 4) {
        // a LIVE sibling whose prefix extends the first one's
        let sib = if g.bool() { format!("{}.extra", prefix) } else { format!("{}x", prefix) };
        let json2 = g.chance(1, 5);
        sets.push(mk(&mut g, sib, json2));
    }
    let pre = Pre {
        foreign: g.chance(3, 4),
        member_dir: g.chance(1, 2),
        symlinks: g.chance(2, 3),
        non_utf8: g.chance(1, 3),
        old_members: g.usize(sets[0].max_files + 4),
        newest_fill_pct: if g.chance(3, 4) { Some(20 + g.below(76)) } else { None },
        newest_torn_tail: g.chance(1, 3),
        future_member: g.chance(1, 8),
    };
    let n_lives = 3 + g.usize(3);
    let mut lives = Vec::new();
    for life in 0..n_lives {
        let n_rounds = 1 + g.usize(3);
        let mut rounds = Vec::new();
        for round in 0..n_rounds {
            let p = if round == 0 {
                match g.below(20) {
                    0..=8 => Plan::FitsAloneNotOnTop,
                    9..=11 => Plan::ExactFill,
                    12..=16 => Plan::Small,
                    _ => Plan::Half,
                }
            } else {
                match g.below(20) {
                    0..=5 => Plan::Small,
                    6..=8 => Plan::Half,
                    9..=11 => Plan::ManySmall,
                    12..=15 => Plan::ExactFill,
                    _ => Plan::FitsAloneNotOnTop,
                }
            };
            rounds.push(p);
        }
        // thorough: one in eight minute-rolling scenarios waits for a real minute boundary once
        if thorough && roll == Roll::Minute && life == 1 && idx % 8 == 0 {
            rounds.push(Plan::AfterMinuteBoundary);
        }
        lives.push(rounds);
    }
    Scenario { seed, idx, sets, pre, lives }
}

fn scenario_json(s: &Scenario) -> Json {
    json!({
        "seed": s.seed, "scenario": s.idx,
        "sets": s.sets.iter().map(|c| json!({"prefix": c.prefix, "ext": c.ext, "roll_by": c.roll.name(), "max_files": c.max_files,
            "max_file_size_bytes": c.max_size, "reuse_files": c.reuse, "writer": if c.json { "default-json" } else { "fixed-size" }})).collect::<Vec<_>>(),
        "pre_existing": format!("{:?}", s.pre),
        "lives": s.lives.iter().map(|l| l.iter().map(|p| format!("{:?}", p)).collect::<Vec<_>>()).collect::<Vec<_>>(),
    })
}

// ---------------------------------------------------------------------------
// the directory as read back
// ---------------------------------------------------------------------------

#[derive(Clone, Debug, PartialEq, Eq)]
enum Entry {
    File(Vec<u8>),
    Dir,
    Symlink(PathBuf),
    Other,
}

impl Entry {
    fn kind(&self) -> &'static str {
        match self {
            Entry::File(_) => "file",
            Entry::Dir => "directory",
            Entry::Symlink(_) => "symlink",
            Entry::Other => "other",
        }
    }
}

type Snapshot = BTreeMap<Vec<u8>, Entry>;

fn snapshot(dir: &Path) -> std::io::Result<Snapshot> {
    let mut out = BTreeMap::new();
    for e in std::fs::read_dir(dir)? {
        let e = e?;
        let name = e.file_name().into_vec();
        let md = std::fs::symlink_metadata(e.path())?;
        let ft = md.file_type();
        let entry = if ft.is_symlink() {
            Entry::Symlink(std::fs::read_link(e.path())?)
        } else if ft.is_dir() {
            Entry::Dir
        } else if ft.is_file() {
            Entry::File(std::fs::read(e.path())?)
        } else {
            Entry::Other
        };
        out.insert(name, entry);
    }
    Ok(out)
}

fn show_name(n: &[u8]) -> String {
    show_bytes(n)
}

/// Members of a set in a snapshot: regular files whose name has the exact grammar.
fn members<'a>(snap: &'a Snapshot, cfg: &SetCfg) -> BTreeMap<String, &'a Vec<u8>> {
    let mut out = BTreeMap::new();
    for (n, e) in snap {
        if let (Ok(name), Entry::File(bytes)) = (std::str::from_utf8(n), e) {
            if parse_member(name, &cfg.prefix, &cfg.ext).is_some() {
                out.insert(name.to_string(), bytes);
            }
        }
    }
    out
}

/// Everything in a snapshot that is a member of none of the sets.
fn foreign_of(snap: &Snapshot, sets: &[SetCfg]) -> Snapshot {
    snap.iter()
        .filter(|(n, e)| {
            let is_member = matches!(e, Entry::File(_))
                && std::str::from_utf8(n).map(|name| sets.iter().any(|c| parse_member(name, &c.prefix, &c.ext).is_some())).unwrap_or(false);
            !is_member
        })
        .map(|(n, e)| (n.clone(), e.clone()))
        .collect()
}

fn vid_of_line(line: &[u8]) -> Option<u64> {
    let s = std::str::from_utf8(line).ok()?;
    if let Some(rest) = s.strip_prefix("v=") {
        let digits = rest.get(..8)?;
        if rest.as_bytes().get(8) == Some(&b';') && digits.bytes().all(|b| b.is_ascii_digit()) {
            return digits.parse().ok();
        }
        return None;
    }
    if s.starts_with('{') && s.ends_with('}') {
        let at = s.find("\"vid\":")? + 6;
        let digits: String = s[at..].chars().take_while(|c| c.is_ascii_digit()).collect();
        return digits.parse().ok();
    }
    None
}

// ---------------------------------------------------------------------------
// the rig
// ---------------------------------------------------------------------------

struct TmpDir(PathBuf);

impl Drop for TmpDir {
    fn drop(&mut self) {
        let _ = std::fs::remove_dir_all(&self.0);
    }
}

static DIR_COUNTER: AtomicU64 = AtomicU64::new(0);

fn tmp_base() -> PathBuf {
    let harness = std::env::var_os("VERIF_HARNESS").map(PathBuf::from).or_else(|| std::env::current_dir().ok());
    if let Some(h) = harness {
        let p = h.join("target").join("tmp");
        if h.join("target").is_dir() && std::fs::create_dir_all(&p).is_ok() {
            return p;
        }
    }
    std::env::temp_dir()
}

fn make_tmp(seed: u64, idx: u64) -> std::io::Result<TmpDir> {
    let base = tmp_base();
    let name = format!("c11real-{}-{}-{}-{}-{}", std::process::id(), seed, idx, DIR_COUNTER.fetch_add(1, Ordering::SeqCst), now_nanos() % 1_000_000_007);
    let p = base.join(name);
    std::fs::create_dir(&p)?;
    Ok(TmpDir(p))
}

/// Directories of earlier runs of this monitor that were killed before their drop guard ran.
fn sweep_stale() {
    let base = tmp_base();
    let Ok(rd) = std::fs::read_dir(&base) else { return };
    for e in rd.flatten() {
        let name = e.file_name();
        if !name.to_string_lossy().starts_with("c11real-") {
            continue;
        }
        let old = e.metadata().and_then(|m| m.modified()).ok().and_then(|t| t.elapsed().ok()).map(|d| d > Duration::from_secs(6 * 3600)).unwrap_or(false);
        if old {
            let _ = std::fs::remove_dir_all(e.path());
        }
    }
}

fn fixed_record(vid: u64, len: usize) -> Vec<u8> {
    let mut v = format!("v={:08};", vid).into_bytes();
    while v.len() + 1 < len {
        v.push(b'p');
    }
    v.push(b'\n');
    v
}

fn spawn_set(dir: &Path, cfg: &SetCfg) -> emit_file::FileSet {
    let template = dir.join(format!("{}.{}", cfg.prefix, cfg.ext));
    let b = if cfg.json {
        emit_file::set(template)
    } else {
        emit_file::set_with_writer(
            template,
            |buf, evt| {
                let vid = evt.props().pull::<u64, _>("vid").unwrap_or(99_999_999);
                let len = evt.props().pull::<u64, _>("len").unwrap_or(MIN_REC as u64) as usize;
                buf.write_all(&fixed_record(vid, len))
            },
            SEP,
        )
    };
    let b = match cfg.roll {
        Roll::Day => b.roll_by_day(),
        Roll::Hour => b.roll_by_hour(),
        Roll::Minute => b.roll_by_minute(),
    };
    b.max_files(cfg.max_files).max_file_size_bytes(cfg.max_size).reuse_files(cfg.reuse).spawn()
}

struct MapSampler(std::cell::RefCell<BTreeMap<String, u64>>);

impl emit::metric::Sampler for MapSampler {
    fn metric<P: emit::Props>(&self, metric: emit::metric::Metric<P>) {
        let v = metric.value().to_string().parse::<u64>().unwrap_or(u64::MAX);
        self.0.borrow_mut().insert(metric.name().to_string(), v);
    }
}

fn sample_metrics(files: &emit_file::FileSet) -> BTreeMap<String, u64> {
    use emit::metric::Source as _;
    let s = MapSampler(std::cell::RefCell::new(BTreeMap::new()));
    files.metric_source().sample_metrics(&s);
    s.0.into_inner()
}

const FAILURE_METRICS: [&str; 6] = ["file_set_read_failed", "file_open_failed", "file_create_failed", "file_write_failed", "file_delete_failed", "event_format_failed"];

/// Per live set: what the oracle remembers between rounds.
struct SetState {
    cfg: SetCfg,
    files: Option<emit_file::FileSet>,
    /// file that received the last record of the previous round of THIS lifetime
    active: Option<String>,
    rounds_in_life: usize,
    next_vid: u64,
    metrics: BTreeMap<String, u64>,
}

/// The records one set is asked to write in one round: (vid, requested length).
fn plan_round(g: &mut Rng, plan: Plan, cfg: &SetCfg, cur_size: Option<usize>, st: &mut SetState) -> Vec<(u64, usize)> {
    let max = cfg.max_size;
    let min_rec = if cfg.json { JSON_OVERHEAD + 10 } else { MIN_REC };
    let room = cur_size.map(|c| max.saturating_sub(c));
    let total = match plan {
        Plan::Small | Plan::AfterMinuteBoundary => max * (8 + g.usize(8)) / 100,
        Plan::Half => max * (40 + g.usize(20)) / 100,
        Plan::ManySmall => min_rec * (5 + g.usize(4)),
        Plan::ExactFill => match room {
            Some(r) if r >= min_rec => r,
            _ => max * (8 + g.usize(8)) / 100,
        },
        Plan::FitsAloneNotOnTop => match (cur_size, room) {
            (Some(c), Some(r)) if c > 0 && r < max => r + 1 + g.usize(max - r),
            _ => max * (60 + g.usize(41)) / 100,
        },
    };
    // the JSON writer's record size is only estimated: stay well inside the limit
    let total = if cfg.json { total.min(max * 7 / 10) } else { total.min(max) }.max(min_rec);
    let k_max = (total / min_rec).max(1);
    let k = match plan {
        Plan::ManySmall => k_max,
        _ => 1 + g.usize(k_max.min(5)),
    };
    // split `total` into k records of at least min_rec bytes
    let mut lens = vec![min_rec; k];
    let mut left = total - min_rec * k;
    for i in 0..k {
        let take = if i + 1 == k { left } else { g.usize(left + 1) };
        lens[i] += take;
        left -= take;
    }
    g.shuffle(&mut lens);
    lens.into_iter()
        .map(|l| {
            let v = st.next_vid;
            st.next_vid += 1;
            (v, l)
        })
        .collect()
}

fn emit_record(files: &emit_file::FileSet, cfg: &SetCfg, vid: u64, len: usize) {
    if cfg.json {
        let pad = "p".repeat(len.saturating_sub(JSON_OVERHEAD));
        files.emit(emit::Event::new(
            emit::Path::new_raw("c11real"),
            emit::Template::literal("c11real record"),
            emit::Empty,
            [("vid", emit::Value::from(vid)), ("pad", emit::Value::from(&*pad))],
        ));
    } else {
        files.emit(emit::Event::new(
            emit::Path::new_raw("c11real"),
            emit::Template::literal("c11real record"),
            emit::Empty,
            [("vid", vid), ("len", len as u64)],
        ));
    }
}

/// Fill the directory before the first start. Returns nothing; the baseline is read back afterwards.
fn populate(g: &mut Rng, root: &Path, dir: &Path, s: &Scenario) -> std::io::Result<()> {
    let outside = root.join("outside");
    std::fs::create_dir(&outside)?;
    std::fs::write(outside.join("unrelated.txt"), b"next to the log directory\n")?;
    let main = &s.sets[0];
    let old_period = |i: usize| match main.roll {
        Roll::Day => format!("2020-01-{:02}", 1 + i % 28),
        Roll::Hour => format!("2020-01-01-{:02}", i % 24),
        Roll::Minute => format!("2020-01-01-00-{:02}", i % 60),
    };
    let (p, e) = (&main.prefix, &main.ext);
    if s.pre.foreign {
        let live: BTreeSet<&str> = s.sets.iter().map(|c| c.prefix.as_str()).collect();
        let put = |name: String, bytes: &[u8]| -> std::io::Result<()> {
            // (never a member of a LIVE set: those are judged by their own oracle)
            if s.sets.iter().any(|c| parse_member(&name, &c.prefix, &c.ext).is_some()) {
                return Ok(());
            }
            std::fs::write(dir.join(name), bytes)
        };
        put("readme.md".into(), b"not a log\n")?;
        put(format!("{}.{}", p, e), b"the template name itself\n")?;
        for sib in [format!("{}ger", p), format!("{}.old", p), p[..p.len() - 1].to_string() + "_"] {
            if !live.contains(sib.as_str()) {
                put(format!("{}.{}.00000000.0000000{}.{}", sib, old_period(3), 1 + g.below(8), e), b"v=70000001;a static sibling set\n")?;
                put(format!("{}.{}.00000000.0000aaaa.{}", sib, period_of(main.roll, now_nanos()), e), b"v=70000002;a static sibling set, current period\n")?;
            }
        }
        put(format!("{}.{}.00000000.00000002.x{}", p, old_period(4), e), b"sibling whose extension extends ours\n")?;
        put(format!("{}.{}.00000000.00000003.{}x", p, period_of(main.roll, now_nanos()), e), b"sibling whose extension ours is a prefix of\n")?;
        put(format!("{}.{}.00000000.{}", p, old_period(5), e), b"look-alike without an id\n")?;
        put(format!("{}.{}.0000000.00000005.{}", p, period_of(main.roll, now_nanos()), e), b"look-alike with a short counter\n")?;
        put(format!("{}.{}.00000000.0000000g.{}", p, period_of(main.roll, now_nanos()), e), b"look-alike whose id is not hex\n")?;
    }
    if s.pre.member_dir {
        let d = dir.join(format!("{}.{}.00000000.0000d1d1.{}", p, old_period(0), e));
        std::fs::create_dir(&d)?;
        std::fs::write(d.join("keep.txt"), b"inside a directory that is named like a member\n")?;
    }
    if s.pre.symlinks {
        std::fs::write(outside.join("target-new.txt"), b"v=70000011;target of a symlink named like the newest member\n")?;
        std::fs::write(outside.join("target-old.txt"), b"v=70000012;target of a symlink named like the oldest member\n")?;
        std::os::unix::fs::symlink(outside.join("target-new.txt"), dir.join(format!("{}.{}.99999999.ffffffff.{}", p, period_of(main.roll, now_nanos()), e)))?;
        std::os::unix::fs::symlink(outside.join("target-old.txt"), dir.join(format!("{}.2001-01-01{}.00000000.00000001.{}", p, match main.roll { Roll::Day => "", Roll::Hour => "-00", Roll::Minute => "-00-00" }, e)))?;
    }
    if s.pre.non_utf8 {
        let mut n = format!("{}.", p).into_bytes();
        n.extend_from_slice(b"2020-\xff\xfe-01.00000000.00000001.");
        n.extend_from_slice(e.as_bytes());
        std::fs::write(dir.join(OsString::from_vec(n)), b"a name that is not UTF-8\n")?;
    }
    // members of the main set written by "an earlier process"
    for i in 0..s.pre.old_members {
        let period = if i == 1 && main.roll != Roll::Day { "2019-12-31".to_string() } else { old_period(10 + i) };
        std::fs::write(dir.join(format!("{}.{}.{:08}.{:08x}.{}", p, period, i, 0xb000 + i, e)), fixed_record(60_000_000 + i as u64, 30))?;
    }
    if let Some(pct) = s.pre.newest_fill_pct {
        let mut bytes = Vec::new();
        let want = main.max_size * pct as usize / 100;
        let mut v = 80_000_000u64;
        while bytes.len() + MIN_REC <= want {
            let l = (want - bytes.len()).min(MIN_REC + g.usize(60));
            bytes.extend_from_slice(&fixed_record(v, l));
            v += 1;
        }
        if s.pre.newest_torn_tail {
            bytes.extend_from_slice(b"v=8999");
        }
        std::fs::write(dir.join(format!("{}.{}.00000000.0000aaaa.{}", p, period_of(main.roll, now_nanos()), e)), bytes)?;
    }
    if s.pre.future_member {
        let period = match main.roll {
            Roll::Day => "2099-01-01",
            Roll::Hour => "2099-01-01-00",
            Roll::Minute => "2099-01-01-00-00",
        };
        std::fs::write(dir.join(format!("{}.{}.00000000.0000ffff.{}", p, period, e)), fixed_record(61_000_000, 40))?;
    }
    Ok(())
}

#[derive(Default)]
struct Tally {
    reuse_appends: u64,
    no_room_rolls: u64,
    deletions: u64,
    size_rolls_in_process: u64,
}

/// Run one scenario. `Err` = could not be carried out (inconclusive).
fn run_scenario(r: &mut Report, s: &Scenario) -> Result<(), String> {
    let io = |what: &str, e: std::io::Error| format!("scenario {}: {}: {}", s.idx, what, e);
    let tmp = make_tmp(s.seed, s.idx).map_err(|e| io("temporary directory", e))?;
    let root = tmp.0.clone();
    let dir = root.join("logs");
    std::fs::create_dir(&dir).map_err(|e| io("log directory", e))?;
    let mut g = Rng::stream(s.seed, &[11, 78, s.idx]);
    populate(&mut g, &root, &dir, s).map_err(|e| io("populate", e))?;
    let case = |extra: Json| json!({"part": "real-filesystem", "seed": s.seed, "scenario": s.idx, "config": scenario_json(s), "at": extra});

    let outside_baseline = snapshot(&root.join("outside")).map_err(|e| io("read back", e))?;
    let foreign_baseline = foreign_of(&snapshot(&dir).map_err(|e| io("read back", e))?, &s.sets);
    r.observe("realfs:foreign-entries-watched", (foreign_baseline.len() + outside_baseline.len()) as u64);

    let mut states: Vec<SetState> = s
        .sets
        .iter()
        .enumerate()
        .map(|(i, c)| SetState { cfg: c.clone(), files: None, active: None, rounds_in_life: 0, next_vid: 1 + i as u64 * 1_000_000, metrics: BTreeMap::new() })
        .collect();
    let mut tally = Tally::default();

    for (life, rounds) in s.lives.iter().enumerate() {
        // (re)start: drop the emitters, build new ones on the same directory
        for st in states.iter_mut() {
            st.files = None;
            st.active = None;
            st.rounds_in_life = 0;
            st.metrics = BTreeMap::new();
        }
        for st in states.iter_mut() {
            st.files = Some(spawn_set(&dir, &st.cfg));
        }
        r.observe(if life == 0 { "realfs:starts" } else { "realfs:restarts" }, states.len() as u64);

        for (round, plan) in rounds.iter().enumerate() {
            if *plan == Plan::AfterMinuteBoundary {
                let now = now_nanos();
                let to_boundary = 60_000_000_000 - now % 60_000_000_000;
                std::thread::sleep(Duration::from_nanos(to_boundary + 30_000_000));
                r.observe("realfs:waited-for-a-real-minute-boundary", 1);
            }
            let before = snapshot(&dir).map_err(|e| io("read back", e))?;
            // plan against what is on disk now
            let mut planned: Vec<Vec<(u64, usize)>> = Vec::new();
            for st in states.iter_mut() {
                let mem = members(&before, &st.cfg);
                let cur = if st.rounds_in_life > 0 {
                    st.active.as_ref().and_then(|a| mem.get(a)).map(|b| b.len())
                } else if st.cfg.reuse {
                    mem.iter().next_back().map(|(_, b)| b.len())
                } else {
                    None
                };
                let cfg = st.cfg.clone();
                planned.push(plan_round(&mut g, *plan, &cfg, cur, st));
            }
            let t_before = now_nanos();
            for (st, recs) in states.iter().zip(&planned) {
                for (vid, len) in recs {
                    emit_record(st.files.as_ref().unwrap(), &st.cfg, *vid, *len);
                }
            }
            for st in states.iter() {
                if !st.files.as_ref().unwrap().blocking_flush(FLUSH_TIMEOUT) {
                    return Err(format!("scenario {}: blocking_flush did not return true within {:?} on the real filesystem (life {}, round {})", s.idx, FLUSH_TIMEOUT, life, round));
                }
            }
            let t_after = now_nanos();
            let after = snapshot(&dir).map_err(|e| io("read back", e))?;
            r.observe("realfs:rounds-acknowledged", states.len() as u64);

            for (st, recs) in states.iter_mut().zip(&planned) {
                let cfg = st.cfg.clone();
                let at = |what: &str| json!({"life": life, "round": round, "plan": format!("{:?}", plan), "set": cfg.prefix, "what": what});
                let m_before = members(&before, &cfg);
                let m_after = members(&after, &cfg);
                let p_lo = period_of(cfg.roll, t_before);
                let p_hi = period_of(cfg.roll, t_after);
                let metrics = sample_metrics(st.files.as_ref().unwrap());
                let delta = |k: &str| metrics.get(k).copied().unwrap_or(0).saturating_sub(st.metrics.get(k).copied().unwrap_or(0));
                let failures: u64 = FAILURE_METRICS.iter().map(|k| delta(k)).sum();
                let deleted_by_metric = delta("file_delete");
                r.observe("realfs:failure-metrics", failures);
                r.observe("realfs:files-created(metric)", delta("file_create"));
                r.observe("realfs:files-deleted(metric)", deleted_by_metric);
                tally.deletions += deleted_by_metric;

                let after_restart = st.rounds_in_life == 0;
                let newest_before = m_before.keys().next_back().cloned();
                let created: Vec<&String> = m_after.keys().filter(|n| !m_before.contains_key(*n)).collect();
                let deleted: Vec<&String> = m_before.keys().filter(|n| !m_after.contains_key(*n)).collect();
                let grew: Vec<&String> = m_after.iter().filter(|(n, b)| m_before.get(*n).map(|old| old.len() != b.len() || old != *b).unwrap_or(false)).map(|(n, _)| n).collect();

                // where the round's records are, and how many bytes they take on disk
                let mut found: BTreeMap<u64, Vec<&String>> = BTreeMap::new();
                let mut measured: BTreeMap<u64, usize> = BTreeMap::new();
                let round_vids: BTreeSet<u64> = recs.iter().map(|(v, _)| *v).collect();
                for (n, bytes) in &m_after {
                    let mut start = 0;
                    for (i, b) in bytes.iter().enumerate() {
                        if *b == b'\n' {
                            if let Some(v) = vid_of_line(&bytes[start..i]) {
                                if round_vids.contains(&v) {
                                    found.entry(v).or_default().push(n);
                                    measured.insert(v, i + 1 - start);
                                }
                            }
                            start = i + 1;
                        }
                    }
                }
                // bytes of the round: exact for the fixed-size writer; for the JSON writer what is measured on
                // disk, and the (deliberately high) estimate for a record that is no longer there - an UPPER bound
                let mut round_bytes = 0usize;
                let mut size_known = true;
                for (v, l) in recs {
                    match measured.get(v) {
                        Some(m) if *m != *l && !cfg.json => {
                            r.violation(
                                "C11:realfs:record-bytes-differ",
                                &format!("record {} was written as {} bytes, the writer produced {}", v, m, l),
                                case(at("records")),
                            );
                            round_bytes += *l;
                        }
                        Some(m) if cfg.json => {
                            if *m > *l {
                                size_known = false;
                            }
                            round_bytes += *m;
                        }
                        _ => round_bytes += *l,
                    }
                }
                if !size_known {
                    r.observe("realfs:json-record-larger-than-estimated:size-rules-skipped", 1);
                }

                // (4) append-only
                for (n, old) in &m_before {
                    if let Some(new) = m_after.get(n) {
                        if !new.starts_with(old) {
                            r.violation(
                                "C11:realfs:member-not-append-only",
                                &format!("{}: what was read before the round ({} bytes) is not a prefix of what is read after it ({} bytes)", n, old.len(), new.len()),
                                case(at("append-only")),
                            );
                        }
                    }
                }
                // (1) size limit on every file that was created or grew
                if round_bytes <= cfg.max_size && size_known {
                    for n in created.iter().chain(grew.iter()) {
                        let len = m_after[*n].len();
                        let reused = after_restart && m_before.contains_key(*n);
                        let slack = if reused { SEP.len() } else { 0 };
                        r.observe("realfs:size-limit-judged", 1);
                        if len > cfg.max_size + slack {
                            let class = if reused { "reused-after-restart" } else if m_before.contains_key(*n) { "in-process" } else { "new-file" };
                            r.violation(
                                &format!("C11:realfs:file-over-size-limit:{}", class),
                                &format!(
                                    "{} holds {} bytes after a round of {} bytes, limit {} (+{} for the recovery separator of a reused file); it held {} bytes before the round",
                                    n, len, round_bytes, cfg.max_size, slack, m_before.get(*n).map(|b| b.len()).unwrap_or(0)
                                ),
                                case(at("size limit")),
                            );
                        }
                    }
                } else {
                    r.observe("realfs:size-limit-not-judged:round-larger-than-a-file", 1);
                }
                // (2) member count
                r.observe("realfs:member-count-judged", 1);
                if m_after.len() > cfg.max_files {
                    r.violation(
                        "C11:realfs:more-than-max-files",
                        &format!("{} members after an acknowledged round, max_files = {}: {:?}", m_after.len(), cfg.max_files, m_after.keys().collect::<Vec<_>>()),
                        case(at("member count")),
                    );
                }
                // (3) the round's records
                let last_vid = recs.last().map(|(v, _)| *v);
                for (vid, _) in recs {
                    let places = found.get(vid).map(|v| v.len()).unwrap_or(0);
                    r.observe("realfs:acknowledged-records-looked-up", 1);
                    if places > 1 {
                        r.violation(
                            "C11:realfs:acknowledged-record-more-than-once",
                            &format!("record {} of the round is on disk {} times (in {:?})", vid, places, found.get(vid)),
                            case(at("records")),
                        );
                    } else if places == 0 {
                        let must = Some(*vid) == last_vid || (deleted_by_metric == 0 && deleted.is_empty() && failures == 0);
                        if must {
                            r.violation(
                                if Some(*vid) == last_vid { "C11:realfs:acknowledged-record-missing:last-of-the-round" } else { "C11:realfs:acknowledged-record-missing:nothing-was-deleted" },
                                &format!("record {} was acknowledged by a flush and is in no member file (members: {:?})", vid, m_after.keys().collect::<Vec<_>>()),
                                case(at("records")),
                            );
                        } else {
                            r.observe("realfs:missing-record-not-judged:its-file-may-have-been-retired-in-the-same-round", 1);
                        }
                    }
                }
                // (5) deletions take the smallest names first
                for d in &deleted {
                    if let Some(survivor) = m_before.keys().filter(|n| m_after.contains_key(*n)).find(|n| *n < *d) {
                        r.violation(
                            "C11:realfs:retention-deleted-a-newer-member-first",
                            &format!("{} was deleted while {} (a smaller name) was kept", d, survivor),
                            case(at("retention order")),
                        );
                    }
                }
                // (6) only the current file grows
                for n in &grew {
                    let period = parse_member(n, &cfg.prefix, &cfg.ext).unwrap_or("");
                    let in_window = period >= p_lo.as_str() && period <= p_hi.as_str();
                    let current = if after_restart { cfg.reuse && Some(*n) == newest_before.as_ref() } else { Some(*n) == st.active.as_ref() };
                    r.observe("realfs:growth-of-an-existing-file-judged", 1);
                    if after_restart && !cfg.reuse {
                        r.violation(
                            "C11:realfs:reused-a-file-although-reuse-is-off",
                            &format!("{} grew in the first round after a restart with reuse_files(false)", n),
                            case(at("reuse")),
                        );
                    } else if !current {
                        r.violation(
                            &format!("C11:realfs:appended-to-a-member-that-is-not-current:{}", if after_restart { "after-restart" } else { "in-process" }),
                            &format!("{} grew; the current file is {:?}", n, if after_restart { &newest_before } else { &st.active }),
                            case(at("current file")),
                        );
                    } else if !in_window {
                        r.violation(
                            "C11:realfs:appended-after-the-period-changed",
                            &format!("{} (period {}) grew in a round whose wall-clock window is {} .. {}", n, period, p_lo, p_hi),
                            case(at("period")),
                        );
                    } else if after_restart {
                        tally.reuse_appends += 1;
                        r.observe("realfs:reuse:appended-to-the-newest-member-after-a-restart", 1);
                    }
                }
                // after a restart with reuse: the newest member had no room for the round -> it must not have taken all of it (rule 1 judges that)
                if after_restart && cfg.reuse {
                    if let Some(nb) = &newest_before {
                        if m_before[nb].len() + round_bytes > cfg.max_size && !created.is_empty() {
                            tally.no_room_rolls += 1;
                            r.observe("realfs:reuse:newest-member-had-no-room:new-file-started", 1);
                        }
                        if m_before[nb].len() + round_bytes == cfg.max_size {
                            r.observe("realfs:reuse:round-exactly-fills-the-newest-member", 1);
                        }
                    }
                }
                // (7) no roll while the round fits and the period did not change
                if !after_restart && failures == 0 && size_known {
                    if let Some(a) = st.active.as_ref().filter(|a| m_before.contains_key(*a)) {
                        let period = parse_member(a, &cfg.prefix, &cfg.ext).unwrap_or("");
                        let fits = m_before[a].len() + round_bytes <= cfg.max_size;
                        if period == p_lo && period == p_hi && fits {
                            r.observe("realfs:in-process:no-roll-expected-judged", 1);
                            if m_before[a].len() + round_bytes == cfg.max_size {
                                r.observe("realfs:in-process:round-exactly-fills-the-current-file", 1);
                            }
                            if !created.is_empty() {
                                r.violation(
                                    "C11:realfs:rolled-although-the-round-fits-and-the-period-is-unchanged",
                                    &format!("current file {} held {} bytes, the round has {} bytes, limit {}, period {} throughout - yet {:?} appeared", a, m_before[a].len(), round_bytes, cfg.max_size, period, created),
                                    case(json!({"life": life, "round": round, "plan": format!("{:?}", plan), "set": cfg.prefix, "what": "roll rule",
                                        "records_of_the_round": recs.iter().map(|(v, l)| json!({"vid": v, "bytes": l, "in": found.get(v)})).collect::<Vec<_>>(),
                                        "metrics_of_the_set_now": metrics, "metrics_before_the_round": st.metrics,
                                        "members_before": m_before.iter().map(|(n, b)| json!([n, b.len()])).collect::<Vec<_>>(),
                                        "members_after": m_after.iter().map(|(n, b)| json!([n, b.len()])).collect::<Vec<_>>()})),
                                );
                            }
                        } else if !fits && !created.is_empty() {
                            tally.size_rolls_in_process += 1;
                            r.observe("realfs:in-process:rolled-by-size", 1);
                        } else if period != p_hi {
                            r.observe("realfs:in-process:period-changed-during-or-before-the-round", 1);
                        }
                    }
                }
                // (8) names of new members
                for n in &created {
                    let period = parse_member(n, &cfg.prefix, &cfg.ext).unwrap_or("");
                    r.observe("realfs:new-member-names-judged", 1);
                    if !(period >= p_lo.as_str() && period <= p_hi.as_str()) {
                        r.violation(
                            "C11:realfs:new-member-period-outside-the-wall-clock-window",
                            &format!("{} was created in a round whose wall-clock window is {} .. {} (roll by {})", n, p_lo, p_hi, cfg.roll.name()),
                            case(at("name")),
                        );
                    }
                }
                // bookkeeping
                st.active = last_vid.and_then(|v| found.get(&v)).and_then(|v| v.first()).map(|n| n.to_string());
                st.rounds_in_life += 1;
                st.metrics = metrics;
            }

            // (9) nothing else is touched
            let foreign_now = foreign_of(&after, &s.sets);
            let outside_now = snapshot(&root.join("outside")).map_err(|e| io("read back", e))?;
            r.observe("realfs:foreign-entries-compared", (foreign_now.len() + outside_now.len()) as u64);
            for (which, base, now) in [("in the log directory", &foreign_baseline, &foreign_now), ("next to the log directory", &outside_baseline, &outside_now)] {
                for (n, e) in base {
                    let named_like_member = std::str::from_utf8(n).map(|name| s.sets.iter().any(|c| parse_member(name, &c.prefix, &c.ext).is_some())).unwrap_or(false);
                    let class = format!("{}{}", e.kind(), if named_like_member { "-named-like-a-member" } else if which.starts_with("next") { "-outside-the-directory" } else { "" });
                    match now.get(n) {
                        None => r.violation(
                            &format!("C11:realfs:foreign-entry-gone:{}", class),
                            &format!("{} ({}, {}) is gone after life {} round {}", show_name(n), e.kind(), which, life, round),
                            case(json!({"life": life, "round": round, "what": "foreign entries"})),
                        ),
                        Some(x) if x != e => r.violation(
                            &format!("C11:realfs:foreign-entry-changed:{}", class),
                            &format!(
                                "{} ({}, {}) changed: {} -> {}",
                                show_name(n),
                                e.kind(),
                                which,
                                match e { Entry::File(b) => format!("{} bytes", b.len()), other => format!("{:?}", other) },
                                match x { Entry::File(b) => format!("{} bytes ending {:?}", b.len(), show_bytes(&b[b.len().saturating_sub(40)..])), other => format!("{:?}", other) }
                            ),
                            case(json!({"life": life, "round": round, "what": "foreign entries"})),
                        ),
                        _ => {}
                    }
                }
                for (n, e) in now {
                    if !base.contains_key(n) {
                        r.violation(
                            "C11:realfs:entry-created-that-is-not-a-member",
                            &format!("{} ({}) appeared {} and is not a member of the set(s)", show_name(n), e.kind(), which),
                            case(json!({"life": life, "round": round, "what": "foreign entries"})),
                        );
                    }
                }
            }
            let root_entries: BTreeSet<Vec<u8>> = snapshot(&root).map_err(|e| io("read back", e))?.into_keys().collect();
            if root_entries != [b"logs".to_vec(), b"outside".to_vec()].into_iter().collect() {
                r.violation(
                    "C11:realfs:entry-created-that-is-not-a-member",
                    &format!("the parent of the log directory now holds {:?}", root_entries.iter().map(|n| show_name(n)).collect::<Vec<_>>()),
                    case(json!({"life": life, "round": round, "what": "parent directory"})),
                );
            }
        }
    }
    for st in states.iter_mut() {
        st.files = None;
    }
    if tally.reuse_appends > 0 && tally.no_room_rolls > 0 && tally.deletions > 0 {
        r.nontrivial(&("real-filesystem", s.idx, s.seed));
    }
    if r.wants_sample() && tally.reuse_appends > 0 && tally.no_room_rolls > 0 {
        let left: Vec<String> = snapshot(&dir).map(|sn| sn.iter().map(|(n, e)| format!("{} ({}{})", show_name(n), e.kind(), match e { Entry::File(b) => format!(", {} bytes", b.len()), _ => String::new() })).collect()).unwrap_or_default();
        r.sample(|| json!({"part": "real-filesystem", "config": scenario_json(s), "appends_to_the_reused_newest_member": tally.reuse_appends,
            "restarts_where_the_newest_member_had_no_room": tally.no_room_rolls, "deletions": tally.deletions, "size_rolls_in_process": tally.size_rolls_in_process,
            "directory_at_the_end": left}));
    }
    drop(tmp);
    Ok(())
}

fn evaluate(r: &mut Report, seed: u64, idx: u64, thorough: bool) {
    let s = gen_scenario(seed, idx, thorough);
    r.eval();
    match catch(|| {
        let mut child = r.child();
        let res = run_scenario(&mut child, &s);
        (child, res)
    }) {
        Ok((child, res)) => {
            r.merge(child);
            if let Err(why) = res {
                r.inconclusive(why);
            }
        }
        Err(msg) => {
            // a panic on the caller's side of the real pipeline (emit / flush / drop) or in the harness
            r.violation(
                "C11:realfs:panic",
                &format!("the scenario panicked: {}", msg),
                json!({"part": "real-filesystem", "seed": seed, "scenario": idx, "config": scenario_json(&s)}),
            );
        }
    }
}

fn main() {
    let args = Args::parse();
    let mut r = Report::new(
        "C11",
        &args,
        "one evaluation = one scenario on the real filesystem (real emit_file::set(..).spawn(): StdFilesystem, system clock, random ids) in a private temporary directory: \
         pre-existing contents x configuration x 3-5 process lifetimes x 1-3 acknowledged rounds, the directory read back before and after every round; \
         non-trivial = scenarios in which a restarted set appended to its reused newest member at least once, at least once found that member without room for the round and started a new file, and deleted at least one file",
    );
    sweep_stale();
    let thorough = args.thorough();
    if let Some(path) = &args.replay {
        let case = load_replay(path);
        let seed = case.get("seed").and_then(|v| v.as_u64()).unwrap_or(args.seed);
        let idx = case.get("scenario").and_then(|v| v.as_u64()).unwrap_or(0);
        for _ in 0..3 {
            evaluate(&mut r, seed, idx, thorough);
        }
        std::process::exit(r.finish());
    }
    let n = args.n(32, 400);
    let seed = args.seed;
    let threads = threads(&args).min(6).min(n as usize).max(1);
    let next = AtomicU64::new(0);
    let children: Vec<Report> = std::thread::scope(|sc| {
        let handles: Vec<_> = (0..threads)
            .map(|_| {
                let mut child = r.child();
                let next = &next;
                sc.spawn(move || {
                    loop {
                        let i = next.fetch_add(1, Ordering::Relaxed);
                        if i >= n {
                            break;
                        }
                        evaluate(&mut child, seed, i, thorough);
                    }
                    child
                })
            })
            .collect();
        handles.into_iter().map(|h| h.join().expect("worker")).collect()
    });
    for c in children {
        r.merge(c);
    }
    r.set("scenarios", json!(n));
    r.set("temporary_directories_under", json!(tmp_base().display().to_string()));
    std::process::exit(r.finish());
}
