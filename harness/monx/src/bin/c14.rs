/*!
C14 — each event goes to exactly one OTLP signal, chosen by kind, logs as fallback.

Workload: the real `Otlp` emitter, configured with each of the eight subsets of {logs, traces,
metrics} over HTTP+JSON / HTTP+protobuf / gRPC (gzip on and off), against the scripted local
collector (every request acknowledged). Every event carries a unique `vid` (as the `vid`
attribute and as its message `v<vid>`), and is drawn from
kind ∈ {absent, span (typed / text / upper-case text), metric (same), unknown text, wrong type, null},
  the span / metric kinds additionally carried in other ways: the typed Kind after `to_owned()` /
  `to_shared()` + `by_ref()` (an event replayed from a buffer), `from_display` / `capture_display` of a
  foreign type that prints the kind, an owned `String` (directly, through serde, through sval), padded /
  mixed-case text (`Kind::from_str` trims and ignores ASCII case), and as an ambient `evt_kind`
  pushed through a `ThreadLocalCtxt` frame
× extent ∈ {none, point, range, empty range}
× how far away the extent's instants are ∈ {near the present; every instant beyond what fits in u64
  nanoseconds since the epoch (later than 2554-07-21T23:34:33.709551615Z, up to `Timestamp::MAX`); a range
  that starts within u64 nanoseconds and ends beyond; exactly at that boundary (u64::MAX ns, +1 ns, -1 ns);
  starting at / being `Timestamp::MIN`; ending at / being `Timestamp::MAX`} - extreme but VALID extents
  (`FarC`). The statement routes by kind and by the SHAPE of the extent (range or not), never by how far
  away its instants are, so the routing table below does not look at `FarC` at all; how such a timestamp
  is encoded when it does not fit is C13's business (the unchanged tree wraps it silently) and is not
  judged here. These events are part of the systematic walk of every routing scenario and of the random
  classes that the concurrent / queue-pressure / encoder-rejection sections draw from, so they take part
  in the discard-counter accounting like any other event.
× metric value ∈ {int, float, numeric sequence, empty sequence, text, numeric-looking text, bool,
  nested sequence, sequence with text, null, missing, integer beyond i64 (u64 / u128 / i128, alone or in a sequence)}
× metric aggregation ∈ {absent, count, sum, min, max, last, unknown}.

Oracle (routing table written from the statement, not from `emit`):

* metric kind ∧ numeric / numeric-sequence value ∧ metrics configured → the metrics endpoint;
* span kind ∧ range extent ∧ traces configured                      → the traces endpoint;
* everything else → the logs endpoint if configured, else nowhere and `event_discarded` + 1;
* exactly one record per event over all requests of all endpoints (counted per record, not per
  data point);
* the statement does not settle metric-kinded events whose value is an *empty* sequence or
  numeric-looking text: "metrics or the fallback, exactly one". Integers beyond the i64 range (u64 / u128 /
  i128, alone or inside a sequence) are numbers: metrics.

A second section ("split batches under failures") sends > 3.5 MiB per signal so that one batch is
split into several requests; the collector acknowledges the first request(s) of the batch and fails a
later one with every retryable failure kind. There, an unacknowledged attempt and its acknowledged
retry may carry the same events (at-least-once), but no event may be in two *acknowledged* requests,
and every request that carries an event must be on the endpoint of its one signal.

Two more sections: a request answered with a complete `200` head announcing a body, after which the
collector closes the connection gracefully (its events must not be exported again; asserted only if
the re-send happens in all 4 repetitions), and 4..16 threads emitting at the same moment through one
emitter (the discard counter must be exact, the exported rest is accounted as usual).

Queue pressure (`run_queue_pressure`): one signal's endpoint rejects every request or refuses connections,
so its worker sits in the retry back-off holding a batch, while more events of that signal than its queue
holds (10 000) are emitted, followed by probes of that signal and of the healthy ones. Overflow loses
events, it must never re-route them: every endpoint that received a vid must be the endpoint of the
event's one signal (`C14:wrong-signal:queue-full:kind=..:got=..:want=..`), judged causally after the outage
has ended and everything was flushed.

Encoder rejection (`run_encoder_reject`): events with a property whose value fails to format part-way
(Display / Debug / serde / sval) cannot be encoded by their own signal nor by the logs fallback: they are
exported nowhere and `event_discarded` rises by exactly one each - exact accounting against N failing + M
ordinary events, with every non-empty subset of signals (`C14:discard-counter:encoder-rejected:...`).

The request path and the port it arrived on must name the same signal.
A scenario whose `blocking_flush` returns false, or whose requests cannot be decoded, is
inconclusive (encoding fidelity is C13's business).
*/

#[path = "../shared/collector.rs"]
mod collector;

use std::{collections::{BTreeSet, HashMap}, time::Duration};

use collector::*;
use emit::Emitter as _;
use vcommon::*;

#[derive(Clone, Copy, Debug, PartialEq, Eq, Hash)]
enum KindC {
    Absent,
    SpanTyped,
    SpanText,
    SpanUpper,
    MetricTyped,
    MetricText,
    MetricUpper,
    // the same two kinds, carried differently
    SpanOwned,
    SpanShared,
    SpanDisplay,
    SpanCaptureDisplay,
    SpanString,
    SpanStringSerde,
    SpanPadded,
    SpanAmbient,
    MetricOwned,
    MetricShared,
    MetricDisplay,
    MetricCaptureDisplay,
    MetricString,
    MetricStringSerde,
    MetricPadded,
    MetricAmbient,
    UnknownText,
    WrongTypeInt,
    WrongTypeBool,
    Null,
}

const KINDS: [KindC; 27] = [
    KindC::SpanOwned,
    KindC::SpanShared,
    KindC::SpanDisplay,
    KindC::SpanCaptureDisplay,
    KindC::SpanString,
    KindC::SpanStringSerde,
    KindC::SpanPadded,
    KindC::SpanAmbient,
    KindC::MetricOwned,
    KindC::MetricShared,
    KindC::MetricDisplay,
    KindC::MetricCaptureDisplay,
    KindC::MetricString,
    KindC::MetricStringSerde,
    KindC::MetricPadded,
    KindC::MetricAmbient,
    KindC::Absent,
    KindC::SpanTyped,
    KindC::SpanText,
    KindC::SpanUpper,
    KindC::MetricTyped,
    KindC::MetricText,
    KindC::MetricUpper,
    KindC::UnknownText,
    KindC::WrongTypeInt,
    KindC::WrongTypeBool,
    KindC::Null,
];

impl KindC {
    fn is_ambient(self) -> bool {
        matches!(self, KindC::SpanAmbient | KindC::MetricAmbient)
    }

    fn is_span(self) -> bool {
        matches!(self, KindC::SpanTyped | KindC::SpanText | KindC::SpanUpper | KindC::SpanOwned | KindC::SpanShared | KindC::SpanDisplay | KindC::SpanCaptureDisplay | KindC::SpanString | KindC::SpanStringSerde | KindC::SpanPadded | KindC::SpanAmbient)
    }
    fn is_metric(self) -> bool {
        matches!(self, KindC::MetricTyped | KindC::MetricText | KindC::MetricUpper | KindC::MetricOwned | KindC::MetricShared | KindC::MetricDisplay | KindC::MetricCaptureDisplay | KindC::MetricString | KindC::MetricStringSerde | KindC::MetricPadded | KindC::MetricAmbient)
    }
    fn name(self) -> &'static str {
        match self {
            KindC::Absent => "absent",
            KindC::SpanTyped => "span",
            KindC::SpanText => "span-text",
            KindC::SpanUpper => "span-upper-text",
            KindC::MetricTyped => "metric",
            KindC::MetricText => "metric-text",
            KindC::MetricUpper => "metric-upper-text",
            KindC::SpanOwned => "span-owned",
            KindC::SpanShared => "span-shared",
            KindC::SpanDisplay => "span-from-display",
            KindC::SpanCaptureDisplay => "span-capture-display",
            KindC::SpanString => "span-string",
            KindC::SpanStringSerde => "span-string-serde",
            KindC::SpanPadded => "span-padded-text",
            KindC::SpanAmbient => "span-ambient-ctxt",
            KindC::MetricOwned => "metric-owned",
            KindC::MetricShared => "metric-shared",
            KindC::MetricDisplay => "metric-from-display",
            KindC::MetricCaptureDisplay => "metric-capture-display",
            KindC::MetricString => "metric-string",
            KindC::MetricStringSerde => "metric-string-serde",
            KindC::MetricPadded => "metric-padded-text",
            KindC::MetricAmbient => "metric-ambient-ctxt",
            KindC::UnknownText => "unknown-text",
            KindC::WrongTypeInt => "wrong-type-int",
            KindC::WrongTypeBool => "wrong-type-bool",
            KindC::Null => "null",
        }
    }
}

#[derive(Clone, Copy, Debug, PartialEq, Eq, Hash)]
enum ExtentC {
    None,
    Point,
    Range,
    EmptyRange,
}

const EXTENTS: [ExtentC; 4] = [ExtentC::None, ExtentC::Point, ExtentC::Range, ExtentC::EmptyRange];

impl ExtentC {
    fn name(self) -> &'static str {
        match self {
            ExtentC::None => "none",
            ExtentC::Point => "point",
            ExtentC::Range => "range",
            ExtentC::EmptyRange => "empty-range",
        }
    }
}

/// How far away the instants of the extent are. Every class is a VALID extent (`Timestamp::MIN ..=
/// Timestamp::MAX`, start <= end); the routing table never looks at it.
#[derive(Clone, Copy, Debug, PartialEq, Eq, Hash)]
enum FarC {
    /// 2024, as in every other section
    Near,
    /// every instant lies beyond u64 nanoseconds since the epoch (> 2554-07-21T23:34:33.709551615Z)
    BeyondU64,
    /// a range that starts within u64 nanoseconds and ends beyond
    StraddleU64,
    /// exactly u64::MAX ns / one more / one less
    AtU64Boundary,
    /// a range from `Timestamp::MIN`; a point / empty range AT `Timestamp::MIN`
    FromMin,
    /// a range up to `Timestamp::MAX`; a point / empty range AT `Timestamp::MAX`
    ToMax,
}

const FARS: [FarC; 5] = [FarC::BeyondU64, FarC::StraddleU64, FarC::AtU64Boundary, FarC::FromMin, FarC::ToMax];

/// u64::MAX nanoseconds = 18_446_744_073.709_551_615 s after the epoch
const U64_NANOS_SECS: u64 = 18_446_744_073;
const U64_NANOS_SUB: u32 = 709_551_615;
/// `Timestamp::MAX` = 9999-12-31T23:59:59.999999999Z
const TS_MAX_SECS: u64 = 253_402_300_799;

/// Kinds of the systematic walk over the far-away extents (span / metric / neither, carried in different ways).
const FAR_WALK_KINDS: [KindC; 9] = [
    KindC::SpanTyped,
    KindC::SpanText,
    KindC::SpanOwned,
    KindC::SpanAmbient,
    KindC::MetricTyped,
    KindC::MetricString,
    KindC::MetricAmbient,
    KindC::Absent,
    KindC::UnknownText,
];
const FAR_WALK_EXTENTS: [ExtentC; 3] = [ExtentC::Range, ExtentC::EmptyRange, ExtentC::Point];
/// the near-present walk (kind x extent) and the far-away walk (kind family x extent shape x distance)
const NEAR_WALK: usize = KINDS.len() * EXTENTS.len();
const FAR_WALK: usize = FAR_WALK_KINDS.len() * FAR_WALK_EXTENTS.len() * FARS.len();

#[derive(Clone, Copy, Debug, PartialEq, Eq, Hash)]
enum ValC {
    Int,
    SmallIntTypes,
    Float,
    FloatSpecial,
    IntSeq,
    FloatSeq,
    MixedSeq,
    EmptySeq,
    Text,
    NumericText,
    Bool,
    NestedSeq,
    SeqWithText,
    Null,
    Missing,
    BigInt,
    BigIntSeq,
}

const VALS: [ValC; 17] = [
    ValC::Int,
    ValC::SmallIntTypes,
    ValC::Float,
    ValC::FloatSpecial,
    ValC::IntSeq,
    ValC::FloatSeq,
    ValC::MixedSeq,
    ValC::EmptySeq,
    ValC::Text,
    ValC::NumericText,
    ValC::Bool,
    ValC::NestedSeq,
    ValC::SeqWithText,
    ValC::Null,
    ValC::Missing,
    ValC::BigInt,
    ValC::BigIntSeq,
];

#[derive(Clone, Copy, Debug, PartialEq, Eq)]
enum Numeric {
    Yes,
    No,
    /// the statement does not settle it
    Unsettled,
}

impl ValC {
    fn name(self) -> &'static str {
        match self {
            ValC::Int => "int",
            ValC::SmallIntTypes => "small-int-types",
            ValC::Float => "float",
            ValC::FloatSpecial => "float-nan-inf",
            ValC::IntSeq => "int-seq",
            ValC::FloatSeq => "float-seq",
            ValC::MixedSeq => "mixed-numeric-seq",
            ValC::EmptySeq => "empty-seq",
            ValC::Text => "text",
            ValC::NumericText => "numeric-text",
            ValC::Bool => "bool",
            ValC::NestedSeq => "nested-seq",
            ValC::SeqWithText => "seq-with-text",
            ValC::Null => "null",
            ValC::Missing => "missing",
            ValC::BigInt => "int-beyond-i64",
            ValC::BigIntSeq => "int-beyond-i64-seq",
        }
    }

    fn numeric(self) -> Numeric {
        match self {
            ValC::Int | ValC::SmallIntTypes | ValC::Float | ValC::FloatSpecial | ValC::IntSeq | ValC::FloatSeq | ValC::MixedSeq => Numeric::Yes,
            // integers that do not fit an i64 are numbers all the same (u64 / u128 / i128, alone or in a sequence)
            ValC::BigInt | ValC::BigIntSeq => Numeric::Yes,
            ValC::EmptySeq | ValC::NumericText => Numeric::Unsettled,
            ValC::Text | ValC::Bool | ValC::NestedSeq | ValC::SeqWithText | ValC::Null | ValC::Missing => Numeric::No,
        }
    }
}

const AGGS: [Option<&str>; 7] = [None, Some("count"), Some("sum"), Some("min"), Some("max"), Some("last"), Some("banana")];

#[derive(serde::Serialize, sval_derive::Value, Clone, Debug)]
#[serde(untagged)]
enum Num {
    I(i64),
    F(f64),
}

#[derive(serde::Serialize, sval_derive::Value, Clone, Debug)]
#[serde(untagged)]
enum NumOrText {
    I(i64),
    T(&'static str),
}

/// Everything an event's value may borrow from.
struct Store {
    ints: Vec<i64>,
    floats: Vec<f64>,
    mixed: Vec<Num>,
    empty: Vec<i64>,
    nested: Vec<Vec<i64>>,
    with_text: Vec<NumOrText>,
    /// sequences with a member beyond the i64 range
    big_u64: Vec<u64>,
    big_u128: Vec<u128>,
    big_i128: Vec<i128>,
    kind_span: emit::Kind,
    kind_metric: emit::Kind,
    /// the typed kinds after `to_owned()` / `to_shared()` (an event replayed from a buffer)
    owned: [emit::value::OwnedValue; 2],
    shared: [emit::value::OwnedValue; 2],
    /// a foreign type that prints the kind
    shown: [Shown; 2],
    strings: [String; 2],
    ctxt: emit::platform::thread_local_ctxt::ThreadLocalCtxt,
}

struct Shown(&'static str);

impl std::fmt::Display for Shown {
    fn fmt(&self, f: &mut std::fmt::Formatter<'_>) -> std::fmt::Result {
        f.write_str(self.0)
    }
}

fn new_store() -> Store {
    Store {
        ints: vec![1, -2, 3],
        floats: vec![0.5, -1.5],
        mixed: vec![Num::I(1), Num::F(2.5), Num::I(-3)],
        empty: vec![],
        nested: vec![vec![1, 2], vec![3]],
        with_text: vec![NumOrText::I(1), NumOrText::T("two"), NumOrText::I(3)],
        big_u64: vec![1, u64::MAX, 3],
        big_u128: vec![u128::MAX, 2],
        big_i128: vec![-5, i128::MIN, i64::MIN as i128 - 1],
        kind_span: emit::Kind::Span,
        kind_metric: emit::Kind::Metric,
        owned: [emit::Value::from_any(&emit::Kind::Span).to_owned(), emit::Value::from_any(&emit::Kind::Metric).to_owned()],
        shared: [emit::Value::from_any(&emit::Kind::Span).to_shared(), emit::Value::from_any(&emit::Kind::Metric).to_shared()],
        shown: [Shown("span"), Shown("metric")],
        strings: ["span".to_string(), "metric".to_string()],
        ctxt: emit::platform::thread_local_ctxt::ThreadLocalCtxt::new(),
    }
}

#[derive(Clone, Debug)]
struct Ev {
    vid: u64,
    kind: KindC,
    extent: ExtentC,
    /// how far away the instants of the extent are (never looked at by the routing table)
    far: FarC,
    val: ValC,
    agg: Option<&'static str>,
    /// selects the variant inside the class (which int, serde vs sval capture, ...)
    variant: u64,
    with_ids: bool,
    /// a property whose value fails to format part-way (encoder-rejection section only)
    bad: Option<Bad>,
    /// the event's properties are an `and_props` chain in which the routing keys occur AGAIN, later,
    /// with other values; `kind` / `val` / `agg` above stay the FIRST (= effective) ones
    shadow: Option<Shadow>,
}

/// What the later, shadowed `evt_kind` says.
#[derive(Clone, Copy, Debug, PartialEq, Eq, Hash)]
enum LaterC {
    Span,
    Metric,
    Junk,
}

/// How the chain is built (always through the generic `emit<E: ToEvent>` of the Otlp emitter: the
/// concrete `Event<And<..>>`, or a real runtime joining the event's props with an ambient frame).
#[derive(Clone, Copy, Debug, PartialEq, Eq, Hash)]
enum ChainC {
    /// own (with the first values) `.and_props(` later duplicates `)`
    OwnThenLater,
    /// plain props `.and_props(` first values, then the duplicates, in ONE right member `)`
    FirstOnlyInRight,
    /// plain `.and_props(` first values `).and_props(` later duplicates `)`
    ThreeMembers,
    /// a runtime with a `ThreadLocalCtxt` frame holding the later duplicates; the event carries the first values
    RuntimeAmbient,
    /// the same runtime; the event itself is plain `.and_props(` first values `)`
    RuntimeAmbientChain,
}

const LATERS: [LaterC; 3] = [LaterC::Span, LaterC::Metric, LaterC::Junk];
const CHAINS: [ChainC; 5] = [ChainC::OwnThenLater, ChainC::FirstOnlyInRight, ChainC::ThreeMembers, ChainC::RuntimeAmbient, ChainC::RuntimeAmbientChain];
/// first `evt_kind`s of the shadow walk: unreadable ones, then readable ones (typed and text)
const SHADOW_FIRSTS: [KindC; 8] = [KindC::UnknownText, KindC::WrongTypeInt, KindC::WrongTypeBool, KindC::Null, KindC::SpanTyped, KindC::MetricTyped, KindC::SpanText, KindC::MetricString];
const SHADOW_WALK: usize = SHADOW_FIRSTS.len() * LATERS.len() * CHAINS.len();

#[derive(Clone, Copy, Debug, PartialEq, Eq, Hash)]
struct Shadow {
    later: LaterC,
    chain: ChainC,
}

impl Shadow {
    fn later_name(self) -> &'static str {
        match self.later {
            LaterC::Span => "span",
            LaterC::Metric => "metric",
            LaterC::Junk => "junk",
        }
    }
    fn chain_name(self) -> &'static str {
        match self.chain {
            ChainC::OwnThenLater => "own-then-later",
            ChainC::FirstOnlyInRight => "first-only-in-the-right-member",
            ChainC::ThreeMembers => "three-members",
            ChainC::RuntimeAmbient => "runtime-ambient-frame",
            ChainC::RuntimeAmbientChain => "runtime-ambient-frame-behind-a-chain",
        }
    }
}

/// How the failing value is captured, where it sits among the properties, and whether the template
/// has a hole bound to it (so rendering the message fails too).
#[derive(Clone, Copy, Debug, PartialEq, Eq, Hash)]
struct Bad {
    cap: BadCap,
    pos: u8,
    hole: bool,
}

#[derive(Clone, Copy, Debug, PartialEq, Eq, Hash)]
enum BadCap {
    CaptureDisplay,
    FromDisplay,
    FromDebug,
    Serde,
    Sval,
}

const BAD_CAPS: [BadCap; 5] = [BadCap::CaptureDisplay, BadCap::FromDisplay, BadCap::FromDebug, BadCap::Serde, BadCap::Sval];

impl BadCap {
    fn name(self) -> &'static str {
        match self {
            BadCap::CaptureDisplay => "fail-capture-display",
            BadCap::FromDisplay => "fail-display",
            BadCap::FromDebug => "fail-debug",
            BadCap::Serde => "fail-serde",
            BadCap::Sval => "fail-sval",
        }
    }
}

const FAIL_PARTIAL: &str = "partial-output-before-the-error";

/// Writes some output, then fails (the same shape as C13's failing values): `Display` / `Debug` return
/// `Err` after writing text, `Serialize` / `sval::Value` fail after emitting part of a sequence.
struct FailingVal;

impl std::fmt::Display for FailingVal {
    fn fmt(&self, f: &mut std::fmt::Formatter<'_>) -> std::fmt::Result {
        f.write_str(FAIL_PARTIAL)?;
        Err(std::fmt::Error)
    }
}

impl std::fmt::Debug for FailingVal {
    fn fmt(&self, f: &mut std::fmt::Formatter<'_>) -> std::fmt::Result {
        f.write_str(FAIL_PARTIAL)?;
        Err(std::fmt::Error)
    }
}

impl serde::Serialize for FailingVal {
    fn serialize<S: serde::Serializer>(&self, s: S) -> Result<S::Ok, S::Error> {
        use serde::ser::SerializeSeq;
        let mut q = s.serialize_seq(Some(3))?;
        q.serialize_element(FAIL_PARTIAL)?;
        Err(serde::ser::Error::custom("serialization fails part-way"))
    }
}

impl sval::Value for FailingVal {
    fn stream<'sval, S: sval::Stream<'sval> + ?Sized>(&'sval self, stream: &mut S) -> sval::Result {
        stream.seq_begin(Some(3))?;
        stream.seq_value_begin()?;
        stream.value(FAIL_PARTIAL)?;
        stream.seq_value_end()?;
        sval::error()
    }
}

static FAILING: FailingVal = FailingVal;

impl Ev {
    /// Extent class for signatures and evidence: the shape, plus how far away it is when not near the present.
    fn extent_name(&self) -> &'static str {
        match (self.extent, self.far) {
            (e, FarC::Near) | (e @ ExtentC::None, _) => e.name(),
            (ExtentC::Range, FarC::BeyondU64) => "range-beyond-u64-nanos",
            (ExtentC::Range, FarC::StraddleU64) => "range-straddling-u64-nanos",
            (ExtentC::Range, FarC::AtU64Boundary) => "range-at-the-u64-nanos-boundary",
            (ExtentC::Range, FarC::FromMin) => "range-from-timestamp-min",
            (ExtentC::Range, FarC::ToMax) => "range-to-timestamp-max",
            (ExtentC::EmptyRange, FarC::BeyondU64 | FarC::StraddleU64) => "empty-range-beyond-u64-nanos",
            (ExtentC::EmptyRange, FarC::AtU64Boundary) => "empty-range-at-the-u64-nanos-boundary",
            (ExtentC::EmptyRange, FarC::FromMin) => "empty-range-at-timestamp-min",
            (ExtentC::EmptyRange, FarC::ToMax) => "empty-range-at-timestamp-max",
            (ExtentC::Point, FarC::BeyondU64 | FarC::StraddleU64) => "point-beyond-u64-nanos",
            (ExtentC::Point, FarC::AtU64Boundary) => "point-at-the-u64-nanos-boundary",
            (ExtentC::Point, FarC::FromMin) => "point-at-timestamp-min",
            (ExtentC::Point, FarC::ToMax) => "point-at-timestamp-max",
        }
    }

    fn is_far(&self) -> bool {
        self.far != FarC::Near && self.extent != ExtentC::None
    }

    /// The instants of the extent: (start of a range, end / the point). `None` without an extent.
    fn instants(&self) -> Option<(Option<emit::Timestamp>, emit::Timestamp)> {
        let near_a = ts(self.vid % 100_000, 5);
        let near_b = ts(self.vid % 100_000 + 3, 7);
        let at = |secs: u64, nanos: u32| emit::Timestamp::from_unix(Duration::new(secs, nanos)).expect("an instant within Timestamp::MIN ..= Timestamp::MAX");
        let v = self.variant >> 24;
        let w = v / 16;
        // an instant beyond u64 nanoseconds, with room for a range of up to 1 000 000 s after it
        let beyond = match v % 4 {
            0 => at(U64_NANOS_SECS + 1 + w % 1_000_000, (w % 1_000_000_000) as u32),
            1 => at(U64_NANOS_SECS, U64_NANOS_SUB + 1 + (w % 1_000) as u32),
            2 => at(2 * U64_NANOS_SECS + w % 10, 5),
            _ => at(TS_MAX_SECS - 2_000_000 - w % 100_000, 0),
        };
        let exact = at(U64_NANOS_SECS, U64_NANOS_SUB);
        let ns = Duration::from_nanos(1);
        let one = match self.far {
            FarC::Near => near_b,
            FarC::BeyondU64 | FarC::StraddleU64 => beyond,
            FarC::AtU64Boundary => [exact, exact + ns, exact - ns][(w % 3) as usize],
            FarC::FromMin => emit::Timestamp::MIN,
            FarC::ToMax => emit::Timestamp::MAX,
        };
        match self.extent {
            ExtentC::None => None,
            ExtentC::Point => Some((None, one)),
            ExtentC::EmptyRange => Some((Some(one), one)),
            ExtentC::Range => Some(match self.far {
                FarC::Near => (Some(near_a), near_b),
                FarC::BeyondU64 => (Some(beyond), beyond + Duration::new(1 + w % 1_000_000, 3)),
                FarC::StraddleU64 => (Some([near_a, at(U64_NANOS_SECS - 1 - w % 100, (w % 1_000_000_000) as u32), exact][(w % 3) as usize]), beyond),
                FarC::AtU64Boundary => [(Some(exact), exact + ns), (Some(exact + ns), exact + ns + ns), (Some(exact - ns), exact)][(w % 3) as usize],
                FarC::FromMin => (Some(emit::Timestamp::MIN), [near_b, beyond, emit::Timestamp::MAX][(w % 3) as usize]),
                FarC::ToMax => (Some([near_a, beyond, emit::Timestamp::MIN, emit::Timestamp::MAX - ns][(w % 4) as usize]), emit::Timestamp::MAX),
            }),
        }
    }

    fn class_json(&self) -> Json {
        let instants = self.instants().filter(|_| self.is_far()).map(|(a, b)| json!({"start": a.map(|t| t.to_string()), "end_or_point": b.to_string(),
            "unix_nanos_fit_u64": [a.map(|t| t.to_unix().as_nanos() <= u64::MAX as u128), Some(b.to_unix().as_nanos() <= u64::MAX as u128)]}));
        json!({"vid": self.vid, "kind": self.kind.name(), "extent": self.extent_name(), "extent_instants": instants, "metric_value": self.val.name(),
               "metric_agg": self.agg, "variant": self.variant, "with_trace_ids": self.with_ids,
               "shadowed_duplicates": self.shadow.map(|s| json!({"later_evt_kind": s.later_name(), "chain": s.chain_name()})),
               "failing_value": self.bad.map(|b| format!("{}:{}:{}", b.cap.name(), ["first", "middle", "last"][b.pos as usize % 3], if b.hole { "hole" } else { "no-hole" }))})
    }
}

#[derive(Clone, Copy, Debug, PartialEq, Eq)]
enum Want {
    Exactly(Option<Signal>),
    /// metrics or the fallback (`Option<Signal>`; `None` = discarded), exactly one
    MetricsOr(Option<Signal>),
}

/// The routing table, from the statement.
fn want(ev: &Ev, subset: u8) -> Want {
    let has = |s: Signal| subset & s.bit() != 0;
    let fallback = if has(Signal::Logs) { Some(Signal::Logs) } else { None };
    if ev.kind.is_metric() && has(Signal::Metrics) {
        match ev.val.numeric() {
            Numeric::Yes => return Want::Exactly(Some(Signal::Metrics)),
            Numeric::Unsettled => return Want::MetricsOr(fallback),
            Numeric::No => {}
        }
    }
    if ev.kind.is_span() && matches!(ev.extent, ExtentC::Range | ExtentC::EmptyRange) && has(Signal::Traces) {
        return Want::Exactly(Some(Signal::Traces));
    }
    Want::Exactly(fallback)
}

fn emit_one(otlp: &emit_otlp::Otlp, ev: &Ev, st: &Store) {
    use emit::Value;
    let name = format!("v{}", ev.vid);
    let mut props: Vec<(&str, Value)> = Vec::new();
    let v = ev.variant;
    // position of `vid` among the properties varies
    if v % 2 == 0 {
        props.push(("vid", Value::from(ev.vid as i64)));
    }
    match ev.kind {
        KindC::Absent => {}
        KindC::SpanTyped => props.push(("evt_kind", Value::from_any(&st.kind_span))),
        KindC::SpanText => props.push(("evt_kind", Value::from("span"))),
        KindC::SpanUpper => props.push(("evt_kind", Value::from("SPAN"))),
        KindC::MetricTyped => props.push(("evt_kind", Value::from_any(&st.kind_metric))),
        KindC::MetricText => props.push(("evt_kind", Value::from("metric"))),
        KindC::MetricUpper => props.push(("evt_kind", Value::from("Metric"))),
        KindC::SpanOwned => props.push(("evt_kind", st.owned[0].by_ref())),
        KindC::SpanShared => props.push(("evt_kind", st.shared[0].by_ref())),
        KindC::SpanDisplay => props.push(("evt_kind", Value::from_display(&st.shown[0]))),
        KindC::SpanCaptureDisplay => props.push(("evt_kind", Value::capture_display(&st.shown[0]))),
        KindC::SpanString => props.push(("evt_kind", Value::from_any(&st.strings[0]))),
        KindC::SpanStringSerde => props.push(("evt_kind", if v / 2 % 2 == 0 { Value::from_serde(&st.strings[0]) } else { Value::from_sval(&st.strings[0]) })),
        KindC::SpanPadded => props.push(("evt_kind", Value::from(*[&" span ", &"\tSPAN\n", &"Span  "][(v / 2 % 3) as usize]))),
        // carried by the ambient context instead (see below)
        KindC::SpanAmbient => {}
        KindC::MetricOwned => props.push(("evt_kind", st.owned[1].by_ref())),
        KindC::MetricShared => props.push(("evt_kind", st.shared[1].by_ref())),
        KindC::MetricDisplay => props.push(("evt_kind", Value::from_display(&st.shown[1]))),
        KindC::MetricCaptureDisplay => props.push(("evt_kind", Value::capture_display(&st.shown[1]))),
        KindC::MetricString => props.push(("evt_kind", Value::from_any(&st.strings[1]))),
        KindC::MetricStringSerde => props.push(("evt_kind", if v / 2 % 2 == 0 { Value::from_serde(&st.strings[1]) } else { Value::from_sval(&st.strings[1]) })),
        KindC::MetricPadded => props.push(("evt_kind", Value::from(*[&" metric ", &"\tMETRIC\n", &"Metric  "][(v / 2 % 3) as usize]))),
        // carried by the ambient context instead (see below)
        KindC::MetricAmbient => {}
        KindC::UnknownText => props.push(("evt_kind", Value::from(*[&"banana", &"spanner", &"metrics", &"log", &""][(v / 2 % 5) as usize]))),
        KindC::WrongTypeInt => props.push(("evt_kind", Value::from(42))),
        KindC::WrongTypeBool => props.push(("evt_kind", Value::from(true))),
        KindC::Null => props.push(("evt_kind", Value::null())),
    }
    let sval = v / 2 % 2 == 0;
    match ev.val {
        ValC::Missing => {}
        ValC::Int => props.push(("metric_value", Value::from([0i64, 1, -7, 42, i64::MAX, i64::MIN, 1 << 53][(v / 4 % 7) as usize]))),
        ValC::SmallIntTypes => props.push((
            "metric_value",
            match v / 4 % 5 {
                0 => Value::from(7u8),
                1 => Value::from(-3i8),
                2 => Value::from(65_535u16),
                3 => Value::from(u32::MAX),
                _ => Value::from(i64::MAX as u64),
            },
        )),
        ValC::Float => props.push(("metric_value", Value::from([0.0f64, -0.0, 1.5, -2.25e10, f64::MAX, f64::MIN_POSITIVE][(v / 4 % 6) as usize]))),
        ValC::FloatSpecial => props.push(("metric_value", Value::from([f64::NAN, f64::INFINITY, f64::NEG_INFINITY][(v / 4 % 3) as usize]))),
        ValC::IntSeq => props.push(("metric_value", if sval { Value::from_sval(&st.ints) } else { Value::from_serde(&st.ints) })),
        ValC::FloatSeq => props.push(("metric_value", if sval { Value::from_sval(&st.floats) } else { Value::from_serde(&st.floats) })),
        ValC::MixedSeq => props.push(("metric_value", if sval { Value::from_sval(&st.mixed) } else { Value::from_serde(&st.mixed) })),
        ValC::EmptySeq => props.push(("metric_value", if sval { Value::from_sval(&st.empty) } else { Value::from_serde(&st.empty) })),
        ValC::Text => props.push(("metric_value", Value::from(*[&"abc", &"", &"1 apple", &"NaN"][(v / 4 % 4) as usize]))),
        ValC::NumericText => props.push(("metric_value", Value::from(*[&"42", &"1.5", &"-3"][(v / 4 % 3) as usize]))),
        ValC::Bool => props.push(("metric_value", Value::from(v / 4 % 2 == 0))),
        ValC::NestedSeq => props.push(("metric_value", if sval { Value::from_sval(&st.nested) } else { Value::from_serde(&st.nested) })),
        ValC::SeqWithText => props.push(("metric_value", if sval { Value::from_sval(&st.with_text) } else { Value::from_serde(&st.with_text) })),
        ValC::Null => props.push(("metric_value", Value::null())),
        ValC::BigInt => props.push((
            "metric_value",
            match v / 4 % 8 {
                0 => Value::from(u64::MAX),
                1 => Value::from(i64::MAX as u64 + 1),
                2 => Value::from(u128::MAX),
                3 => Value::from(i128::MIN),
                4 => Value::from(i64::MIN as i128 - 1),
                5 => Value::from(1u128 << 64),
                6 => Value::from(-(1i128 << 100)),
                _ => Value::from(i64::MAX as u128 + 1),
            },
        )),
        ValC::BigIntSeq => props.push((
            "metric_value",
            match (v / 4 % 3, sval) {
                (0, true) => Value::from_sval(&st.big_u64),
                (0, false) => Value::from_serde(&st.big_u64),
                (1, true) => Value::from_sval(&st.big_u128),
                (1, false) => Value::from_serde(&st.big_u128),
                (_, true) => Value::from_sval(&st.big_i128),
                (_, false) => Value::from_serde(&st.big_i128),
            },
        )),
    }
    if let Some(a) = ev.agg {
        props.push(("metric_agg", Value::from(a)));
    }
    if ev.with_ids {
        props.push(("trace_id", Value::from("4bf92f3577b34da6a3ce929d0e0e4736")));
        props.push(("span_id", Value::from("00f067aa0ba902b7")));
    }
    if v % 2 == 1 {
        props.push(("vid", Value::from(ev.vid as i64)));
    }
    if v / 8 % 3 == 0 {
        props.push(("other", Value::from("x")));
    }
    if let Some(bad) = ev.bad {
        let value = match bad.cap {
            BadCap::CaptureDisplay => Value::capture_display(&FAILING),
            BadCap::FromDisplay => Value::from_display(&FAILING),
            BadCap::FromDebug => Value::from_debug(&FAILING),
            BadCap::Serde => Value::from_serde(&FAILING),
            BadCap::Sval => Value::from_sval(&FAILING),
        };
        let at = match bad.pos % 3 {
            0 => 0,
            1 => props.len() / 2,
            _ => props.len(),
        };
        props.insert(at, ("bad", value));
    }
    let mdl = emit::Path::new_raw(if v / 16 % 2 == 0 { "verif::c14" } else { "verif::c14::other" });
    let with_hole = [emit::template::Part::text_ref(&name), emit::template::Part::text_ref(" failing "), emit::template::Part::hole_ref("bad")];
    let tpl = if ev.bad.map(|b| b.hole).unwrap_or(false) { emit::Template::new_ref(&with_hole) } else { emit::Template::literal_ref(&name) };
    let extent: Option<emit::Extent> = ev.instants().map(|(start, end)| match start {
        None => emit::Extent::point(end),
        Some(start) => emit::Extent::range(start..end),
    });
    if let Some(sh) = ev.shadow {
        // the routing keys once more, LATER in the chain, with values that would route the event elsewhere
        let mut later: Vec<(&str, Value)> = Vec::new();
        later.push((
            "evt_kind",
            match (sh.later, v / 32 % 3) {
                (LaterC::Span, 0) => Value::from_any(&st.kind_span),
                (LaterC::Span, 1) => Value::from("span"),
                (LaterC::Span, _) => st.owned[0].by_ref(),
                (LaterC::Metric, 0) => Value::from_any(&st.kind_metric),
                (LaterC::Metric, 1) => Value::from("metric"),
                (LaterC::Metric, _) => st.owned[1].by_ref(),
                (LaterC::Junk, 0) => Value::from("audit"),
                (LaterC::Junk, 1) => Value::from(3),
                (LaterC::Junk, _) => Value::from(true),
            },
        ));
        if ev.val != ValC::Missing {
            // numeric where the first is not, junk where it is
            later.push(("metric_value", if ev.val.numeric() == Numeric::Yes { Value::from("shadowed junk") } else if v / 128 % 2 == 0 { Value::from(7) } else { Value::from_sval(&st.ints) }));
        }
        if let Some(a) = ev.agg {
            later.push(("metric_agg", Value::from(if a == "count" { "last" } else { "count" })));
        }
        if ev.with_ids {
            later.push(("trace_id", Value::from("0af7651916cd43dd8448eb211c80319c")));
            later.push(("span_id", Value::from("b7ad6b7169203331")));
        }
        const ROUTING: [&str; 3] = ["evt_kind", "metric_value", "metric_agg"];
        let plain: Vec<(&str, Value)> = props.iter().filter(|(k, _)| !ROUTING.contains(k)).map(|(k, v)| (*k, v.by_ref())).collect();
        let first: Vec<(&str, Value)> = props.iter().filter(|(k, _)| ROUTING.contains(k)).map(|(k, v)| (*k, v.by_ref())).collect();
        use emit::Props as _;
        match sh.chain {
            ChainC::OwnThenLater => otlp.emit(emit::Event::new(mdl, tpl, extent, (&props[..]).and_props(&later[..]))),
            ChainC::FirstOnlyInRight => {
                let right: Vec<(&str, Value)> = first.iter().chain(later.iter()).map(|(k, v)| (*k, v.by_ref())).collect();
                otlp.emit(emit::Event::new(mdl, tpl, extent, (&plain[..]).and_props(&right[..])))
            }
            ChainC::ThreeMembers => otlp.emit(emit::Event::new(mdl, tpl, extent, (&plain[..]).and_props(&first[..]).and_props(&later[..]))),
            ChainC::RuntimeAmbient | ChainC::RuntimeAmbientChain => {
                // a real runtime: `emit_core::emit` joins the event's props with the current frame's
                let rt = emit::runtime::Runtime::build(otlp, emit::Empty, &st.ctxt, emit::Empty, emit::Empty);
                let frame = emit::Frame::push(&st.ctxt, &later[..]);
                frame.call(|| {
                    if sh.chain == ChainC::RuntimeAmbient {
                        rt.emit(emit::Event::new(mdl, tpl, extent, &props[..]))
                    } else {
                        rt.emit(emit::Event::new(mdl, tpl, extent, (&plain[..]).and_props(&first[..])))
                    }
                });
            }
        }
    } else if ev.kind.is_ambient() {
        // the kind travels through a context frame (buffered there as an owned value) and reaches the
        // emitter as an ambient property behind the event's own
        use emit::{Ctxt as _, Props as _};
        let ctxt = &st.ctxt;
        let kind = if ev.kind.is_span() { &st.kind_span } else { &st.kind_metric };
        let frame = emit::Frame::push(ctxt, ("evt_kind", Value::from_any(kind)));
        frame.call(|| ctxt.with_current(|ambient| otlp.emit(emit::Event::new(mdl, tpl, extent, (&props[..]).and_props(ambient)))));
    } else {
        otlp.emit(emit::Event::new(mdl, tpl, extent, &props[..]));
    }
}

fn gen_event(g: &mut Rng, vid: u64, k: u64) -> Ev {
    // the first events of a scenario walk the classes systematically, the rest is drawn with a bias
    // towards the kinds that matter
    let (kind, extent, far, val) = if k < NEAR_WALK as u64 {
        (KINDS[(k as usize) % KINDS.len()], EXTENTS[(k as usize / KINDS.len()) % EXTENTS.len()], FarC::Near, *g.pick(&VALS))
    } else if k < (NEAR_WALK + FAR_WALK) as u64 {
        // extreme but valid extents: kind family x extent shape x distance, walked like the near-present classes;
        // metric kinds mostly with a value that makes them a metric sample
        let j = k as usize - NEAR_WALK;
        let kind = FAR_WALK_KINDS[j % FAR_WALK_KINDS.len()];
        let extent = FAR_WALK_EXTENTS[j / FAR_WALK_KINDS.len() % FAR_WALK_EXTENTS.len()];
        let far = FARS[j / (FAR_WALK_KINDS.len() * FAR_WALK_EXTENTS.len()) % FARS.len()];
        let val = if kind.is_metric() && g.chance(2, 3) { *g.pick(&[ValC::Int, ValC::Float, ValC::IntSeq, ValC::FloatSeq, ValC::BigInt]) } else { *g.pick(&VALS) };
        (kind, extent, far, val)
    } else if k < (NEAR_WALK + FAR_WALK + SHADOW_WALK) as u64 {
        // shadowed duplicates of the routing keys later in an `and_props` chain: first kind x later kind x chain shape
        let j = k as usize - NEAR_WALK - FAR_WALK;
        let kind = SHADOW_FIRSTS[j % SHADOW_FIRSTS.len()];
        let later = LATERS[j / SHADOW_FIRSTS.len() % LATERS.len()];
        let chain = CHAINS[j / (SHADOW_FIRSTS.len() * LATERS.len()) % CHAINS.len()];
        // mostly the shape the LATER kind would need to be taken by its signal
        let extent = if later == LaterC::Span || kind.is_span() || g.chance(1, 3) { *g.pick(&[ExtentC::Range, ExtentC::Range, ExtentC::EmptyRange, ExtentC::Point]) } else { *g.pick(&EXTENTS) };
        let val = match g.below(4) {
            0 => *g.pick(&[ValC::Text, ValC::Bool, ValC::Null, ValC::NestedSeq]),
            1 | 2 => *g.pick(&[ValC::Int, ValC::Float, ValC::IntSeq, ValC::FloatSeq]),
            _ => *g.pick(&VALS),
        };
        return Ev { vid, kind, extent, far: FarC::Near, val, agg: *g.pick(&AGGS), variant: g.next(), with_ids: g.chance(1, 3), bad: None, shadow: Some(Shadow { later, chain }) };
    } else {
        let kind = match g.below(10) {
            0..=3 => *g.pick(&KINDS[8..16]),
            4..=6 => *g.pick(&KINDS[0..8]),
            _ => *g.pick(&KINDS),
        };
        // metric kinds get an integer beyond i64 (alone or in a sequence) particularly often
        let val = if kind.is_metric() && g.chance(1, 5) { *g.pick(&[ValC::BigInt, ValC::BigIntSeq]) } else { *g.pick(&VALS) };
        let extent = *g.pick(&EXTENTS);
        // one extent in four is far away (beyond u64 nanoseconds, at the boundary, at Timestamp::MIN / MAX)
        let far = if extent != ExtentC::None && g.chance(1, 4) { *g.pick(&FARS) } else { FarC::Near };
        (kind, extent, far, val)
    };
    let mut ev = Ev { vid, kind, extent, far, val, agg: *g.pick(&AGGS), variant: g.next(), with_ids: g.chance(1, 3), bad: None, shadow: None };
    // one drawn event in six carries shadowed duplicates (the kind must be the event's own first value)
    if k >= (NEAR_WALK + FAR_WALK) as u64 && ev.kind != KindC::Absent && !ev.kind.is_ambient() {
        let mut h = Rng::stream(ev.variant, &[14, 77]);
        if h.chance(1, 6) {
            ev.shadow = Some(Shadow { later: *h.pick(&LATERS), chain: *h.pick(&CHAINS) });
        }
    }
    ev
}

struct Scenario {
    case: u64,
    subset: u8,
    transport: Transport,
    gzip: bool,
    events: Vec<Ev>,
}

impl Scenario {
    fn json(&self) -> Json {
        json!({"case": self.case, "subset": subset_name(self.subset), "transport": self.transport.name(), "gzip": self.gzip,
               "events": self.events.len()})
    }
}

fn generate(seed: u64, case: u64, n_events: u64) -> Scenario {
    let mut g = Rng::stream(seed, &[14, 1, case]);
    let subset = (case % 8) as u8;
    let transport = Transport::ALL[(case / 8 % 3) as usize];
    let gzip = case / 24 % 2 == 0;
    // rotate the systematic walk so that different cases start at different classes
    let walk = (NEAR_WALK + FAR_WALK + SHADOW_WALK) as u64;
    let rot = g.below(walk);
    let events = (0..n_events).map(|k| gen_event(&mut g, case * 1_000_000 + k, (k + rot) % n_events.max(walk))).collect();
    Scenario { case, subset, transport, gzip, events }
}

fn run(r: &mut Report, sc: &Scenario, seed: u64) {
    r.observe("routing-scenarios-run", 1);
    let case_json = |extra: Json| {
        let mut j = sc.json();
        j["seed"] = json!(seed);
        j["detail"] = extra;
        j
    };
    let cfgs = Signal::ALL
        .into_iter()
        .filter(|s| sc.subset & s.bit() != 0)
        .map(|s| EndpointCfg { signal: s, wire: sc.transport.wire(), listen: true, script: vec![] })
        .collect();
    let col = Collector::start(cfgs);
    let otlp = build_otlp(&col, sc.transport, sc.gzip, sc.subset);
    let discarded_before = otlp.metric_source().event_discarded();
    let st = new_store();
    for ev in &sc.events {
        if let Err(msg) = catch(|| emit_one(&otlp, ev, &st)) {
            r.violation(
                &format!("C14:panic-in-emit:kind={}:extent={}:value={}", ev.kind.name(), ev.extent_name(), ev.val.name()),
                &format!("Otlp::emit panicked: {}", msg),
                case_json(ev.class_json()),
            );
        }
    }
    r.observe("events-emitted", sc.events.len() as u64);
    let flushed = otlp.blocking_flush(Duration::from_secs(60));
    if !flushed {
        r.inconclusive(format!("blocking_flush returned false in {} scenario(s) (first: case {})", 1, sc.case));
        r.observe("scenarios-inconclusive", 1);
        return;
    }
    let discarded = otlp.metric_source().event_discarded() - discarded_before;
    col.settle();
    let records = col.records();
    r.observe("requests-recorded", records.len() as u64);

    // vid -> the endpoints that received a record for it
    let mut seen: HashMap<u64, Vec<Signal>> = HashMap::new();
    for rec in &records {
        let Some(ps) = rec.path_signal() else {
            r.violation(
                &format!("C14:unknown-path:{}", sc.transport.name()),
                &format!("request to unknown path {:?}", rec.path),
                case_json(rec.brief()),
            );
            continue;
        };
        if ps != rec.endpoint {
            r.violation(
                &format!("C14:path-endpoint-mismatch:path={}:endpoint={}", ps.name(), rec.endpoint.name()),
                &format!("a request for {} arrived at the endpoint configured for {}", rec.path, rec.endpoint.name()),
                case_json(rec.brief()),
            );
        }
        match rec.items() {
            Ok(items) => {
                r.observe(&format!("records:{}", ps.name()), items.len() as u64);
                for it in items {
                    match it.vid() {
                        Some(vid) => seen.entry(vid).or_default().push(ps),
                        None => {
                            r.inconclusive("an exported record carries no recognisable vid");
                        }
                    }
                }
            }
            Err(e) => {
                r.inconclusive(format!("undecodable {} request ({}): {}", ps.name(), sc.transport.name(), e));
                r.observe("scenarios-inconclusive", 1);
                return;
            }
        }
    }

    let mut definite_none = 0u64;
    let mut unsettled_unseen = 0u64;
    for ev in &sc.events {
        let got = seen.remove(&ev.vid).unwrap_or_default();
        let w = want(ev, sc.subset);
        // one evaluation = one event whose destination is judged against the routing table
        r.eval();
        r.nontrivial(&(sc.subset, sc.transport, ev.kind, ev.extent, ev.far, ev.val, ev.agg.is_some()));
        // signature class: the kind family, the extent and whether the value is numeric (the exact
        // spelling of the kind and the exact value are in the case)
        let class = format!(
            "kind={}:extent={}:value={}:subset={}",
            if ev.kind.is_span() {
                "span"
            } else if ev.kind.is_metric() {
                "metric"
            } else {
                "other"
            },
            ev.extent_name(),
            match ev.val.numeric() {
                Numeric::Yes if matches!(ev.val, ValC::BigInt | ValC::BigIntSeq) => ev.val.name(),
                Numeric::Yes => "numeric",
                Numeric::No => "not-numeric",
                Numeric::Unsettled => "unsettled",
            },
            subset_name(sc.subset)
        );
        // shadowed duplicates: the signature names the first (effective) and the later kind
        let class = match ev.shadow {
            Some(sh) => {
                r.observe("shadowed-kind:events-judged", 1);
                r.observe(&format!("shadowed-kind:first={}:later={}:chain={}", shadow_first(ev), sh.later_name(), sh.chain_name()), 1);
                r.nontrivial(&(sc.subset, ev.kind, ev.extent, sh));
                format!("shadowed-kind:first={}:later={}:chain={}:{}", shadow_first(ev), sh.later_name(), sh.chain_name(), class)
            }
            None => class,
        };
        let names = |v: &[Signal]| v.iter().map(|s| s.name()).collect::<Vec<_>>().join("+");
        let detail = || {
            let mut j = ev.class_json();
            j["received_by"] = json!(got.iter().map(|s| s.name()).collect::<Vec<_>>());
            j["want"] = json!(format!("{:?}", w));
            case_json(j)
        };
        if got.len() > 1 {
            r.violation(
                &format!("C14:exported-more-than-once:{}:got={}", class, names(&got)),
                &format!("event v{} was exported {} times ({})", ev.vid, got.len(), names(&got)),
                detail(),
            );
            continue;
        }
        let got1 = got.first().copied();
        if ev.is_far() {
            // extreme but valid extents: where they went, per kind family and extent class (judged below like any other event)
            r.observe("far-extent:events-judged", 1);
            r.observe(&format!("far-extent:{}:kind={}:went-to-{}", ev.extent_name(), kind_family(ev), got1.map(|s| s.name()).unwrap_or("none")), 1);
            if ev.kind.is_span() && matches!(ev.extent, ExtentC::Range | ExtentC::EmptyRange) && sc.subset & Signal::Traces.bit() != 0 {
                r.observe("far-extent:span-with-a-range-extent:traces-configured", 1);
            }
            if matches!(w, Want::Exactly(Some(Signal::Metrics))) {
                r.observe("far-extent:metric-sample:metrics-configured", 1);
            }
            if matches!(w, Want::Exactly(None)) {
                r.observe("far-extent:no-configured-signal-takes-it:discard-expected", 1);
            }
        }
        match w {
            Want::Exactly(want_sig) => {
                if ev.kind.is_metric() && matches!(ev.val, ValC::BigInt | ValC::BigIntSeq) {
                    r.observe(&format!("{}:metric-kind:went-to-{}", ev.val.name(), got1.map(|s| s.name()).unwrap_or("none")), 1);
                }
                if want_sig.is_none() {
                    definite_none += 1;
                }
                if got1 != want_sig {
                    r.violation(
                        &format!("C14:wrong-signal:{}:got={}:want={}", class, got1.map(|s| s.name()).unwrap_or("none"), want_sig.map(|s| s.name()).unwrap_or("none")),
                        &format!(
                            "event v{} ({}) was exported through {} but belongs to {}",
                            ev.vid,
                            class,
                            got1.map(|s| s.name()).unwrap_or("no signal"),
                            want_sig.map(|s| s.name()).unwrap_or("no signal (discard)")
                        ),
                        detail(),
                    );
                }
            }
            Want::MetricsOr(fallback) => {
                r.observe("unsettled-metric-values", 1);
                r.observe(&format!("unsettled:{}:went-to-{}", ev.val.name(), got1.map(|s| s.name()).unwrap_or("none")), 1);
                let ok = got1 == Some(Signal::Metrics) || got1 == fallback;
                if got1.is_none() {
                    unsettled_unseen += 1;
                }
                if !ok {
                    r.violation(
                        &format!("C14:wrong-signal:{}:got={}:want=metrics-or-{}", class, got1.map(|s| s.name()).unwrap_or("none"), fallback.map(|s| s.name()).unwrap_or("none")),
                        &format!("event v{} ({}) was exported through {}", ev.vid, class, got1.map(|s| s.name()).unwrap_or("no signal")),
                        detail(),
                    );
                }
            }
        }
    }
    if !seen.is_empty() {
        let mut extra: Vec<_> = seen.keys().copied().collect();
        extra.sort();
        r.violation(
            &format!("C14:unknown-vid-exported:{}", sc.transport.name()),
            &format!("records with vids that were never emitted in this scenario: {:?}", &extra[..extra.len().min(5)]),
            case_json(json!({"vids": extra})),
        );
    }
    r.observe("discards-expected", definite_none + unsettled_unseen);
    r.observe("discards-counted", discarded as u64);
    if discarded as u64 != definite_none + unsettled_unseen {
        r.violation(
            &format!("C14:discard-count:subset={}:{}", subset_name(sc.subset), if (discarded as u64) < definite_none + unsettled_unseen { "too-low" } else { "too-high" }),
            &format!(
                "event_discarded rose by {} but {} events could not be taken by any configured signal",
                discarded,
                definite_none + unsettled_unseen
            ),
            case_json(json!({"discarded": discarded, "expected": definite_none + unsettled_unseen})),
        );
    }
    if r.wants_sample() && sc.case < 3 {
        let s = sc.json();
        let first: Vec<Json> = sc.events.iter().take(3).map(|e| e.class_json()).collect();
        let n_req = records.len();
        r.sample(move || json!({"scenario": s, "requests": n_req, "discarded": discarded, "first_events": first}));
    }
    r.observe("scenarios-decided", 1);
    drop(otlp);
    drop(col);
}

// ---------------------------------------------------------------------------
// split batches under failures: nothing that was acknowledged is exported again
// ---------------------------------------------------------------------------

const MIB: usize = 1024 * 1024;

fn split_signal(kind: u64, subset: u8) -> Option<Signal> {
    let has = |s: Signal| subset & s.bit() != 0;
    match kind {
        1 if has(Signal::Traces) => Some(Signal::Traces),
        2 if has(Signal::Metrics) => Some(Signal::Metrics),
        _ if has(Signal::Logs) => Some(Signal::Logs),
        _ => None,
    }
}

fn emit_big(otlp: &emit_otlp::Otlp, vid: u64, kind: u64, pad: &str) {
    use emit::Value;
    let name = format!("v{}", vid);
    let tpl = emit::Template::literal_ref(&name);
    let mdl = emit::Path::new_raw("verif::c14::split");
    let kind_span = emit::Kind::Span;
    let kind_metric = emit::Kind::Metric;
    match kind {
        1 => {
            let props = [("evt_kind", Value::from_any(&kind_span)), ("vid", Value::from(vid as i64)), ("pad", Value::from(pad))];
            otlp.emit(emit::Event::new(mdl, tpl, emit::Extent::range(ts(vid % 1000, 1)..ts(vid % 1000 + 1, 2)), &props[..]));
        }
        2 => {
            let props = [("evt_kind", Value::from_any(&kind_metric)), ("vid", Value::from(vid as i64)), ("metric_agg", Value::from("sum")), ("metric_value", Value::from(3)), ("pad", Value::from(pad))];
            otlp.emit(emit::Event::new(mdl, tpl, emit::Extent::point(ts(vid % 1000, 1)), &props[..]));
        }
        _ => {
            let props = [("vid", Value::from(vid as i64)), ("pad", Value::from(pad))];
            otlp.emit(emit::Event::new(mdl, tpl, emit::Extent::point(ts(vid % 1000, 1)), &props[..]));
        }
    }
}

/// More than 1 MiB per signal, so that one batch is split into several requests; the collector
/// acknowledges the first request(s) of the batch and fails a LATER one (every retryable failure kind is
/// walked). At-least-once allows an unacknowledged attempt and its acknowledged retry to carry the same
/// events, but an event must never be in two *acknowledged* requests, and every request that carries it
/// must be on the endpoint of its one signal.
fn run_split(r: &mut Report, seed: u64, case: u64) {
    r.eval();
    let mut g = Rng::stream(seed, &[14, 2, case]);
    let transport = Transport::ALL[(case % 3) as usize];
    let gzip = case / 3 % 2 == 0;
    let subset = (case / 6 % 7 + 1) as u8;
    let tname = transport.name();
    let grpc = transport == Transport::Grpc;
    let menu: Vec<Decision> = if grpc {
        vec![
            Decision::GrpcStatus(14, GrpcForm::Trailers),
            Decision::GrpcStatus(8, GrpcForm::TrailersOnly),
            Decision::Status(503),
            Decision::DropOnAccept,
            Decision::DropBeforeBody,
            Decision::DropAfterRead,
            Decision::Stall,
            Decision::StallAt(Phase::AfterHeaders, 200),
            Decision::StallAt(Phase::BeforeTrailers, 200),
        ]
    } else {
        vec![
            Decision::Status(503),
            Decision::Status(429),
            Decision::DropOnAccept,
            Decision::DropBeforeBody,
            Decision::DropAfterRead,
            Decision::Stall,
            Decision::StallAt(Phase::InHead, 200),
            Decision::StallAt(Phase::InBody, 503),
        ]
    };
    let fault = menu[(case / 3) as usize % menu.len()];
    let acks_first = 1 + (case / 3 / menu.len() as u64 % 2) as usize;
    let configured: Vec<Signal> = Signal::ALL.into_iter().filter(|s| subset & s.bit() != 0).collect();
    let cfgs = configured
        .iter()
        .map(|s| {
            let mut script = vec![Decision::HoldAck(3_000)];
            script.extend(std::iter::repeat(Decision::Ack(200)).take(acks_first));
            script.push(fault);
            EndpointCfg { signal: *s, wire: transport.wire(), listen: true, script }
        })
        .collect();
    let col = Collector::start(cfgs);
    let otlp = build_otlp(&col, transport, gzip, subset);
    let case_json = |detail: Json| json!({"seed": seed, "case": case, "kind": "split-batch", "transport": tname, "gzip": gzip, "subset": subset_name(subset),
        "script_per_signal": format!("hold-ack, {} x ack200, {}, ack200...", acks_first, fault.name()), "detail": detail});
    let pad_src: String = if g.bool() { (0..700_000).map(|_| (b'a' + g.below(26) as u8) as char).collect() } else { "emit ".repeat(140_000) };
    let kinds: Vec<u64> = (0..3u64).filter(|k| split_signal(*k, subset).is_some()).collect();
    let mut sent: Vec<(u64, Signal)> = Vec::new();
    let mut vid = case * 100_000;
    // primers: one small event per configured signal, held by the collector while the burst queues up
    for s in &configured {
        let kind = match s {
            Signal::Logs => 0,
            Signal::Traces => 1,
            Signal::Metrics => 2,
        };
        emit_big(&otlp, vid, kind, "p");
        sent.push((vid, *s));
        vid += 1;
    }
    let live = configured.clone();
    if !col.wait_until(Duration::from_secs(15), |recs| live.iter().all(|s| recs.iter().any(|rec| rec.endpoint == *s && rec.seq == 0 && rec.body_read.is_some()))) {
        col.release_gate();
        r.observe("split:scenarios-inconclusive", 1);
        r.inconclusive("split-batch scenario: the primer requests did not arrive within 15 s");
        return;
    }
    // the burst: at least 3 requests' worth (> 3.5 MiB) for every configured signal
    let mut per_signal: HashMap<Signal, usize> = HashMap::new();
    while configured.iter().any(|s| per_signal.get(s).copied().unwrap_or(0) < 3 * MIB + MIB / 2) {
        let kind = *g.pick(&kinds);
        let sig = split_signal(kind, subset).unwrap();
        let pad = if per_signal.get(&sig).copied().unwrap_or(0) >= 3 * MIB + MIB / 2 { g.usize(100) } else { 250_000 + g.usize(450_000) };
        *per_signal.entry(sig).or_insert(0) += pad;
        emit_big(&otlp, vid, kind, &pad_src[..pad]);
        sent.push((vid, sig));
        vid += 1;
    }
    col.release_gate();
    r.observe("split:events-emitted", sent.len() as u64);
    if !otlp.blocking_flush(Duration::from_secs(60)) {
        r.observe("split:scenarios-inconclusive", 1);
        r.inconclusive("split-batch scenario: blocking_flush returned false (60 s)");
        return;
    }
    col.settle();
    let records = col.records();
    r.observe("split:requests-recorded", records.len() as u64);
    let ms = otlp.metric_source();
    let acks_written = records.iter().filter(|rec| rec.acked()).count();
    let acks_seen = ms.http_batch_sent() + ms.grpc_batch_sent();
    let fault_hit = records.iter().filter(|rec| rec.decision == fault || (fault == Decision::DropOnAccept && rec.decision == Decision::DropBeforeBody)).count();
    // the fault landed on a later request of a batch whose earlier request had been acknowledged?
    let mut later_failed = 0;
    let mut acked_in: HashMap<u64, Vec<&Record>> = HashMap::new();
    let mut carried_on: HashMap<u64, Vec<Signal>> = HashMap::new();
    for rec in &records {
        if rec.body.is_none() || (rec.peer_gone && rec.note.is_some()) {
            continue;
        }
        let Some(ps) = rec.path_signal() else { continue };
        match rec.items() {
            Ok(items) => {
                for v in items.iter().filter_map(|i| i.vid()) {
                    carried_on.entry(v).or_default().push(ps);
                    if rec.acked() && !rec.acked_by_status_line() {
                        acked_in.entry(v).or_default().push(rec);
                    }
                }
            }
            Err(e) => {
                r.observe("split:scenarios-inconclusive", 1);
                r.inconclusive(format!("split-batch scenario: undecodable {} request ({}): {}", ps.name(), tname, e));
                return;
            }
        }
    }
    for s in &configured {
        let on_ep: Vec<&Record> = records.iter().filter(|rec| rec.endpoint == *s).collect();
        if on_ep.iter().any(|f| f.decision.is_fault() && on_ep.iter().any(|a| a.seq > 0 && a.seq < f.seq && a.acked())) {
            later_failed += 1;
        }
    }
    r.observe("split:signals-with-a-later-request-failed-after-an-acknowledged-one", later_failed);
    r.observe(&format!("split:fault-hit:{}", fault.class()), fault_hit as u64);
    if later_failed > 0 {
        r.nontrivial(&("split", tname, gzip, subset, fault.class(), acks_first));
    }
    if acks_written != acks_seen {
        // an acknowledgement got lost to a client-side timeout: a retry of it is legitimate
        r.observe("split:not-judged:acknowledgements-written-and-seen-differ", 1);
        return;
    }
    r.observe("split:scenarios-decided", 1);
    for (v, want) in &sent {
        let acked = acked_in.get(v).map(|x| x.len()).unwrap_or(0);
        if acked > 1 {
            let recs = &acked_in[v];
            r.violation(
                &format!("C14:exported-more-than-once:acknowledged-twice:{}", tname),
                &format!(
                    "event v{} was exported in {} requests that were all acknowledged (#{} and #{} on {}); the batch had a later request fail with {}",
                    v,
                    acked,
                    recs[0].seq,
                    recs[1].seq,
                    recs[1].endpoint.name(),
                    fault.name()
                ),
                case_json(json!({"vid": v, "acknowledged_in": recs.iter().map(|x| x.brief()).collect::<Vec<_>>()})),
            );
            break;
        }
        if let Some(on) = carried_on.get(v) {
            if let Some(other) = on.iter().find(|s| *s != want) {
                r.violation(
                    &format!("C14:wrong-signal:split-batch:{}:got={}:want={}", tname, other.name(), want.name()),
                    &format!("event v{} belongs to {} but a request on {} carries it", v, want.name(), other.name()),
                    case_json(json!({"vid": v})),
                );
                break;
            }
        }
        if acked == 1 {
            r.observe("split:events-acknowledged-exactly-once", 1);
        } else if acked == 0 {
            r.observe("split:events-not-in-an-acknowledged-request", 1);
        }
    }
    if r.wants_sample() && case < 2 {
        let reqs: Vec<Json> = records.iter().map(|rec| json!({"endpoint": rec.endpoint.name(), "seq": rec.seq, "decision": rec.decision.name(), "acked": rec.acked(), "body_len": rec.body.as_ref().map(|b| b.len())})).collect();
        let cj = case_json(json!(null));
        r.sample(move || json!({"scenario": cj, "requests": reqs}));
    }
    drop(otlp);
    drop(col);
}

// ---------------------------------------------------------------------------
// an acknowledged HTTP request whose response body never completes because the connection is closed
// ---------------------------------------------------------------------------

const HEAD_CLOSE_REPS: usize = 4;

/// The collector answers one request with a complete `200` head that announces a body (content-length or
/// chunked), then closes the connection gracefully before / inside that body. A 2xx answer is not one of
/// the failures of the statement, so the events of that request must not be exported again. One
/// repetition: was any event of that request in a later request?
fn head_close_once(seed: u64, case: u64, rep: usize, transport: Transport, gzip: bool, subset: u8, decision: Decision, big: bool) -> Result<(bool, Json), String> {
    let mut g = Rng::stream(seed, &[14, 4, case, rep as u64]);
    let configured: Vec<Signal> = Signal::ALL.into_iter().filter(|s| subset & s.bit() != 0).collect();
    let cfgs = configured
        .iter()
        .map(|s| {
            let script = if big { vec![Decision::HoldAck(3_000), decision] } else { vec![decision] };
            EndpointCfg { signal: *s, wire: transport.wire(), listen: true, script }
        })
        .collect();
    let col = Collector::start(cfgs);
    let otlp = build_otlp(&col, transport, gzip, subset);
    let kinds: Vec<u64> = (0..3u64).filter(|k| split_signal(*k, subset).is_some()).collect();
    let mut vid = case * 100_000 + rep as u64 * 10_000;
    let pad_src = "emit ".repeat(140_000);
    if big {
        for s in &configured {
            let kind = match s {
                Signal::Logs => 0,
                Signal::Traces => 1,
                Signal::Metrics => 2,
            };
            emit_big(&otlp, vid, kind, "p");
            vid += 1;
        }
        let live = configured.clone();
        if !col.wait_until(Duration::from_secs(15), |recs| live.iter().all(|s| recs.iter().any(|rec| rec.endpoint == *s && rec.seq == 0 && rec.body_read.is_some()))) {
            col.release_gate();
            return Err("the primer requests did not arrive within 15 s".into());
        }
        // more than 2 MiB per signal: the batch is split, the closed-on request is followed by others
        let mut per_signal: HashMap<Signal, usize> = HashMap::new();
        while configured.iter().any(|s| per_signal.get(s).copied().unwrap_or(0) < 2 * MIB + MIB / 4) {
            let kind = *g.pick(&kinds);
            let sig = split_signal(kind, subset).unwrap();
            let pad = 300_000 + g.usize(400_000);
            *per_signal.entry(sig).or_insert(0) += pad;
            emit_big(&otlp, vid, kind, &pad_src[..pad]);
            vid += 1;
        }
        col.release_gate();
    } else {
        for _ in 0..(2 + g.usize(6)) {
            emit_big(&otlp, vid, *g.pick(&kinds), &pad_src[..g.usize(300)]);
            vid += 1;
        }
    }
    if !otlp.blocking_flush(Duration::from_secs(60)) {
        return Err("blocking_flush returned false (60 s)".into());
    }
    // a second batch: whatever the emitter does with the closed connection, something is sent afterwards
    for _ in 0..(1 + g.usize(4)) {
        emit_big(&otlp, vid, *g.pick(&kinds), &pad_src[..g.usize(300)]);
        vid += 1;
    }
    if !otlp.blocking_flush(Duration::from_secs(60)) {
        return Err("the second blocking_flush returned false (60 s)".into());
    }
    col.settle();
    let records = col.records();
    let mut sets: HashMap<usize, BTreeSet<u64>> = HashMap::new();
    for rec in &records {
        if rec.body.is_some() && rec.note.is_none() {
            if let Ok(items) = rec.items() {
                sets.insert(rec.idx, items.iter().filter_map(|i| i.vid()).collect());
            }
        }
    }
    let mut hit = 0;
    let mut resent = false;
    let mut witness = json!(null);
    for first in records.iter().filter(|rec| rec.decision == decision && rec.responded.is_some()) {
        hit += 1;
        let Some(set) = sets.get(&first.idx) else { continue };
        if let Some(again) = records.iter().find(|later| later.endpoint == first.endpoint && later.seq > first.seq && sets.get(&later.idx).map(|l| !l.is_disjoint(set)).unwrap_or(false)) {
            resent = true;
            witness = json!({"answered_with_2xx_then_closed": first.brief(), "events": set.len(), "sent_again_in": again.brief(), "again_events": sets[&again.idx].intersection(set).count()});
        }
    }
    drop(otlp);
    drop(col);
    if hit == 0 {
        return Err("the scripted 2xx-head-then-close decision was not reached".into());
    }
    Ok((resent, witness))
}

fn run_head_close(r: &mut Report, seed: u64, case: u64) {
    r.eval();
    let transport = [Transport::HttpJson, Transport::HttpProto][(case % 2) as usize];
    let gzip = case / 2 % 2 == 0;
    let chunked = case / 4 % 2 == 1;
    let in_body = case / 8 % 2 == 1;
    let big = case / 16 % 2 == 1;
    let subset = [1u8, 2, 4, 7, 3, 6][(case / 32 + case / 2) as usize % 6];
    let decision = Decision::AckThenClose { chunked, in_body };
    let flavour = format!("{}:{}:{}:{}", if chunked { "chunked" } else { "content-length" }, if in_body { "inside-the-body" } else { "before-the-body" }, if gzip { "gzip" } else { "plain" }, if big { "split-batch" } else { "small-batch" });
    let mut resent = 0;
    let mut done = 0;
    let mut witness = json!(null);
    for rep in 0..HEAD_CLOSE_REPS {
        match head_close_once(seed, case, rep, transport, gzip, subset, decision, big) {
            Ok((again, w)) => {
                done += 1;
                if again {
                    resent += 1;
                    witness = w;
                }
            }
            Err(why) => {
                r.observe("head-close:repetitions-inconclusive", 1);
                r.inconclusive(format!("2xx-head-then-close scenario: {}", why));
            }
        }
    }
    r.observe("head-close:repetitions-run", done as u64);
    r.observe(&format!("head-close:flavour:{}:{}:{}", transport.name(), if chunked { "chunked" } else { "content-length" }, if in_body { "inside-the-body" } else { "before-the-body" }), 1);
    if done == HEAD_CLOSE_REPS {
        r.nontrivial(&("head-close", transport.name(), chunked, in_body, gzip, big, subset));
    }
    if resent == 0 {
        r.observe("head-close:never-sent-again", 1);
    } else if resent == done && done == HEAD_CLOSE_REPS {
        // a deterministic regression re-sends every time; starvation does not
        r.violation(
            &format!("C14:exported-twice:after-2xx-head-then-close:{}", transport.name()),
            &format!(
                "the collector answered a request with a complete 200 head ({}) and then closed the connection; in all {} repetitions the events of that request were exported again in a later request",
                flavour, HEAD_CLOSE_REPS
            ),
            json!({"seed": seed, "case": case, "kind": "head-close", "transport": transport.name(), "flavour": flavour, "subset": subset_name(subset), "decision": decision.name(), "last_witness": witness}),
        );
    } else {
        r.observe("head-close:sent-again-in-some-repetitions:observed-but-unjudged", 1);
    }
}

// ---------------------------------------------------------------------------
// the collector closes an established keep-alive connection between two batches
// ---------------------------------------------------------------------------

/// Batch 1 is answered 200 / grpc-status 0, then the collector closes (FIN) or resets the connection -
/// a proxy's idle timeout, a restart. The emitter is idle, then batches 2, 3, 4 follow (the collector does
/// it again after batch 3). A failed first attempt on the dead cached connection followed by a retry on a
/// fresh one is fine; every event of the later batches must end up in exactly one acknowledged request on
/// its signal, flush must say true, and nothing may be counted as discarded.
fn run_idle_close(r: &mut Report, seed: u64, case: u64) {
    r.eval();
    let mut g = Rng::stream(seed, &[14, 6, case]);
    let transport = Transport::ALL[(case % 3) as usize];
    let gzip = case / 3 % 2 == 0;
    let reset = case / 6 % 2 == 1;
    let subset = [1u8, 2, 4, 7][(case / 12 % 4) as usize];
    let tname = transport.name();
    let configured: Vec<Signal> = Signal::ALL.into_iter().filter(|s| subset & s.bit() != 0).collect();
    let drop_ = Decision::AckThenDrop { reset };
    let cfgs = configured.iter().map(|s| EndpointCfg { signal: *s, wire: transport.wire(), listen: true, script: vec![drop_, Decision::Ack(200), drop_] }).collect();
    let col = Collector::start(cfgs);
    let otlp = build_otlp(&col, transport, gzip, subset);
    let before = otlp.metric_source().event_discarded();
    let case_json = |detail: Json| json!({"seed": seed, "case": case, "kind": "idle-close", "transport": tname, "gzip": gzip, "subset": subset_name(subset), "connection": if reset { "reset" } else { "closed" }, "detail": detail});
    let mut sent: Vec<(u64, Signal, usize)> = Vec::new();
    let mut vid = case * 100_000;
    for batch in 1..=4usize {
        for s in &configured {
            let kind = match s {
                Signal::Logs => 0,
                Signal::Traces => 1,
                Signal::Metrics => 2,
            };
            for _ in 0..(1 + g.usize(4)) {
                emit_big(&otlp, vid, kind, "idle");
                sent.push((vid, *s, batch));
                vid += 1;
            }
        }
        if !otlp.blocking_flush(Duration::from_secs(60)) {
            r.observe("idle-close:scenarios-inconclusive", 1);
            r.inconclusive(format!("idle-connection scenario: blocking_flush returned false (60 s) for batch {}", batch));
            return;
        }
        // the emitter is idle now; wait until the collector has really closed what it wanted to close
        let want_closed = if batch == 1 || batch == 3 { configured.len() * (1 + batch / 3) } else { 0 };
        let t0 = std::time::Instant::now();
        while col.conns().iter().filter(|c| c.closed_by_collector).count() < want_closed && t0.elapsed() < Duration::from_secs(5) {
            std::thread::sleep(Duration::from_millis(2));
        }
        std::thread::sleep(Duration::from_millis(10 + g.below(30)));
    }
    col.settle();
    let records = col.records();
    let discarded = otlp.metric_source().event_discarded() - before;
    let first_conn: HashMap<Signal, u64> = configured.iter().filter_map(|s| records.iter().filter(|rec| rec.endpoint == *s).map(|rec| rec.conn).min().map(|c| (*s, c))).collect();
    let fresh = records.iter().filter(|rec| first_conn.get(&rec.endpoint).map(|c| rec.conn != *c).unwrap_or(false)).count();
    r.observe("idle-close:requests-recorded", records.len() as u64);
    r.observe("idle-close:requests-on-fresh-connections", fresh as u64);
    r.observe("idle-close:connections-closed-by-the-collector", col.conns().iter().filter(|c| c.closed_by_collector).count() as u64);
    r.observe("idle-close:scenarios-decided", 1);
    r.nontrivial(&("idle-close", tname, gzip, reset, subset));
    let mut acked_in: HashMap<u64, Vec<Signal>> = HashMap::new();
    for rec in records.iter().filter(|rec| rec.acked() && rec.body.is_some()) {
        if let (Some(ps), Ok(items)) = (rec.path_signal(), rec.items()) {
            for v in items.iter().filter_map(|i| i.vid()) {
                acked_in.entry(v).or_default().push(ps);
            }
        }
    }
    for (v, sig, batch) in &sent {
        let got = acked_in.get(v).cloned().unwrap_or_default();
        if got.len() == 1 && got[0] == *sig {
            r.observe("idle-close:events-acknowledged-exactly-once", 1);
            continue;
        }
        let what = if got.is_empty() { "not-exported" } else if got.len() > 1 { "exported-more-than-once" } else { "wrong-signal" };
        r.violation(
            &format!("C14:{}:after-collector-closed-idle-connection:{}:{}", what, tname, sig.name()),
            &format!(
                "the collector answered batch 1 and then {} the connection; event v{} of batch {} ({}) is in {} acknowledged requests ({:?}) although flush returned true; {} of {} requests arrived on fresh connections",
                if reset { "reset" } else { "closed" },
                v,
                batch,
                sig.name(),
                got.len(),
                got.iter().map(|s| s.name()).collect::<Vec<_>>(),
                fresh,
                records.len()
            ),
            case_json(json!({"vid": v, "batch": batch, "requests": records.iter().map(|rec| rec.brief()).collect::<Vec<_>>()})),
        );
        break;
    }
    if discarded != 0 {
        r.violation(
            &format!("C14:discard-count:after-collector-closed-idle-connection:{}", tname),
            &format!("event_discarded rose by {} although every event has a configured signal", discarded),
            case_json(json!({"discarded": discarded})),
        );
    }
    drop(otlp);
    drop(col);
}

// ---------------------------------------------------------------------------
// many threads emitting at once: the discard counter is exact
// ---------------------------------------------------------------------------

fn run_concurrent(r: &mut Report, seed: u64, case: u64, thorough: bool) {
    r.eval();
    let mut g = Rng::stream(seed, &[14, 5, case]);
    // subsets without logs discard a large share; the ones with logs must count nothing
    let subset = [0u8, 2, 4, 6, 2, 4, 6, 0, 1, 3, 5][(case % 11) as usize];
    let transport = Transport::ALL[(case / 11 % 3) as usize];
    let gzip = g.bool();
    let n_threads = 4 + g.usize(13);
    let tname = transport.name();
    // classed events whose destination the statement settles
    let mut discard_pool: Vec<Ev> = Vec::new();
    let mut export_pool: Vec<(Ev, Signal)> = Vec::new();
    let mut k = 0;
    while (discard_pool.len() < 24 && subset & 1 == 0) || export_pool.len() < 24 && subset != 0 {
        let ev = gen_event(&mut g, 0, 1_000 + k);
        k += 1;
        match want(&ev, subset) {
            Want::Exactly(None) if discard_pool.len() < 24 => discard_pool.push(ev),
            Want::Exactly(Some(s)) if export_pool.len() < 24 => export_pool.push((ev, s)),
            _ => {}
        }
        if k > 100_000 {
            break;
        }
    }
    let per_thread_discards: Vec<u64> = (0..n_threads).map(|_| if discard_pool.is_empty() { 0 } else if thorough { 30_000 + g.below(40_000) } else { 20_000 + g.below(15_000) }).collect();
    // exported events stay well below the channel capacity (10 000 per signal), so nothing is truncated
    let per_thread_exports: u64 = if export_pool.is_empty() { 0 } else { 3_000 / n_threads as u64 };
    let case_json = |detail: Json| json!({"seed": seed, "case": case, "kind": "concurrent", "transport": tname, "gzip": gzip, "subset": subset_name(subset), "threads": n_threads,
        "discards_per_thread": per_thread_discards, "exports_per_thread": per_thread_exports, "detail": detail});

    let cfgs = Signal::ALL.into_iter().filter(|s| subset & s.bit() != 0).map(|s| EndpointCfg { signal: s, wire: transport.wire(), listen: true, script: vec![] }).collect();
    let col = Collector::start(cfgs);
    let otlp = build_otlp(&col, transport, gzip, subset);
    let before = otlp.metric_source().event_discarded();
    let barrier = std::sync::Barrier::new(n_threads);
    let seeds: Vec<u64> = (0..n_threads).map(|_| g.next()).collect();
    let exported: Vec<Vec<(u64, Signal, &'static str)>> = std::thread::scope(|scope| {
        let handles: Vec<_> = (0..n_threads)
            .map(|t| {
                let (otlp, barrier, discard_pool, export_pool) = (&otlp, &barrier, &discard_pool, &export_pool);
                let n_discard = per_thread_discards[t];
                let mut g = Rng(seeds[t]);
                scope.spawn(move || {
                    let st = new_store();
                    let mut mine = Vec::new();
                    let total = n_discard + per_thread_exports;
                    let every = if per_thread_exports == 0 { u64::MAX } else { (total / per_thread_exports).max(1) };
                    let (mut d, mut e) = (0u64, 0u64);
                    barrier.wait();
                    for k in 0..total {
                        let vid = case * 100_000_000 + t as u64 * 1_000_000 + k;
                        let export_now = e < per_thread_exports && (d >= n_discard || k % every == every - 1);
                        if export_now {
                            let (ev, sig) = g.pick(export_pool);
                            let mut ev = ev.clone();
                            ev.vid = vid;
                            emit_one(otlp, &ev, &st);
                            mine.push((vid, *sig, ev.kind.name()));
                            e += 1;
                        } else {
                            let mut ev = g.pick(discard_pool).clone();
                            ev.vid = vid;
                            emit_one(otlp, &ev, &st);
                            d += 1;
                        }
                    }
                    mine
                })
            })
            .collect();
        handles.into_iter().map(|h| h.join().expect("emitter thread")).collect()
    });
    let expected_discards: u64 = per_thread_discards.iter().sum();
    let n_exported: usize = exported.iter().map(|v| v.len()).sum();
    r.observe("concurrent:threads", n_threads as u64);
    r.observe("concurrent:far-extent-classes-among-the-discarded", discard_pool.iter().filter(|e| e.is_far()).count() as u64);
    r.observe("concurrent:far-extent-classes-among-the-exported", export_pool.iter().filter(|(e, _)| e.is_far()).count() as u64);
    r.observe("concurrent:events-emitted", expected_discards + n_exported as u64);
    if !otlp.blocking_flush(Duration::from_secs(120)) {
        r.observe("concurrent:scenarios-inconclusive", 1);
        r.inconclusive("concurrent-emitters scenario: blocking_flush returned false (120 s)");
        return;
    }
    let ms = otlp.metric_source();
    let discarded = (ms.event_discarded() - before) as u64;
    col.settle();
    let records = col.records();
    r.observe("concurrent:discards-expected", expected_discards);
    r.observe("concurrent:discards-counted", discarded);
    r.observe("concurrent:scenarios-decided", 1);
    r.nontrivial(&("concurrent", subset, tname, n_threads));
    if discarded != expected_discards {
        r.violation(
            &format!("C14:discard-counter:concurrent:{}:{}", subset_name(subset), if discarded < expected_discards { "counted-less" } else { "counted-more" }),
            &format!(
                "{} threads emitted {} events that no configured signal ({}) can take, at the same time; event_discarded rose by {}",
                n_threads,
                expected_discards,
                subset_name(subset),
                discarded
            ),
            case_json(json!({"expected": expected_discards, "counted": discarded})),
        );
    }
    // the exported rest: exactly one record each, on the endpoint of its signal
    let mut seen: HashMap<u64, Vec<Signal>> = HashMap::new();
    for rec in &records {
        let Some(ps) = rec.path_signal() else { continue };
        match rec.items() {
            Ok(items) => {
                for v in items.iter().filter_map(|i| i.vid()) {
                    seen.entry(v).or_default().push(ps);
                }
            }
            Err(e) => {
                r.inconclusive(format!("concurrent-emitters scenario: undecodable {} request ({}): {}", ps.name(), tname, e));
                return;
            }
        }
    }
    let mut accounted = 0u64;
    for (vid, want_sig, kind) in exported.iter().flatten() {
        let got = seen.remove(vid).unwrap_or_default();
        if got.len() == 1 && got[0] == *want_sig {
            accounted += 1;
        } else {
            r.violation(
                &format!("C14:{}:concurrent:subset={}:want={}", if got.len() > 1 { "exported-more-than-once" } else { "wrong-signal" }, subset_name(subset), want_sig.name()),
                &format!("event v{} ({}) emitted from one of {} concurrent threads was received by {:?}, expected exactly once by {}", vid, kind, n_threads, got.iter().map(|s| s.name()).collect::<Vec<_>>(), want_sig.name()),
                case_json(json!({"vid": vid, "kind": kind, "received_by": got.iter().map(|s| s.name()).collect::<Vec<_>>()})),
            );
            break;
        }
    }
    if !seen.is_empty() {
        let extra: Vec<u64> = seen.keys().copied().take(5).collect();
        r.violation(
            &format!("C14:exported-although-no-signal-takes-it:concurrent:subset={}", subset_name(subset)),
            &format!("{} events that the routing table drops (or that were never emitted) reached the collector, e.g. {:?}", seen.len(), extra),
            case_json(json!({"vids": extra})),
        );
    }
    r.observe("concurrent:exported-events-accounted", accounted);
    // Other counters of the emitter with an exact value in a fault-free run. The statement only speaks
    // about the discard counter, so these are evidence, not verdicts.
    let acked = records.iter().filter(|rec| rec.acked()).count();
    let exact: [(&str, usize, usize); 8] = [
        ("transport_request_sent", ms.transport_request_sent(), records.len()),
        ("http_batch_sent+grpc_batch_sent", ms.http_batch_sent() + ms.grpc_batch_sent(), acked),
        ("transport_conn_established", ms.transport_conn_established(), col.conns().len()),
        ("transport_request_compress_gzip", ms.transport_request_compress_gzip(), if gzip { records.len() } else { 0 }),
        ("transport_conn_failed", ms.transport_conn_failed(), 0),
        ("transport_request_failed", ms.transport_request_failed(), 0),
        ("http_batch_failed+grpc_batch_failed", ms.http_batch_failed() + ms.grpc_batch_failed(), 0),
        ("configuration_failed", ms.configuration_failed(), 0),
    ];
    for (name, got, want) in exact {
        if got == want {
            r.observe("concurrent:other-internal-metrics-exact", 1);
        } else {
            r.observe(&format!("concurrent:other-internal-metric-differs:{}", name), 1);
        }
    }
    if r.wants_sample() && case < 2 {
        let cj = case_json(json!({"discards_counted": discarded, "exported": n_exported, "requests": records.len()}));
        r.sample(move || cj);
    }
    drop(otlp);
    drop(col);
}

// ---------------------------------------------------------------------------
// one signal's queue overflows while its destination is unavailable
// ---------------------------------------------------------------------------

/// Capacity of each signal's channel inside emit_otlp (`emit_batcher::bounded(10_000)`).
const QUEUE_CAPACITY: u64 = 10_000;

/// The first `evt_kind` of an event with shadowed duplicates, for signatures.
fn shadow_first(ev: &Ev) -> &'static str {
    match kind_family(ev) {
        "other" => "unknown",
        f => f,
    }
}

fn kind_family(ev: &Ev) -> &'static str {
    if ev.kind.is_span() {
        "span"
    } else if ev.kind.is_metric() {
        "metric"
    } else {
        "other"
    }
}

/// Classed events (see `gen_event`) whose one signal under `subset` is settled by the statement, by signal.
fn pools_by_signal(g: &mut Rng, subset: u8, per_signal: usize) -> HashMap<Signal, Vec<Ev>> {
    let mut pools: HashMap<Signal, Vec<Ev>> = HashMap::new();
    let configured: Vec<Signal> = Signal::ALL.into_iter().filter(|s| subset & s.bit() != 0).collect();
    let mut k = 0u64;
    while configured.iter().any(|s| pools.get(s).map(|p| p.len()).unwrap_or(0) < per_signal) && k < 200_000 {
        let ev = gen_event(g, 0, 1_000 + k);
        k += 1;
        if let Want::Exactly(Some(sig)) = want(&ev, subset) {
            let pool = pools.entry(sig).or_default();
            if pool.len() < per_signal {
                pool.push(ev);
            }
        }
    }
    pools
}

/// One signal's destination is unavailable - its collector endpoint rejects every request (503 / grpc-status
/// 14) or refuses connections - so the signal's worker sits in the retry back-off holding a batch. Meanwhile
/// MORE events of that signal than its queue holds (10 000) are emitted, so the queue overflows (the emitter's
/// `queue_full_truncated` counter says whether it really did), followed by probe events of that signal and
/// of the healthy ones. Overflow loses events (C09's business); it must never re-route them: whatever
/// endpoint receives an event's vid - in any request, acknowledged or not - must be the endpoint of the one
/// signal the routing table gives it. The verdict is causal (which endpoint received which vid): the outage
/// ends, everything is flushed, and the collector's log is read.
fn run_queue_pressure(r: &mut Report, seed: u64, case: u64) {
    r.eval();
    let mut g = Rng::stream(seed, &[14, 7, case]);
    // (subset, victim): every subset of two or three signals x each member
    const PAIRS: [(u8, Signal); 9] = [
        (3, Signal::Traces),
        (7, Signal::Metrics),
        (3, Signal::Logs),
        (5, Signal::Metrics),
        (7, Signal::Traces),
        (5, Signal::Logs),
        (6, Signal::Traces),
        (6, Signal::Metrics),
        (7, Signal::Logs),
    ];
    let (subset, victim) = PAIRS[(case % 9) as usize];
    let refuse = (case / 9 + case % 9) % 2 == 1;
    let transport = Transport::ALL[((case / 18 + case % 9 + seed) % 3) as usize];
    let gzip = (case / 9 + case + seed) % 2 == 0;
    let tname = transport.name();
    let grpc = transport == Transport::Grpc;
    let mode = if refuse { "refuses-connections" } else { "rejects-every-request" };
    let configured: Vec<Signal> = Signal::ALL.into_iter().filter(|s| subset & s.bit() != 0).collect();
    let case_json = |detail: Json| json!({"seed": seed, "case": case, "kind": "queue-pressure", "transport": tname, "gzip": gzip, "subset": subset_name(subset),
        "unavailable": victim.name(), "mode": mode, "detail": detail});
    let inconclusive = |r: &mut Report, why: String| {
        r.observe("queue-full:scenarios-inconclusive", 1);
        r.inconclusive(format!("queue-pressure scenario: {}", why));
    };

    let cfgs = configured.iter().map(|s| EndpointCfg { signal: *s, wire: transport.wire(), listen: !(refuse && *s == victim), script: vec![] }).collect();
    let col = Collector::start(cfgs);
    let reject = if grpc { Decision::GrpcStatus(14, GrpcForm::Trailers) } else { Decision::Status(503) };
    if !refuse {
        col.set_repeat(victim, Some(reject));
    }
    let otlp = build_otlp(&col, transport, gzip, subset);
    let discarded_before = otlp.metric_source().event_discarded();
    let st = new_store();
    let pools = pools_by_signal(&mut g, subset, 12);
    if configured.iter().any(|s| pools.get(s).map(|p| p.is_empty()).unwrap_or(true)) {
        inconclusive(r, "no event classes found for a configured signal".into());
        return;
    }
    r.observe("queue-full:far-extent-classes-in-the-pools", pools.values().flatten().filter(|e| e.is_far()).count() as u64);
    let mut sent: Vec<Ev> = Vec::new();
    let mut vid = 3_000_000_000 + case * 1_000_000;
    let mut send = |sig: Signal, g: &mut Rng, sent: &mut Vec<Ev>| {
        let mut ev = g.pick(&pools[&sig]).clone();
        ev.vid = vid;
        vid += 1;
        emit_one(&otlp, &ev, &st);
        sent.push(ev);
    };

    // ---- the victim's worker takes a batch and fails with it: from now on it holds that batch in its back-off ----
    send(victim, &mut g, &mut sent);
    let t0 = std::time::Instant::now();
    let stuck = loop {
        let failed_once = if refuse { otlp.metric_source().transport_conn_failed() >= 1 } else { col.records().iter().any(|rec| rec.endpoint == victim && rec.responded.is_some()) };
        if failed_once {
            break true;
        }
        if t0.elapsed() > Duration::from_secs(15) {
            break false;
        }
        std::thread::sleep(Duration::from_millis(1));
    };
    if !stuck {
        inconclusive(r, format!("the first attempt on the unavailable {} endpoint was not seen within 15 s", victim.name()));
        return;
    }

    // ---- more events of the victim's signal than its queue holds, a few for the healthy signals in between ----
    let n_flood = QUEUE_CAPACITY + 1 + g.below(if case % 4 == 3 { QUEUE_CAPACITY } else { 2_500 });
    let others: Vec<Signal> = configured.iter().copied().filter(|s| *s != victim).collect();
    for k in 0..n_flood {
        send(victim, &mut g, &mut sent);
        if k % 397 == 396 {
            send(*g.pick(&others), &mut g, &mut sent);
        }
    }
    // ---- probes: the victim's kind again, and the others (plain log events among them when logs is configured) ----
    for _ in 0..(20 + g.below(40)) {
        let sig = if g.bool() { victim } else { *g.pick(&others) };
        send(sig, &mut g, &mut sent);
    }
    let truncated = emitter_metric(&otlp, &format!("otlp_{}_queue_full_truncated", victim.name()));
    let attempts_during = col.records().iter().filter(|rec| rec.endpoint == victim).count() + otlp.metric_source().transport_conn_failed();
    r.observe("queue-full:events-emitted", sent.len() as u64);
    r.observe("queue-full:attempts-on-the-unavailable-endpoint-while-flooding", attempts_during as u64);

    // ---- the outage ends; everything that is still queued goes out ----
    if refuse {
        col.listen(victim);
    } else {
        col.set_repeat(victim, None);
    }
    if !otlp.blocking_flush(Duration::from_secs(90)) {
        inconclusive(r, "blocking_flush returned false (90 s) after the outage had ended".into());
        // the emitter may still be retrying: keep its collector's ports reserved for the rest of the process, so
        // that no other scenario's collector is handed one of them and sees this emitter's requests
        std::mem::forget(otlp);
        std::mem::forget(col);
        return;
    }
    col.settle();
    let records = col.records();
    let discarded = otlp.metric_source().event_discarded() - discarded_before;
    let ms = otlp.metric_source();
    let acks_written = records.iter().filter(|rec| rec.acked()).count();
    let acks_seen = ms.http_batch_sent() + ms.grpc_batch_sent();
    r.observe("queue-full:requests-recorded", records.len() as u64);
    r.observe("queue-full:scenarios-decided", 1);
    r.observe(&format!("queue-full:unavailable={}:{}", victim.name(), mode), 1);
    if truncated > 0 {
        r.observe("queue-full:scenarios-in-which-the-queue-overflowed", 1);
        r.observe("queue-full:overflow-truncations", truncated);
        r.nontrivial(&("queue-pressure", subset, victim, refuse, tname, gzip));
    } else {
        r.observe("queue-full:scenarios-without-overflow(worker-drained-the-queue-in-time)", 1);
    }
    if discarded != 0 {
        // the statement counts a discard when no configured signal can take the event; a full queue is not that,
        // but the statement does not forbid counting it either: recorded, not judged
        r.observe("queue-full:event_discarded-rose-although-every-event-has-a-configured-signal(unjudged)", discarded as u64);
    }

    // vid -> (endpoint the request arrived at, acknowledged?) for every request that could be read
    let mut carried: HashMap<u64, Vec<(Signal, bool)>> = HashMap::new();
    for rec in &records {
        if rec.body.is_none() || (rec.peer_gone && rec.note.is_some()) {
            continue;
        }
        let Some(ps) = rec.path_signal() else { continue };
        if ps != rec.endpoint {
            r.violation(
                &format!("C14:path-endpoint-mismatch:path={}:endpoint={}", ps.name(), rec.endpoint.name()),
                &format!("a request for {} arrived at the endpoint configured for {}", rec.path, rec.endpoint.name()),
                case_json(rec.brief()),
            );
        }
        match rec.items() {
            Ok(items) => {
                for v in items.iter().filter_map(|i| i.vid()) {
                    carried.entry(v).or_default().push((ps, rec.acked()));
                }
            }
            Err(e) => {
                inconclusive(r, format!("undecodable {} request ({}): {}", ps.name(), tname, e));
                return;
            }
        }
    }
    let mut wrong = 0u64;
    let (mut victim_delivered, mut victim_lost) = (0u64, 0u64);
    for ev in &sent {
        let Want::Exactly(Some(want_sig)) = want(ev, subset) else { continue };
        let got = carried.remove(&ev.vid).unwrap_or_default();
        // ---- the verdict: every endpoint that received this vid is the endpoint of its one signal ----
        if let Some((other, _)) = got.iter().find(|(s, _)| *s != want_sig) {
            wrong += 1;
            let also = got.iter().any(|(s, _)| *s == want_sig);
            r.violation(
                &format!("C14:wrong-signal:queue-full:kind={}:got={}:want={}", kind_family(ev), other.name(), want_sig.name()),
                &format!(
                    "the {} endpoint {} and more than {} events were queued for it ({} overflow truncations); event v{} ({}, extent {}) belongs to {} but a request on the {} endpoint carries it{}",
                    victim.name(),
                    mode.replace('-', " "),
                    QUEUE_CAPACITY,
                    truncated,
                    ev.vid,
                    ev.kind.name(),
                    ev.extent_name(),
                    want_sig.name(),
                    other.name(),
                    if also { " as well" } else { " instead" }
                ),
                case_json(json!({"event": ev.class_json(), "received_by": got.iter().map(|(s, a)| json!([s.name(), if *a { "acknowledged" } else { "not acknowledged" }])).collect::<Vec<_>>(),
                    "emitted_as_number": ev.vid - (3_000_000_000 + case * 1_000_000), "flood": n_flood, "overflow_truncations": truncated})),
            );
            if wrong >= 3 {
                break;
            }
            continue;
        }
        let acked = got.iter().filter(|(_, a)| *a).count();
        if acked > 1 && acks_written == acks_seen {
            r.violation(
                &format!("C14:exported-more-than-once:queue-full:kind={}:on={}", kind_family(ev), want_sig.name()),
                &format!("event v{} is in {} acknowledged requests on the {} endpoint", ev.vid, acked, want_sig.name()),
                case_json(json!({"event": ev.class_json(), "acknowledged_requests": acked})),
            );
            break;
        }
        if want_sig == victim {
            // lost to the overflow, or delivered once the outage was over: both fine here
            if acked >= 1 {
                victim_delivered += 1;
            } else {
                victim_lost += 1;
            }
        } else if acked == 0 {
            // a healthy signal, never failing, below its capacity, flush true
            r.violation(
                &format!("C14:not-exported:queue-full:kind={}:want={}:unavailable={}", kind_family(ev), want_sig.name(), victim.name()),
                &format!("event v{} belongs to the healthy {} signal but is in no acknowledged request although flush returned true (the {} endpoint was unavailable meanwhile)", ev.vid, want_sig.name(), victim.name()),
                case_json(json!({"event": ev.class_json(), "received_by": got.iter().map(|(s, a)| json!([s.name(), *a])).collect::<Vec<_>>()})),
            );
            break;
        } else {
            r.observe("queue-full:healthy-signal-events-accounted", 1);
        }
    }
    r.observe("queue-full:unavailable-signal-events-delivered-after-the-outage", victim_delivered);
    r.observe("queue-full:unavailable-signal-events-lost-to-the-overflow", victim_lost);
    // (requests of some other scenario's emitter, still retrying towards a port this collector was handed
    // afterwards, are a harness matter and not a verdict)
    let base = 3_000_000_000 + case * 1_000_000;
    if carried.keys().any(|v| !(base..base + 1_000_000).contains(v)) {
        inconclusive(r, "a collector received requests that were not sent by its scenario's emitter".into());
        carried.retain(|v, _| (base..base + 1_000_000).contains(v));
    }
    if wrong == 0 && !carried.is_empty() {
        let extra: Vec<u64> = carried.keys().copied().take(5).collect();
        r.violation(
            &format!("C14:unknown-vid-exported:queue-full:{}", tname),
            &format!("records with vids that were never emitted in this scenario: {:?}", extra),
            case_json(json!({"vids": extra})),
        );
    }
    if r.wants_sample() && case < 1 {
        let cj = case_json(json!({"events": sent.len(), "flood": n_flood, "overflow_truncations": truncated, "requests": records.len(),
            "delivered_after_outage": victim_delivered, "lost_to_overflow": victim_lost}));
        r.sample(move || cj);
    }
    drop(otlp);
    drop(col);
}

// ---------------------------------------------------------------------------
// a configured signal's encoder rejects the event: nothing exported, one discard counted
// ---------------------------------------------------------------------------

/// N events carry a property whose value fails to format part-way (Display / Debug / serde / sval; first,
/// middle or last property; sometimes bound to a template hole), M ordinary events in between. An event whose
/// value cannot be written cannot be encoded by ANY signal - its own or the logs fallback - so "no configured
/// signal can take the event": it is exported nowhere and `event_discarded` rises by exactly one. Exact
/// accounting: counter delta == (events with a failing value that are absent from every endpoint) + (events the
/// routing table drops because logs is not configured). Ordinary events are accounted as in the routing section.
fn run_encoder_reject(r: &mut Report, seed: u64, case: u64) {
    r.eval();
    let mut g = Rng::stream(seed, &[14, 8, case]);
    // logs configured (the fallback that cannot encode the event) four times out of seven
    let subset = [1u8, 3, 5, 7, 2, 4, 6][(case % 7) as usize];
    let transport = Transport::ALL[(case / 7 % 3) as usize];
    let gzip = case / 21 % 2 == 0;
    let tname = transport.name();
    let case_json = |detail: Json| json!({"seed": seed, "case": case, "kind": "encoder-reject", "transport": tname, "gzip": gzip, "subset": subset_name(subset), "detail": detail});
    let cfgs = Signal::ALL.into_iter().filter(|s| subset & s.bit() != 0).map(|s| EndpointCfg { signal: s, wire: transport.wire(), listen: true, script: vec![] }).collect();
    let col = Collector::start(cfgs);
    let otlp = build_otlp(&col, transport, gzip, subset);
    let before = otlp.metric_source().event_discarded();
    let st = new_store();
    let n = 60 + g.below(240);
    let mut events: Vec<Ev> = Vec::new();
    for k in 0..n {
        let mut ev = gen_event(&mut g, 4_000_000_000 + case * 100_000 + k, 1_000 + k);
        // failing values on every kind family: the classes are drawn, one event in three (and the first few) fails
        if k < 5 || g.chance(1, 3) {
            ev.bad = Some(Bad { cap: BAD_CAPS[((k + case) % 5) as usize], pos: g.below(3) as u8, hole: g.chance(1, 5) });
        }
        events.push(ev);
    }
    let mut panicked = false;
    for ev in &events {
        if let Err(msg) = catch(|| emit_one(&otlp, ev, &st)) {
            panicked = true;
            r.violation(
                &format!("C14:panic-in-emit:encoder-rejected:kind={}:{}", kind_family(ev), ev.bad.map(|b| b.cap.name()).unwrap_or("ordinary")),
                &format!("Otlp::emit panicked: {}", msg),
                case_json(ev.class_json()),
            );
        }
    }
    r.observe("encoder-rejected:events-emitted", events.len() as u64);
    r.observe("encoder-rejected:far-extent-events-emitted", events.iter().filter(|e| e.is_far()).count() as u64);
    if !otlp.blocking_flush(Duration::from_secs(60)) {
        r.observe("encoder-rejected:scenarios-inconclusive", 1);
        r.inconclusive("encoder-rejection scenario: blocking_flush returned false (60 s)");
        return;
    }
    let discarded = (otlp.metric_source().event_discarded() - before) as u64;
    col.settle();
    let records = col.records();
    let mut seen: HashMap<u64, Vec<Signal>> = HashMap::new();
    for rec in &records {
        let Some(ps) = rec.path_signal() else { continue };
        match rec.items() {
            Ok(items) => {
                for v in items.iter().filter_map(|i| i.vid()) {
                    seen.entry(v).or_default().push(ps);
                }
            }
            Err(e) => {
                // (a half-written attribute makes the whole request undecodable: C13's finding 97a5ba0)
                r.observe("encoder-rejected:scenarios-inconclusive", 1);
                r.inconclusive(format!("encoder-rejection scenario: undecodable {} request ({}): {}", ps.name(), tname, e));
                return;
            }
        }
    }
    if panicked {
        return;
    }
    r.observe("encoder-rejected:scenarios-decided", 1);
    let mut expected = 0u64;
    let mut failing_absent: HashMap<String, u64> = HashMap::new();
    let mut failing_total = 0u64;
    let mut routing_discards = 0u64;
    for ev in &events {
        let got = seen.remove(&ev.vid).unwrap_or_default();
        let w = want(ev, subset);
        let names = |v: &[Signal]| v.iter().map(|s| s.name()).collect::<Vec<_>>().join("+");
        if got.len() > 1 {
            r.violation(
                &format!("C14:exported-more-than-once:encoder-rejected:kind={}:got={}", kind_family(ev), names(&got)),
                &format!("event v{} ({}) was exported {} times ({})", ev.vid, if ev.bad.is_some() { "with a failing value" } else { "ordinary" }, got.len(), names(&got)),
                case_json(ev.class_json()),
            );
            continue;
        }
        let got1 = got.first().copied();
        let admissible = |s: Option<Signal>| match w {
            Want::Exactly(x) => s == x,
            Want::MetricsOr(fallback) => s == Some(Signal::Metrics) || s == fallback,
        };
        match ev.bad {
            Some(bad) => {
                failing_total += 1;
                let class = format!("kind={}:falls-to={}:{}{}", kind_family(ev), match w { Want::Exactly(x) | Want::MetricsOr(x) => x.map(|s| s.name()).unwrap_or("none") }, bad.cap.name(), if bad.hole { ":hole" } else { "" });
                r.nontrivial(&("encoder-reject", subset, tname, kind_family(ev), bad.cap, bad.hole, format!("{:?}", w)));
                match got1 {
                    None => {
                        // exported nowhere: exactly one discard is owed for it
                        expected += 1;
                        *failing_absent.entry(class).or_insert(0) += 1;
                    }
                    Some(s) => {
                        // an emitter that leaves the failing attribute out and exports the rest has "taken" the event
                        // (record fidelity is C13's); it must still be the right endpoint, and it owes no discard
                        r.observe("encoder-rejected:failing-events-exported-anyway", 1);
                        r.observe(&format!("encoder-rejected:failing-events-exported-anyway:{}:via={}", class, s.name()), 1);
                        if !admissible(Some(s)) && !(s == Signal::Logs && subset & Signal::Logs.bit() != 0) {
                            r.violation(
                                &format!("C14:wrong-signal:encoder-rejected:kind={}:got={}", kind_family(ev), s.name()),
                                &format!("event v{} with a failing value was exported through {}, which the routing table does not allow ({:?})", ev.vid, s.name(), w),
                                case_json(ev.class_json()),
                            );
                        }
                    }
                }
            }
            None => {
                if got1.is_none() && admissible(None) {
                    expected += 1;
                    routing_discards += 1;
                } else if !admissible(got1) {
                    r.violation(
                        &format!("C14:wrong-signal:encoder-rejected:neighbour:kind={}:got={}", kind_family(ev), got1.map(|s| s.name()).unwrap_or("none")),
                        &format!("ordinary event v{}, emitted between events whose values fail to format, was received by {} (routing table: {:?})", ev.vid, got1.map(|s| s.name()).unwrap_or("no endpoint"), w),
                        case_json(ev.class_json()),
                    );
                } else {
                    r.observe("encoder-rejected:ordinary-events-accounted", 1);
                }
            }
        }
    }
    let absent: u64 = failing_absent.values().sum();
    r.observe("encoder-rejected:failing-events", failing_total);
    r.observe("encoder-rejected:failing-events-exported-nowhere", absent);
    r.observe("encoder-rejected:routing-discards-expected", routing_discards);
    r.observe("encoder-rejected:discards-expected", expected);
    r.observe("encoder-rejected:discards-counted", discarded);
    if subset & Signal::Logs.bit() != 0 {
        r.observe("encoder-rejected:discards-expected-with-logs-configured", expected);
        r.observe("encoder-rejected:discards-counted-with-logs-configured", discarded);
    }
    if discarded != expected {
        let mut classes: Vec<(String, u64)> = failing_absent.into_iter().collect();
        classes.sort();
        r.violation(
            &format!(
                "C14:discard-counter:encoder-rejected:logs={}:subset={}:{}",
                if subset & Signal::Logs.bit() != 0 { "configured" } else { "not-configured" },
                subset_name(subset),
                if discarded < expected { "counted-less" } else { "counted-more" }
            ),
            &format!(
                "{} events carried a value that fails to format part-way and were exported nowhere, {} more have no configured signal; event_discarded rose by {} instead of {} (signals configured: {})",
                absent,
                routing_discards,
                discarded,
                expected,
                subset_name(subset)
            ),
            case_json(json!({"events": events.len(), "failing": failing_total, "failing_exported_nowhere": absent, "routing_discards": routing_discards, "counted": discarded, "expected": expected,
                "failing_exported_nowhere_by_class": classes.iter().map(|(c, n)| json!([c, n])).collect::<Vec<_>>()})),
        );
    }
    if !seen.is_empty() {
        let extra: Vec<u64> = seen.keys().copied().take(5).collect();
        r.violation(
            &format!("C14:unknown-vid-exported:encoder-rejected:{}", tname),
            &format!("records with vids that were never emitted in this scenario: {:?}", extra),
            case_json(json!({"vids": extra})),
        );
    }
    if r.wants_sample() && case < 1 {
        let cj = case_json(json!({"events": events.len(), "failing": failing_total, "exported_nowhere": absent, "discards_counted": discarded, "requests": records.len()}));
        r.sample(move || cj);
    }
    drop(otlp);
    drop(col);
}

fn main() {
    let args = Args::parse();
    let mut r = Report::new(
        "C14",
        &args,
        "one evaluation = one emitted event whose destination (the collector endpoint that received its vid, or none + discard count) is judged \
         against the routing table, inside scenarios of signal subset x transport x gzip with a few hundred classed events each (split-batch scenarios \
         count one evaluation each); non-trivial = distinct (signal subset, transport, kind class, extent class, metric value class, aggregation present) \
         combinations whose event was accounted for at the collector",
    );
    let seed = args.seed;
    // the systematic walk is 108 near-present classes + 135 far-away-extent classes + 120 shadowed-duplicate classes; the rest of a scenario is drawn
    let n_events = args.get_u64("events", if args.thorough() { 900 } else { 420 });

    if let Some(path) = &args.replay {
        let case = load_replay(path);
        let c = case.get("case").and_then(|v| v.as_u64()).unwrap_or(0);
        let s = case.get("seed").and_then(|v| v.as_u64()).unwrap_or(seed);
        if case.get("kind").and_then(|v| v.as_str()) == Some("split-batch") {
            emit_batcher::verif::set_delay_divisor(100);
            emit_otlp::verif::set_request_timeout(Some(Duration::from_millis(300)));
            for i in 0..3 {
                run_split(&mut r, s, c);
                r.nontrivial(&("replay-run", i));
            }
            std::process::exit(r.finish());
        }
        match case.get("kind").and_then(|v| v.as_str()) {
            Some("head-close") => {
                emit_batcher::verif::set_delay_divisor(100);
                emit_otlp::verif::set_request_timeout(Some(Duration::from_secs(10)));
                run_head_close(&mut r, s, c);
                r.nontrivial(&("replay-run", 0));
                r.observe("replayed", 1);
                std::process::exit(r.finish());
            }
            Some("idle-close") => {
                emit_batcher::verif::set_delay_divisor(100);
                emit_otlp::verif::set_request_timeout(Some(Duration::from_secs(10)));
                for i in 0..3 {
                    run_idle_close(&mut r, s, c);
                    r.nontrivial(&("replay-run", i));
                }
                std::process::exit(r.finish());
            }
            Some("queue-pressure") => {
                emit_batcher::verif::set_delay_divisor(20);
                emit_otlp::verif::set_request_timeout(Some(Duration::from_secs(10)));
                for i in 0..2 {
                    run_queue_pressure(&mut r, s, c);
                    r.nontrivial(&("replay-run", i));
                }
                std::process::exit(r.finish());
            }
            Some("encoder-reject") => {
                for i in 0..2 {
                    run_encoder_reject(&mut r, s, c);
                    r.nontrivial(&("replay-run", i));
                }
                std::process::exit(r.finish());
            }
            Some("concurrent") => {
                for i in 0..2 {
                    run_concurrent(&mut r, s, c, args.thorough());
                    r.nontrivial(&("replay-run", i));
                }
                std::process::exit(r.finish());
            }
            _ => {}
        }
        let n = case.get("events").and_then(|v| v.as_u64()).unwrap_or(n_events);
        let sc = generate(s, c, n);
        run(&mut r, &sc, s);
        std::process::exit(r.finish());
    }

    let section = args.get("section").unwrap_or("all").to_string();
    let only = |name: &str| section == "all" || section == name;
    // 8 subsets x 3 transports x gzip on/off = 48 cases per round
    let n = if only("routing") { args.n(192, 7200) } else { 0 };
    par_cases(&mut r, &args, n, |i, r| {
        let sc = generate(seed, i, n_events);
        run(r, &sc, seed);
    });
    if n > 0 {
        r.exhaustive("all eight subsets of configured signals x {HTTP+JSON, HTTP+protobuf, gRPC} x gzip on/off");
    }

    // A configured signal's encoder rejects the event (a value that fails to format part-way): exported nowhere,
    // one discard counted. 7 non-empty subsets x 3 transports x gzip = 42 per round; no hooks, nothing fails.
    let n_reject = if only("encoder-reject") { args.n(42, 840) } else { 0 };
    par_cases(&mut r, &args, n_reject, |i, r| run_encoder_reject(r, seed, i));

    // Split batches under failures. The hooks are process-global: they are only switched on now that the
    // fault-free section is over (a shortened request timeout there could turn load into duplicates).
    emit_batcher::verif::set_delay_divisor(100);
    emit_otlp::verif::set_request_timeout(Some(Duration::from_millis(300)));
    let n_split = if only("split") { args.n(54, 756) } else { 0 };
    par_cases(&mut r, &args, n_split * 16, |i, r| {
        // one scenario per block of `par_cases`: they spend their time waiting
        if i % 16 == 0 {
            run_split(r, seed, i / 16)
        }
    });

    // A 2xx head, then the connection is closed. A generous request timeout: a client-side timeout
    // before the head is read must be implausible here.
    emit_otlp::verif::set_request_timeout(Some(Duration::from_secs(10)));
    let n_head_close = if only("head-close") { args.n(32, 320) } else { 0 };
    par_cases(&mut r, &args, n_head_close * 16, |i, r| {
        if i % 16 == 0 {
            run_head_close(r, seed, i / 16)
        }
    });

    // The collector closes idle keep-alive connections between batches (3 transports x gzip x close / reset x
    // {L, T, M, LTM} = 48 per round).
    let n_idle = if only("idle-close") { args.n(48, 480) } else { 0 };
    par_cases(&mut r, &args, n_idle * 16, |i, r| {
        if i % 16 == 0 {
            run_idle_close(r, seed, i / 16)
        }
    });

    // One signal's destination is unavailable while more than its queue's capacity is emitted for it (9 (subset,
    // unavailable member) pairs x rejecting / refusing = 18 per round; transport and gzip rotate with case and seed).
    // A slower back-off than above, so that the worker really sits on its batch while the queue overflows.
    emit_batcher::verif::set_delay_divisor(20);
    let n_pressure = if only("queue-pressure") { args.n(18, 216) } else { 0 };
    par_cases(&mut r, &args, n_pressure * 16, |i, r| {
        if i % 16 == 0 {
            run_queue_pressure(r, seed, i / 16)
        }
    });

    // Many threads emitting at once (each scenario uses up to 16 threads itself: one after the other).
    let thorough = args.thorough();
    for i in 0..(if only("concurrent") { args.n(11, 132) } else { 0 }) {
        run_concurrent(&mut r, seed, i, thorough);
    }
    std::process::exit(r.finish());
}
