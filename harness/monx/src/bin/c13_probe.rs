use emit::Emitter;
use std::time::Duration;
use vcommon::model::*;
use vcommon::*;

fn main() {
    use ModelValue as M;
    let dir = String::from_utf8(std::process::Command::new("mktemp").arg("-d").output().unwrap().stdout).unwrap().trim().to_string();
    let keys: Vec<(&str, M)> = vec![
        ("str", M::Str("k".into())),
        ("char", M::Char('c')),
        ("int", M::I32(5)),
        ("u8", M::U8(5)),
        ("u64big", M::U64(u64::MAX)),
        ("i128big", M::I128(i128::MIN)),
        ("i128small", M::I128(-3)),
        ("bool", M::Bool(true)),
        ("f64", M::F64(1.5)),
        ("f32", M::F32(0.1)),
        ("nan", M::F64(f64::NAN)),
        ("unit-variant", M::UnitVariant("Kind", 1, "Second")),
        ("newtype-struct-int", M::NewtypeStruct("Wrapper", Box::new(M::U32(3)))),
        ("newtype-struct-str", M::NewtypeStruct("Wrapper", Box::new(M::Str("w".into())))),
        ("some-int", M::Some(Box::new(M::U32(3)))),
        ("some-str", M::Some(Box::new(M::Str("s".into())))),
        ("none", M::None),
        ("unit", M::Unit),
        ("unit-struct", M::UnitStruct("Unit")),
        ("bytes", M::Bytes(vec![1, 2])),
        ("seq", M::Seq(vec![M::U8(1)])),
        ("empty-seq", M::Seq(vec![])),
        ("tuple", M::Tuple(vec![M::U8(1), M::Str("t".into())])),
        ("tuple-struct", M::TupleStruct("Alpha", vec![M::U8(1), M::U8(2)])),
        ("map", M::Map(vec![(M::Str("a".into()), M::U8(1))])),
        ("empty-map", M::Map(vec![])),
        ("struct", M::Struct("Point", vec![("a", M::U8(1))])),
        ("newtype-variant", M::NewtypeVariant("Shape", 1, "Second", Box::new(M::U8(1)))),
        ("tuple-variant", M::TupleVariant("Shape", 1, "Second", vec![M::U8(1), M::U8(2)])),
        ("struct-variant", M::StructVariant("Shape", 1, "Second", vec![("a", M::U8(1))])),
    ];
    let proto = emit_otlp::new().logs(emit_otlp::logs_http_proto("http://127.0.0.1:1")).spawn();
    let json = emit_otlp::new().logs(emit_otlp::logs_http_json("http://127.0.0.1:1")).spawn();
    let mproto = emit_otlp::new().metrics(emit_otlp::metrics_http_proto("http://127.0.0.1:1")).spawn();
    for (name, k) in &keys {
        let m = M::Map(vec![(k.clone(), M::U8(7)), (M::Str("zz".into()), M::Struct("Point", vec![("a", M::U8(1))]))]);
        let m1 = M::Map(vec![(k.clone(), M::U8(7))]);
        for (cap, single) in [("sval", false), ("serde", false), ("sval", true)] {
            let mm = if single { &m1 } else { &m };
            let v = if cap == "sval" { emit::Value::from_sval(mm) } else { emit::Value::from_serde(mm) };
            let props = [("m", v.by_ref()), ("after", emit::Value::from(1))];
            let evt = emit::Event::new(emit::path!("probe"), emit::Template::literal("probe"), emit::Empty, &props[..]);
            let p = catch(|| proto.emit(&evt)).err();
            let j = catch(|| json.emit(&evt)).err();
            let mprops = [("m", v.by_ref()), ("evt_kind", emit::Value::from("metric")), ("metric_name", emit::Value::from("n")), ("metric_agg", emit::Value::from("count")), ("metric_value", emit::Value::from(1))];
            let mevt = emit::Event::new(emit::path!("probe"), emit::Template::literal("probe"), emit::Empty, &mprops[..]);
            let mp = catch(|| mproto.emit(&mevt)).err();
            // file
            let sub = format!("{}/{}-{}-{}", dir, name, cap, single);
            std::fs::create_dir_all(&sub).unwrap();
            let fs = emit_file::set(format!("{}/log.txt", sub)).spawn();
            let f = catch(|| fs.emit(&evt)).err();
            fs.blocking_flush(Duration::from_secs(5));
            drop(fs);
            let mut lines = Vec::new();
            for e in std::fs::read_dir(&sub).unwrap() {
                let text = std::fs::read_to_string(e.unwrap().path()).unwrap();
                for l in text.lines() {
                    lines.push(l.to_string());
                }
            }
            let file_state = if f.is_some() {
                "PANIC".to_string()
            } else if lines.is_empty() {
                "NO-LINE".to_string()
            } else {
                match parse_json(&lines[0]) {
                    Ok(t) => format!("ok m={}", t.get("m").map(|m| m.short()).unwrap_or("ABSENT".into())),
                    Err(e) => format!("MALFORMED ({}) {}", e, lines[0]),
                }
            };
            println!(
                "{:20} {:5} single={:5} otlp-proto={:6} otlp-json={:6} otlp-metric={:6} file={}",
                name,
                cap,
                single,
                if p.is_some() { "PANIC" } else { "ok" },
                if j.is_some() { "PANIC" } else { "ok" },
                if mp.is_some() { "PANIC" } else { "ok" },
                file_state
            );
            if let Some(p) = p {
                println!("      panic: {}", p);
            }
        }
    }
    std::fs::remove_dir_all(&dir).unwrap();
}
