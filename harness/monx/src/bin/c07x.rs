/*!
C07 (file emitter, end to end) — and the end-to-end lane of C10.

The whole pipeline `emit_file::set_with_writer(..).verif_spawn_with(fakefs, clock, ids)` is driven
by seeded scenarios: rounds of emits (main thread, optionally a second emitter thread running
concurrently) followed by `blocking_flush`; in a third of the rounds the filesystem's `write` is
gated so that the flush is requested while the worker is parked in the middle of the batch (queue
empty, batch in flight) and the gate is opened afterwards. Filesystem faults (errors, short writes, a panic
inside the filesystem call) are planned at seeded op indices.

Oracle at the instant `blocking_flush` returns true (C07): every record whose `emit` call had
returned before the flush was requested (global stamps) and whose formatting succeeded is a
complete record inside the *synced* bytes of the fake filesystem — unless the metrics show that a
batch ended in a permanent failure (failed without a retry, panicked) or an overflow truncation.
Record grammar (C10): every separator-delimited piece of every file is, byte for byte, the record of
one successfully formatted event, empty, or a truncated record at a logged cut. A third of the
scenarios use the default JSON writer, the rest the harness's own writer; in three quarters of the
scenarios every 2nd / 3rd / 7th event of every thread FAILS TO FORMAT PART-WAY (custom writer: bytes
already pushed into the `FileBuf`, even a whole record + separator, then `Err`; JSON writer: a
template hole or property whose `Display` / `Debug` writes some text and then returns `fmt::Error`,
or fails at once) and is followed by ordinary events of the same thread: such an event must be
counted by `event_format_failed` and none of its bytes may reach a file. `--prop C10` only changes the property label of the report.
*/

#[path = "../shared/fakefs.rs"]
mod fakefs;
#[path = "../shared/filee2e.rs"]
mod filee2e;

use std::{
    sync::{
        atomic::{AtomicBool, AtomicU64, Ordering},
        Arc, Mutex,
    },
    time::Duration,
};

use emit::Emitter as _;
use fakefs::*;
use filee2e::*;
use vcommon::rec::FakeClock;
use vcommon::*;

struct Scn {
    idx: u64,
    sep: &'static [u8],
    append_sep: bool,
    fail_mod: u64,
    reuse: bool,
    max_size: usize,
    second_emitter: bool,
    /// default JSON writer (`emit_file::set`) instead of the harness's own writer
    json: bool,
    rounds: Vec<(u64, u64, bool)>, // (events, clock advance ms, flush requested while the worker is parked inside write)
    faults: Vec<Fault>,
}

fn gen(seed: u64, idx: u64) -> Scn {
    let mut g = Rng::stream(seed, &[7, 70, idx]);
    let json = idx % 3 == 2;
    let sep: &'static [u8] = if json || g.bool() { b"\n" } else { b"\x1e" };
    let n_rounds = 2 + g.usize(8);
    let rounds = (0..n_rounds)
        .map(|_| {
            let hi = if g.chance(1, 4) { 300 } else { 30 };
            (1 + g.below(hi), *g.pick(&[0u64, 0, 3, 900, 61_000]), g.chance(1, 3))
        })
        .collect();
    let mut faults = Vec::new();
    if g.chance(1, 2) {
        for _ in 0..1 + g.usize(3) {
            let kind = *g.pick(&[
                FaultKind::Error,
                FaultKind::Error,
                FaultKind::ShortOne,
                FaultKind::ShortMid,
                FaultKind::ShortMost,
                FaultKind::ShortOk,
                FaultKind::Crash,
            ]);
            faults.push(Fault { at: g.usize(120), kind });
        }
    }
    Scn {
        idx,
        sep,
        append_sep: g.bool(),
        // every fail_mod-th event of every thread fails to format part-way and is followed by ordinary ones
        fail_mod: *g.pick(&[0u64, 2, 3, 7]),
        json,
        reuse: g.bool(),
        max_size: *g.pick(&[200usize, 5_000, 1 << 30]),
        second_emitter: g.chance(1, 3),
        rounds,
        faults,
    }
}

impl Scn {
    fn to_json(&self) -> Json {
        json!({"scenario": self.idx, "separator": self.sep, "writer_appends_separator": self.append_sep, "format_fails_every": self.fail_mod,
               "reuse_files": self.reuse, "max_file_size_bytes": self.max_size, "second_emitter_thread": self.second_emitter, "default_json_writer": self.json,
               "rounds_events_clockms_gated": self.rounds, "faults": self.faults.iter().map(|f| json!([f.at, f.kind.name()])).collect::<Vec<_>>()})
    }
}

/// 0 = ordinary event; otherwise the way the formatting of event `vid` fails (see `filee2e::FAIL_KINDS`).
fn fail_kind(fail_mod: u64, vid: u64) -> u64 {
    if fail_mod > 0 && vid % fail_mod == fail_mod - 1 {
        1 + (vid / fail_mod) % FAIL_KINDS
    } else {
        0
    }
}

struct Snap {
    requested: u64,
    ok: bool,
    synced: std::collections::HashSet<u64>,
    anywhere: std::collections::HashSet<u64>,
    bad: Vec<(String, usize, usize, String)>,
    metrics: std::collections::BTreeMap<String, u64>,
}

/// Request a flush and capture the filesystem at (or slightly after) the instant it returned.
fn flush_and_snapshot(files: &emit_file::FileSet, fs: &FakeFs, sep: u8, worker_may_be_writing: bool, codec: Codec) -> Snap {
    let requested = stamp();
    let ok = files.blocking_flush(Duration::from_secs(60));
    let st = fs.lock();
    let synced = synced_vids_c(&st, sep, codec);
    let bad = bad_pieces_c(&st, sep, worker_may_be_writing, codec);
    let mut anywhere = std::collections::HashSet::new();
    for node in st.files.values() {
        let c = node.content();
        let mut b = 0;
        for (i, ch) in c.iter().enumerate() {
            if *ch == sep {
                if let Some(v) = codec.parse(&c[b..i]) {
                    anywhere.insert(v);
                }
                b = i + 1;
            }
        }
    }
    drop(st);
    Snap { requested, ok, synced, anywhere, bad, metrics: sample_metrics(files) }
}

fn run(r: &mut Report, seed: u64, idx: u64) {
    let s = gen(seed, idx);
    r.eval();
    let fs = FakeFs::new(idx + 5);
    fs.set_sep(s.sep[0]);
    fs.set_plan(s.faults.clone());
    let clock = FakeClock::new(1_709_251_100_000_000_000 + idx * 1_000_000);
    let ids = IdRng::new(idx + 3, IdMode::Random);
    let fmt_fail = Arc::new(AtomicU64::new(0));
    let codec = if s.json { Codec::Json } else { Codec::Custom };
    let builder = if s.json {
        emit_file::set("logs/e2e.log")
    } else {
        emit_file::set_with_writer("logs/e2e.log", writer(s.append_sep, s.sep, 0, fmt_fail.clone()), s.sep)
    };
    let files = match builder
        .roll_by_minute()
        .max_files(100_000)
        .max_file_size_bytes(s.max_size)
        .reuse_files(s.reuse)
        .verif_spawn_with(fs.clone(), clock.clone(), ids)
    {
        Ok(f) => f,
        Err(e) => {
            r.inconclusive(format!("could not spawn the file set: {}", e));
            return;
        }
    };
    let case = || json!({"seed": seed, "scenario": idx, "detail": s.to_json()});

    // (vid, stamp taken after emit returned)
    let emitted: Mutex<Vec<(u64, u64)>> = Mutex::new(Vec::new());
    let stop = AtomicBool::new(false);
    // events whose formatting was scripted to fail
    let failing = AtomicU64::new(0);
    let mut next_vid = 0u64;
    let mut flushes_true = 0u64;
    let mut gated_flushes = 0u64;
    let mut checked = 0u64;
    let mut excused = 0u64;
    std::thread::scope(|scope| {
        if s.second_emitter {
            let (files, emitted, stop, failing) = (&files, &emitted, &stop, &failing);
            let fail_mod = s.fail_mod;
            scope.spawn(move || {
                let mut vid = 1_000_000u64;
                while !stop.load(Ordering::SeqCst) {
                    let fk = fail_kind(fail_mod, vid);
                    emit_e2e(files, codec, vid, (vid % 40) as usize, fk);
                    let st = stamp();
                    if fk == 0 {
                        emitted.lock().unwrap().push((vid, st));
                    } else {
                        failing.fetch_add(1, Ordering::SeqCst);
                    }
                    vid += 1;
                    // slow enough that the 10 000-slot channel does not overflow (that would excuse everything)
                    if vid % 8 == 0 {
                        std::thread::sleep(Duration::from_micros(200));
                    }
                    if vid > 1_004_000 {
                        break;
                    }
                }
            });
        }
        for (n, adv, gated) in &s.rounds {
            clock.advance(adv * 1_000_000);
            if *gated {
                // the worker will park inside `write` with this round's batch in flight
                fs.close_gate();
            }
            for _ in 0..*n {
                let len = ((next_vid * 37) % 211) as usize;
                let fk = fail_kind(s.fail_mod, next_vid);
                emit_e2e(&files, codec, next_vid, len, fk);
                let st = stamp();
                if fk == 0 {
                    emitted.lock().unwrap().push((next_vid, st));
                } else {
                    failing.fetch_add(1, Ordering::SeqCst);
                }
                next_vid += 1;
            }
            let snap = if *gated {
                // shape the scenario (no verdict depends on these waits): let the worker take the batch and
                // park, request the flush from another thread, then release the worker
                for _ in 0..5_000 {
                    if fs.gate_waiting() > 0 {
                        break;
                    }
                    std::thread::sleep(Duration::from_micros(100));
                }
                gated_flushes += (fs.gate_waiting() > 0) as u64;
                let (files, fs2) = (&files, &fs);
                let (sep, second) = (s.sep[0], s.second_emitter);
                let h = scope.spawn(move || flush_and_snapshot(files, fs2, sep, second, codec));
                std::thread::sleep(Duration::from_millis(2));
                fs.open_gate();
                h.join().expect("flusher")
            } else {
                flush_and_snapshot(&files, &fs, s.sep[0], s.second_emitter, codec)
            };
            if !snap.ok {
                r.inconclusive(format!("scenario {}: blocking_flush timed out after 60 s", idx));
                break;
            }
            flushes_true += 1;
            let Snap { requested, synced, anywhere: in_unsynced, bad, metrics: m, .. } = snap;
            let permanent = metric(&m, "file_queue_batch_failed").saturating_sub(metric(&m, "file_queue_batch_retry"))
                + metric(&m, "file_queue_batch_panicked")
                + metric(&m, "file_queue_full_truncated");
            let required: Vec<u64> = emitted
                .lock()
                .unwrap()
                .iter()
                .filter(|(_, st)| *st < requested)
                .map(|(v, _)| *v)
                .collect();
            let mut missing: Vec<u64> = required.iter().copied().filter(|v| !synced.contains(v)).collect();
            checked += required.len() as u64;
            if !missing.is_empty() {
                if permanent > 0 {
                    excused += missing.len() as u64;
                } else {
                    missing.sort();
                    let class = if missing.iter().any(|v| in_unsynced.contains(v)) { "only-in-unsynced-bytes" } else { "in-no-file" };
                    r.violation(
                        &format!("C07:files-e2e:flush-true-but-record-not-synced:{}", class),
                        &format!(
                            "blocking_flush returned true but {} records emitted before it (first vid {}) are not complete records in synced content; metrics show no permanent batch failure, panic or truncation ({:?})",
                            missing.len(),
                            missing[0],
                            m
                        ),
                        case(),
                    );
                }
            }
            if let Some((path, a, b, text)) = bad.first() {
                // what kind of bad piece is it (signature from the shape, not from the data)
                let heads = if s.json { text.matches("{\"mdl\"").count() } else { 0 };
                let sig = if s.json && heads <= 1 && text.contains("\"bad\":") {
                    // one event, cut short inside a property value that failed to format, yet written
                    "C10:e2e:partially-formatted-event-written:default-json-writer:property-value-fails".to_string()
                } else {
                    format!(
                        "C10:e2e:record-mangled:{}{}",
                        if s.json { "default-json-writer".to_string() } else { format!("writer-{}-separator", if s.append_sep { "appends" } else { "omits" }) },
                        if s.fail_mod > 0 { ":with-events-that-fail-to-format" } else { "" }
                    )
                };
                r.violation(
                    &sig,
                    &format!("file {} piece [{}, {}) {:?} is neither (byte for byte) the record of a successfully formatted event, empty, nor a truncated record at a logged cut ({} such pieces)", path, a, b, text, bad.len()),
                    case(),
                );
                break;
            }
        }
        stop.store(true, Ordering::SeqCst);
    });
    // every scripted formatting failure is counted, and only those
    let m = sample_metrics(&files);
    let (want, got) = (failing.load(Ordering::SeqCst), metric(&m, "event_format_failed"));
    r.observe("events-whose-formatting-failed-part-way", want);
    if want != got {
        r.violation(
            &format!("C10:e2e:event_format_failed-miscounts:{}", if s.json { "default-json-writer" } else { "custom-writer" }),
            &format!("{} events were scripted to fail while formatting, the event_format_failed metric says {}", want, got),
            case(),
        );
    }
    let ops = fs.op_count() as u64;
    let hits = fs.lock().hits.len() as u64;
    r.observe("flushes-returned-true", flushes_true);
    r.observe("flushes-requested-while-worker-parked-mid-batch", gated_flushes);
    r.observe("records-required-synced-at-flush", checked);
    r.observe("records-excused-by-permanent-failure-metrics", excused);
    r.observe("filesystem-ops", ops);
    r.observe("faults-hit", hits);
    r.observe("events-emitted", emitted.lock().unwrap().len() as u64);
    r.observe("format-failures", fmt_fail.load(Ordering::SeqCst));
    if flushes_true >= 2 && (hits > 0 || s.second_emitter || s.fail_mod > 0) {
        r.nontrivial(&idx);
    }
    if idx < 2 {
        let j = s.to_json();
        r.sample(move || j);
    }
    drop(files);
}

fn main() {
    let args = Args::parse();
    let prop = args.get("prop").unwrap_or("C07").to_string();
    let mut r = Report::new(
        &prop,
        &args,
        "one evaluation = one end-to-end scenario (rounds of emits + blocking_flush through the real FileSet pipeline over the fault-injecting filesystem); \
         non-trivial = distinct scenarios with at least two successful flushes and a filesystem fault that was hit, a second emitter thread running concurrently, or events whose formatting fails part-way interleaved with ordinary ones",
    );
    emit_batcher::verif::set_delay_divisor(2000);
    let seed = args.seed;
    if let Some(path) = &args.replay {
        let case = load_replay(path);
        let idx = case.get("scenario").and_then(|v| v.as_u64()).unwrap_or(0);
        let cseed = case.get("seed").and_then(|v| v.as_u64()).unwrap_or(seed);
        run(&mut r, cseed, idx);
        run(&mut r, cseed, idx);
        r.nontrivial(&"replay");
        r.nontrivial(&"replay2");
        std::process::exit(r.finish());
    }
    let n = args.get_u64("scenarios", args.n(400, 20_000));
    par_cases(&mut r, &args, n, |i, r| run(r, seed, i));
    std::process::exit(r.finish());
}
