/*!
Real-filesystem driver for the strace lane (C07 / C10 / C11): uses the real
`emit_file::set(dir/app.txt)` (StdFilesystem, system clock, real rng), emits rounds of events,
flushes, and after every successful flush writes a `FLUSHED n` line to stdout (one `write`
syscall, so `bin/c10-strace` can order it against the log-file syscalls).

    c10real --dir <existing dir> | --template <file set template> [--rounds N] [--events N] [--reuse 0|1] [--max-files N] [--max-size BYTES] [--flush-timeout-ms MS]
*/

use std::{io::Write, time::Duration};

use emit::Emitter as _;
use vcommon::Args;

fn main() {
    let args = Args::parse();
    let dir = args.get("dir").unwrap_or(".").to_string();
    let rounds = args.get_u64("rounds", 8);
    let events = args.get_u64("events", 20);
    let reuse = args.get_u64("reuse", 0) == 1;
    let max_files = args.get_u64("max-files", 3) as usize;
    let max_size = args.get_u64("max-size", 1500) as usize;
    let flush_timeout = Duration::from_millis(args.get_u64("flush-timeout-ms", 30_000));

    // `--template` overrides the whole file-set template (probe for templates without a directory part)
    let template = args.get("template").map(|t| t.to_string()).unwrap_or_else(|| format!("{}/app.txt", dir));
    let files = emit_file::set(template)
        .roll_by_minute()
        .max_files(max_files)
        .max_file_size_bytes(max_size)
        .reuse_files(reuse)
        .spawn();

    let out = std::io::stdout();
    let mut vid = 0u64;
    for round in 0..rounds {
        for _ in 0..events {
            files.emit(emit::Event::new(
                emit::mdl!(),
                emit::Template::literal("strace lane record"),
                emit::Empty,
                [("vid", vid), ("round", round)],
            ));
            vid += 1;
        }
        let ok = files.blocking_flush(flush_timeout);
        let mut o = out.lock();
        if ok {
            let _ = o.write_all(format!("FLUSHED {}\n", round).as_bytes());
        } else {
            let _ = o.write_all(format!("FLUSH-TIMEOUT {}\n", round).as_bytes());
        }
        let _ = o.flush();
    }
    drop(files);
}
