/*!
C09 over the real `Otlp` emitter (its own `emit_batcher::Channel` implementation: per-signal
queue of encoded requests with its own len / clear / push bookkeeping, capacity 10 000 events).

The destination is stalled: the scripted collector accepts the first request of the signal and
holds it, so the worker never takes another batch while the scenario emits. After **every** emit
the emitter's own metrics are read through `metric_source().sample_metrics`:

* `otlp_<signal>_queue_length <= 10 000` at every sample;
* the queue fills one by one up to the capacity; the emit that meets the full queue discards it:
  `queue_full_truncated` rises by exactly one for that emit (and for no other emit), and the
  pending count restarts from the new item: 1, then 2, 3, … for the events that follow;
* several overflow cycles, each signal, JSON and protobuf (HTTP) and protobuf over gRPC;
* other configured signals stay untouched;
* once the collector lets go, the next request carries exactly the events emitted since the last
  overflow (the kept item and what followed it).

The exact expectations assume the worker really stayed stalled; that is confirmed at the end from
the collector's log (still exactly one request seen). If the worker moved, only the bound
(`<= capacity`) is judged and the scenario is reported as inconclusive.
*/

#[path = "../shared/collector.rs"]
mod collector;

use std::{
    collections::{BTreeMap, BTreeSet},
    time::Duration,
};

use collector::*;
use emit::Emitter as _;
use vcommon::*;

const CAPACITY: u64 = 10_000;

fn all_metrics(otlp: &emit_otlp::Otlp) -> BTreeMap<String, u64> {
    use emit::metric::Source as _;
    let out = std::cell::RefCell::new(BTreeMap::new());
    otlp.metric_source().sample_metrics(emit::metric::sampler::from_fn(|m| {
        if let Some(v) = m.value().by_ref().cast::<u64>().or_else(|| m.value().to_string().parse().ok()) {
            *out.borrow_mut().entry(m.name().to_string()).or_insert(0) += v;
        }
    }));
    out.into_inner()
}

fn emit_ev(otlp: &emit_otlp::Otlp, vid: u64, signal: Signal) {
    use emit::Value;
    let name = format!("v{}", vid);
    let tpl = emit::Template::literal_ref(&name);
    let mdl = emit::Path::new_raw("verif::c09");
    let kind_span = emit::Kind::Span;
    let kind_metric = emit::Kind::Metric;
    match signal {
        Signal::Logs => {
            let props = [("vid", Value::from(vid as i64))];
            otlp.emit(emit::Event::new(mdl, tpl, emit::Extent::point(ts(vid % 1000, 1)), &props[..]));
        }
        Signal::Traces => {
            let props = [("evt_kind", Value::from_any(&kind_span)), ("vid", Value::from(vid as i64))];
            otlp.emit(emit::Event::new(mdl, tpl, emit::Extent::range(ts(vid % 1000, 1)..ts(vid % 1000 + 1, 2)), &props[..]));
        }
        Signal::Metrics => {
            let props = [
                ("evt_kind", Value::from_any(&kind_metric)),
                ("vid", Value::from(vid as i64)),
                ("metric_agg", Value::from("count")),
                ("metric_value", Value::from(1)),
            ];
            otlp.emit(emit::Event::new(mdl, tpl, emit::Extent::point(ts(vid % 1000, 1)), &props[..]));
        }
    }
}

struct Cand {
    sig: String,
    what: String,
    /// still valid when the worker turned out to have moved
    bound_only: bool,
}

fn scenario(r: &mut Report, seed: u64, case: u64, cycles: u64) {
    r.eval();
    let mut g = Rng::stream(seed, &[9, 20, case]);
    let signal = Signal::ALL[(case % 3) as usize];
    let transport = Transport::ALL[(case / 3 % 3) as usize];
    let subset: u8 = if case / 9 % 2 == 0 { signal.bit() } else { 7 };
    let gzip = case / 18 % 2 == 1;
    let sname = signal.name();
    let case_json = json!({
        "section": "otlp-overflow", "seed": seed, "case": case, "signal": sname, "transport": transport.name(),
        "signals_configured": subset_name(subset), "gzip": gzip, "cycles": cycles,
    });
    let cfgs: Vec<EndpointCfg> = Signal::ALL
        .into_iter()
        .filter(|s| subset & s.bit() != 0)
        .map(|s| EndpointCfg { signal: s, wire: transport.wire(), listen: true, script: vec![] })
        .collect();
    let col = Collector::start(cfgs);
    // a destination that accepts and does not answer (until the monitor lets go)
    col.set_repeat(signal, Some(Decision::HoldAck(600_000)));
    let otlp = build_otlp(&col, transport, gzip, subset);
    let q = format!("otlp_{}_queue_length", sname);
    let t = format!("otlp_{}_queue_full_truncated", sname);
    let m0 = all_metrics(&otlp);
    if !m0.contains_key(&q) || !m0.contains_key(&t) {
        r.inconclusive(format!("metrics {} / {} not found among {:?}", q, t, m0.keys().collect::<Vec<_>>()));
        col.shutdown();
        return;
    }

    // 1. park the worker on one held request
    let mut vid = case * 10_000_000 + 1;
    emit_ev(&otlp, vid, signal);
    vid += 1;
    let parked = col.wait_until(Duration::from_secs(30), |recs| recs.iter().any(|rec| rec.endpoint == signal));
    let start = std::time::Instant::now();
    let mut drained = false;
    while start.elapsed() < Duration::from_secs(10) {
        if all_metrics(&otlp)[&q] == 0 {
            drained = true;
            break;
        }
        std::thread::sleep(Duration::from_millis(1));
    }
    if !parked || !drained {
        r.inconclusive(format!("otlp {}: the worker did not get parked on a held request", sname));
        col.shutdown();
        return;
    }

    // 2. fill / overflow / continue, reading the metrics after every emit
    let mut cands: Vec<Cand> = Vec::new();
    let mut pending: u64 = 0; // model
    let mut trunc: u64 = m0[&t];
    let mut kept: Vec<u64> = Vec::new(); // vids pending in the model
    let mut samples = 0u64;
    let mut overflows = 0u64;
    let others: Vec<String> = Signal::ALL
        .into_iter()
        .filter(|s| *s != signal && subset & s.bit() != 0)
        .map(|s| format!("otlp_{}_queue_length", s.name()))
        .collect();
    // returns the model's pending count after the emit
    let mut step = |otlp: &emit_otlp::Otlp, vid: &mut u64, cands: &mut Vec<Cand>, phase: &str| -> u64 {
        let was_full = pending >= CAPACITY;
        emit_ev(otlp, *vid, signal);
        if was_full {
            kept.clear();
            pending = 0;
            trunc += 1;
            overflows += 1;
        }
        kept.push(*vid);
        pending += 1;
        *vid += 1;
        let m = all_metrics(otlp);
        samples += 1;
        let (ql, tr) = (m[&q], m[&t]);
        if cands.len() < 6 {
            if ql > CAPACITY {
                cands.push(Cand {
                    sig: format!("C09:otlp:pending-exceeds-capacity:{}", sname),
                    what: format!("{} = {} after an emit ({}), capacity {}", q, ql, phase, CAPACITY),
                    bound_only: true,
                });
            }
            if tr != trunc {
                cands.push(Cand {
                    sig: format!("C09:otlp:truncation-counter:{}:{}", sname, if was_full { "emit-that-overflowed" } else { "emit-that-did-not-overflow" }),
                    what: format!(
                        "{} = {} after an emit that {} (model: {} overflows so far, {} pending)",
                        t,
                        tr,
                        if was_full { "met the full queue" } else { "did not meet a full queue" },
                        trunc,
                        pending
                    ),
                    bound_only: false,
                });
                trunc = tr; // resync so one defect is reported once
            }
            if ql != pending {
                cands.push(Cand {
                    sig: format!(
                        "C09:otlp:{}:{}",
                        if was_full { "pending-after-overflow-is-not-the-new-item" } else if phase == "after-overflow" { "pending-does-not-count-up-after-overflow" } else { "pending-count" },
                        sname
                    ),
                    what: format!("{} = {} after an emit ({}), the model says {}", q, ql, phase, pending),
                    bound_only: false,
                });
                pending = ql;
            }
            for o in &others {
                if m[o] != 0 {
                    cands.push(Cand {
                        sig: format!("C09:otlp:other-signal-queue-touched:{}", sname),
                        what: format!("{} = {} although only {} events were emitted", o, m[o], sname),
                        bound_only: false,
                    });
                }
            }
        }
        pending
    };
    let mut now_pending = 0u64;
    for _cycle in 0..cycles {
        while now_pending < CAPACITY {
            now_pending = step(&otlp, &mut vid, &mut cands, "filling");
        }
        // the emit that meets the full queue
        now_pending = step(&otlp, &mut vid, &mut cands, "overflow");
        // small numbers of events before anything is taken
        for _ in 0..g.range(1, 6) {
            now_pending = step(&otlp, &mut vid, &mut cands, "after-overflow");
        }
    }
    drop(step);
    r.observe("otlp:metric-samples-after-an-emit", samples);
    r.observe("otlp:overflows", overflows);
    r.observe(&format!("otlp:scenarios:{}:{}", sname, transport.name()), 1);

    // 3. was the worker really stalled all along?
    let seen = col.records().iter().filter(|rec| rec.endpoint == signal).count();
    let stalled = seen == 1;
    for c in cands {
        if stalled || c.bound_only {
            r.violation(&c.sig, &c.what, case_json.clone());
        }
    }
    if !stalled {
        r.inconclusive(format!("otlp {}: the collector saw {} requests while it was supposed to hold the first one; exact expectations skipped", sname, seen));
        col.shutdown();
        return;
    }
    r.nontrivial(&("otlp", signal, transport, subset, gzip));

    // 4. let go: the next request carries exactly what the model kept
    col.set_repeat(signal, None);
    col.release_gate();
    let flushed = otlp.blocking_flush(Duration::from_secs(30));
    col.settle();
    if !flushed {
        r.inconclusive(format!("otlp {}: flush after the release returned false; delivery not judged", sname));
    } else {
        let mut delivered: BTreeSet<u64> = BTreeSet::new();
        let mut decode_failed = false;
        for rec in col.records().iter().filter(|rec| rec.endpoint == signal).skip(1) {
            match rec.items() {
                Ok(items) => delivered.extend(items.iter().filter_map(|i| i.vid())),
                Err(_) => decode_failed = true,
            }
        }
        let want: BTreeSet<u64> = kept.iter().copied().collect();
        if decode_failed {
            r.inconclusive(format!("otlp {}: a request could not be decoded; delivery not judged", sname));
        } else if delivered != want {
            let missing: Vec<u64> = want.difference(&delivered).copied().take(5).collect();
            let extra: Vec<u64> = delivered.difference(&want).copied().take(5).collect();
            r.violation(
                &format!("C09:otlp:delivered-after-release:{}", sname),
                &format!(
                    "after the release the collector received {} events, expected exactly the {} emitted since the last overflow (missing e.g. {:?}, unexpected e.g. {:?})",
                    delivered.len(),
                    want.len(),
                    missing,
                    extra
                ),
                case_json.clone(),
            );
        } else {
            r.observe("otlp:kept-events-delivered-after-release", want.len() as u64);
        }
    }
    if r.wants_sample() {
        let c = case_json.clone();
        let (s, o, k) = (samples, overflows, kept.len());
        r.sample(move || json!({"case": c, "metric_samples": s, "overflows": o, "kept_after_last_overflow": k}));
    }
    drop(otlp);
    col.shutdown();
}

fn main() {
    let args = Args::parse();
    let seed = args.seed;
    emit_batcher::verif::set_delay_divisor(100);
    let mut r = Report::new(
        "C09",
        &args,
        "OTLP end-to-end: one evaluation = one emitter against a stalled collector, filled to capacity and overflowed several times with the emitter's metrics read after every emit; \
         non-trivial = distinct (signal, transport/encoding, signals configured, gzip)",
    );
    if let Some(path) = &args.replay {
        let case = load_replay(path);
        let c = case.get("case").and_then(|v| v.as_u64()).unwrap_or(0);
        let s = case.get("seed").and_then(|v| v.as_u64()).unwrap_or(seed);
        let cycles = case.get("cycles").and_then(|v| v.as_u64()).unwrap_or(3);
        scenario(&mut r, s, c, cycles);
        scenario(&mut r, s, c + 9, cycles);
        std::process::exit(r.finish());
    }
    // quick: every signal x {http-json, http-proto, grpc}; thorough: also all-signals-configured and gzip
    let n = args.n(9, 36);
    let cycles = if args.thorough() { 5 } else { 3 };
    let offset = seed % 4 * 9; // different seeds start at different (subset, gzip) blocks
    par_cases(&mut r, &args, n, |i, r| scenario(r, seed, i + offset, cycles));
    std::process::exit(r.finish());
}
