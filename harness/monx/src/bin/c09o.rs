/*!
C09 over the real `Otlp` emitter (its own `emit_batcher::Channel` implementation: per-signal
queue of encoded requests with its own len / clear / push bookkeeping, capacity 10 000 events).

The destination is stalled: the scripted collector accepts the first request of the signal and
holds it, so the worker never takes another batch while the scenario emits. After **every** emit
the emitter's own metrics are read through `metric_source().sample_metrics`:

* `otlp_<signal>_queue_length <= 10 000` at every sample;
* the queue fills one by one up to the capacity; the emit that meets the full queue discards it:
  `queue_full_truncated` rises by exactly one for that emit (and for no other emit), and the
  pending count restarts from the new item: 1, then 2, 3, … for the events that follow;
* several overflow cycles, each signal, JSON and protobuf (HTTP) and protobuf over gRPC;
* other configured signals stay untouched;
* once the collector lets go, the next request carries exactly the events emitted since the last
  overflow (the kept item and what followed it).

The exact expectations assume the worker really stayed stalled; that is confirmed at the end from
the collector's log (still exactly one request seen). If the worker moved, only the bound
(`<= capacity`) is judged and the scenario is reported as inconclusive.

Section `growth` (runs ALONE in the process, before the parallel scenarios, because the counting
allocator is process-wide): against the same stalled collector (request timeout raised to 10 min
so the worker really stays inside its first request), 24 (thorough: 40) blocks of 10 000 events
carrying a ~1 KiB property are emitted and the live heap is read after every block. Judged is
GROWTH, not an absolute number: what a counted truncation discards must be freed, so after the
first truncation the live heap must not keep rising with the number of emitted events. Alarm iff at
some block k >= 8 the heap retained since the start exceeds 3 x capacity x event size AND it rose by
more than a quarter of an event per emitted event between block k/2 and block k (event size = the larger of
the nominal 1 KiB and what the first, truncation-free block retained per event). Nothing is recorded
per event in the measured phase; the metrics are read once per block, after the heap sample.
*/

#[path = "../shared/collector.rs"]
mod collector;
#[path = "../shared/countalloc.rs"]
mod countalloc;

use std::{
    collections::{BTreeMap, BTreeSet},
    time::Duration,
};

use collector::*;
use emit::Emitter as _;
use vcommon::*;

const CAPACITY: u64 = 10_000;

#[global_allocator]
static ALLOC: countalloc::Counting = countalloc::Counting;

fn all_metrics(otlp: &emit_otlp::Otlp) -> BTreeMap<String, u64> {
    use emit::metric::Source as _;
    let out = std::cell::RefCell::new(BTreeMap::new());
    otlp.metric_source().sample_metrics(emit::metric::sampler::from_fn(|m| {
        if let Some(v) = m.value().by_ref().cast::<u64>().or_else(|| m.value().to_string().parse().ok()) {
            *out.borrow_mut().entry(m.name().to_string()).or_insert(0) += v;
        }
    }));
    out.into_inner()
}

fn emit_ev(otlp: &emit_otlp::Otlp, vid: u64, signal: Signal) {
    use emit::Value;
    let name = format!("v{}", vid);
    let tpl = emit::Template::literal_ref(&name);
    let mdl = emit::Path::new_raw("verif::c09");
    let kind_span = emit::Kind::Span;
    let kind_metric = emit::Kind::Metric;
    match signal {
        Signal::Logs => {
            let props = [("vid", Value::from(vid as i64))];
            otlp.emit(emit::Event::new(mdl, tpl, emit::Extent::point(ts(vid % 1000, 1)), &props[..]));
        }
        Signal::Traces => {
            let props = [("evt_kind", Value::from_any(&kind_span)), ("vid", Value::from(vid as i64))];
            otlp.emit(emit::Event::new(mdl, tpl, emit::Extent::range(ts(vid % 1000, 1)..ts(vid % 1000 + 1, 2)), &props[..]));
        }
        Signal::Metrics => {
            let props = [
                ("evt_kind", Value::from_any(&kind_metric)),
                ("vid", Value::from(vid as i64)),
                ("metric_agg", Value::from("count")),
                ("metric_value", Value::from(1)),
            ];
            otlp.emit(emit::Event::new(mdl, tpl, emit::Extent::point(ts(vid % 1000, 1)), &props[..]));
        }
    }
}

// ---------------------------------------------------------------------------
// section `growth`: what a truncation discards must be freed
// ---------------------------------------------------------------------------

/// An event of the signal with a `pad` property of `pad.len()` bytes (no per-event allocation
/// besides the name; the pad is borrowed).
fn emit_big(otlp: &emit_otlp::Otlp, vid: u64, signal: Signal, pad: &str) {
    use emit::Value;
    let mut name_buf = [0u8; 24];
    let name = {
        use std::io::Write as _;
        let mut cur = std::io::Cursor::new(&mut name_buf[..]);
        let _ = write!(cur, "v{}", vid);
        let n = cur.position() as usize;
        std::str::from_utf8(&name_buf[..n]).unwrap_or("v")
    };
    let tpl = emit::Template::literal_ref(name);
    let mdl = emit::Path::new_raw("verif::c09");
    let kind_span = emit::Kind::Span;
    let kind_metric = emit::Kind::Metric;
    match signal {
        Signal::Logs => {
            let props = [("pad", Value::from(pad)), ("vid", Value::from(vid as i64))];
            otlp.emit(emit::Event::new(mdl, tpl, emit::Extent::point(ts(vid % 1000, 1)), &props[..]));
        }
        Signal::Traces => {
            let props = [("evt_kind", Value::from_any(&kind_span)), ("pad", Value::from(pad)), ("vid", Value::from(vid as i64))];
            otlp.emit(emit::Event::new(mdl, tpl, emit::Extent::range(ts(vid % 1000, 1)..ts(vid % 1000 + 1, 2)), &props[..]));
        }
        Signal::Metrics => {
            let props = [
                ("evt_kind", Value::from_any(&kind_metric)),
                ("metric_agg", Value::from("count")),
                ("metric_value", Value::from(1)),
                ("pad", Value::from(pad)),
                ("vid", Value::from(vid as i64)),
            ];
            otlp.emit(emit::Event::new(mdl, tpl, emit::Extent::point(ts(vid % 1000, 1)), &props[..]));
        }
    }
}

/// First block at which the growth rule is evaluated (then after every block).
const GROWTH_MIN_BLOCK: usize = 8;

/// The growth rule over `series[k]` = live heap after block k (`series[0]` = before the first block).
/// Returns (k, retained, rise since k/2, limit for retained, limit for the rise) when it fires at the last block.
fn growth_alarm(series: &[i64], ev: i64) -> Option<(usize, i64, i64, i64, i64)> {
    let k = series.len() - 1;
    if k < GROWTH_MIN_BLOCK {
        return None;
    }
    let h = k / 2;
    let retained = series[k] - series[0];
    let rise = series[k] - series[h];
    let retained_limit = 3 * CAPACITY as i64 * ev;
    let rise_limit = ev / 4 * (k - h) as i64 * CAPACITY as i64;
    (retained > retained_limit && rise > rise_limit).then_some((k, retained, rise, retained_limit, rise_limit))
}

fn growth(r: &mut Report, seed: u64, case: u64, blocks: usize, print: bool) {
    r.eval();
    let mut g = Rng::stream(seed, &[9, 21, case]);
    let signal = Signal::ALL[(case % 3) as usize];
    let transport = Transport::ALL[((case + case / 3) % 3) as usize];
    let gzip = case / 9 % 2 == 1;
    let subset: u8 = signal.bit();
    let sname = signal.name();
    let pad_len = 960 + g.usize(64);
    let case_json = json!({
        "section": "growth", "seed": seed, "case": case, "signal": sname, "transport": transport.name(), "gzip": gzip,
        "blocks": blocks, "pad_len": pad_len,
    });
    if !countalloc::installed() {
        r.inconclusive("growth: the counting allocator is not installed");
        return;
    }
    let col = Collector::start(vec![EndpointCfg { signal, wire: transport.wire(), listen: true, script: vec![] }]);
    col.set_repeat(signal, Some(Decision::HoldAck(600_000)));
    let otlp = build_otlp(&col, transport, gzip, subset);
    let q = format!("otlp_{}_queue_length", sname);
    let t = format!("otlp_{}_queue_full_truncated", sname);
    let pad: String = (0..pad_len).map(|i| (b'a' + (i % 26) as u8) as char).collect();

    // park the worker on one held request
    let mut vid = case * 10_000_000 + 1;
    emit_big(&otlp, vid, signal, &pad);
    vid += 1;
    let parked = col.wait_until(Duration::from_secs(30), |recs| recs.iter().any(|rec| rec.endpoint == signal));
    let start = std::time::Instant::now();
    let mut drained = false;
    while start.elapsed() < Duration::from_secs(10) {
        if all_metrics(&otlp).get(&q) == Some(&0) {
            drained = true;
            break;
        }
        std::thread::sleep(Duration::from_millis(1));
    }
    if !parked || !drained {
        r.inconclusive(format!("growth otlp {}: the worker did not get parked on a held request", sname));
        col.shutdown();
        return;
    }
    // let the collector's side of the held request settle (it allocates while it reads the body)
    std::thread::sleep(Duration::from_millis(50));

    let nominal = 1024i64;
    let mut ev = nominal;
    let mut series: Vec<i64> = Vec::with_capacity(blocks + 2);
    let mut max_len = 0u64;
    let mut trunc = 0u64;
    let mut alarm = None;
    let t0 = std::time::Instant::now();
    let mut watchdog = false;
    series.push(countalloc::live_bytes());
    for k in 1..=blocks {
        // ---- measured phase: nothing is recorded per event ----
        for _ in 0..CAPACITY {
            emit_big(&otlp, vid, signal, &pad[..pad_len - (vid % 97) as usize]);
            vid += 1;
        }
        series.push(countalloc::live_bytes());
        // ---- once per block, after the heap sample ----
        let m = all_metrics(&otlp);
        max_len = max_len.max(m.get(&q).copied().unwrap_or(0));
        trunc = m.get(&t).copied().unwrap_or(0);
        if k == 1 {
            // the first block fills the queue without a truncation: what one event really retains
            ev = nominal.max((series[1] - series[0]) / CAPACITY as i64);
        }
        alarm = growth_alarm(&series, ev);
        if alarm.is_some() {
            break; // do not eat the machine's memory on a tree that leaks
        }
        if t0.elapsed() > Duration::from_secs(240) {
            watchdog = true;
            break;
        }
    }
    let seen = col.records().iter().filter(|rec| rec.endpoint == signal).count();
    let done_blocks = series.len() - 1;
    let rel: Vec<i64> = series.iter().map(|l| (l - series[0]) / 1024).collect();
    if print {
        eprintln!(
            "growth otlp {} {} gzip={}: event size {} B, live heap after each block of {} emits, KiB above the start: {:?} (collector saw {} requests)",
            sname, transport.name(), gzip, ev, CAPACITY, rel, seen
        );
    }
    r.observe("otlp:growth:emit-calls-returned", done_blocks as u64 * CAPACITY);
    r.observe("otlp:growth:heap-samples", series.len() as u64);
    r.observe("otlp:growth:overflows", trunc);
    r.set(&format!("growth-case-{}-retained-kib-per-block", case), json!(rel));
    r.set(&format!("growth-case-{}-event-bytes", case), json!(ev));
    if max_len > CAPACITY {
        r.violation(
            &format!("C09:otlp:pending-exceeds-capacity:{}", sname),
            &format!("{} = {} at a block boundary of the growth scenario, capacity {}", q, max_len, CAPACITY),
            case_json.clone(),
        );
    }
    if let Some((k, retained, rise, retained_limit, rise_limit)) = alarm {
        let mut c = case_json.clone();
        c["retained_kib_after_each_block"] = json!(rel);
        c["event_bytes"] = json!(ev);
        c["requests_seen_by_the_collector"] = json!(seen);
        r.violation(
            &format!("C09:otlp:retained-heap-grows-with-emitted-events:{}", sname),
            &format!(
                "with the collector holding the first request, the live heap after {} blocks of {} emits is {} KiB above the start (limit 3 x capacity x {} B = {} KiB) and rose by {} KiB over the last {} blocks (limit a quarter of an event per emitted event = {} KiB), with {} counted truncations and {} <= {}: what the truncations discarded is not freed",
                k,
                CAPACITY,
                retained / 1024,
                ev,
                retained_limit / 1024,
                rise / 1024,
                k - k / 2,
                rise_limit / 1024,
                trunc,
                q,
                max_len
            ),
            c,
        );
    } else if watchdog {
        r.inconclusive(format!("growth otlp {}: only {} of {} blocks were emitted within 240 s", sname, done_blocks, blocks));
    } else if trunc == 0 {
        r.inconclusive(format!("growth otlp {}: no truncation was counted in {} blocks; growth not judged", sname, done_blocks));
    } else {
        r.observe("otlp:growth:scenarios-with-a-plateau", 1);
    }
    r.observe(if seen == 1 { "otlp:growth:worker-stalled-all-along" } else { "otlp:growth:worker-moved" }, 1);
    r.nontrivial(&("otlp-growth", signal, transport, gzip));
    // let go and tidy up (bounded)
    col.set_repeat(signal, None);
    col.release_gate();
    // (tidying up only: the growth verdict above does not depend on it)
    let flushed = otlp.blocking_flush(Duration::from_secs(30));
    r.observe(if flushed { "otlp:growth:flushed-after-release" } else { "otlp:growth:flush-after-release-returned-false" }, 1);
    col.settle();
    drop(otlp);
    col.shutdown();
    for _ in 0..2_000 {
        if threads_named("emit_otlp_worke") == 0 {
            break;
        }
        std::thread::sleep(Duration::from_millis(1));
    }
}

struct Cand {
    sig: String,
    what: String,
    /// still valid when the worker turned out to have moved
    bound_only: bool,
}

fn scenario(r: &mut Report, seed: u64, case: u64, cycles: u64) {
    r.eval();
    let mut g = Rng::stream(seed, &[9, 20, case]);
    let signal = Signal::ALL[(case % 3) as usize];
    let transport = Transport::ALL[(case / 3 % 3) as usize];
    let subset: u8 = if case / 9 % 2 == 0 { signal.bit() } else { 7 };
    let gzip = case / 18 % 2 == 1;
    let sname = signal.name();
    let case_json = json!({
        "section": "otlp-overflow", "seed": seed, "case": case, "signal": sname, "transport": transport.name(),
        "signals_configured": subset_name(subset), "gzip": gzip, "cycles": cycles,
    });
    let cfgs: Vec<EndpointCfg> = Signal::ALL
        .into_iter()
        .filter(|s| subset & s.bit() != 0)
        .map(|s| EndpointCfg { signal: s, wire: transport.wire(), listen: true, script: vec![] })
        .collect();
    let col = Collector::start(cfgs);
    // a destination that accepts and does not answer (until the monitor lets go)
    col.set_repeat(signal, Some(Decision::HoldAck(600_000)));
    let otlp = build_otlp(&col, transport, gzip, subset);
    let q = format!("otlp_{}_queue_length", sname);
    let t = format!("otlp_{}_queue_full_truncated", sname);
    let m0 = all_metrics(&otlp);
    if !m0.contains_key(&q) || !m0.contains_key(&t) {
        r.inconclusive(format!("metrics {} / {} not found among {:?}", q, t, m0.keys().collect::<Vec<_>>()));
        col.shutdown();
        return;
    }

    // 1. park the worker on one held request
    let mut vid = case * 10_000_000 + 1;
    emit_ev(&otlp, vid, signal);
    vid += 1;
    let parked = col.wait_until(Duration::from_secs(30), |recs| recs.iter().any(|rec| rec.endpoint == signal));
    let start = std::time::Instant::now();
    let mut drained = false;
    while start.elapsed() < Duration::from_secs(10) {
        if all_metrics(&otlp)[&q] == 0 {
            drained = true;
            break;
        }
        std::thread::sleep(Duration::from_millis(1));
    }
    if !parked || !drained {
        r.inconclusive(format!("otlp {}: the worker did not get parked on a held request", sname));
        col.shutdown();
        return;
    }

    // 2. fill / overflow / continue, reading the metrics after every emit
    let mut cands: Vec<Cand> = Vec::new();
    let mut pending: u64 = 0; // model
    let mut trunc: u64 = m0[&t];
    let mut kept: Vec<u64> = Vec::new(); // vids pending in the model
    let mut samples = 0u64;
    let mut overflows = 0u64;
    let others: Vec<String> = Signal::ALL
        .into_iter()
        .filter(|s| *s != signal && subset & s.bit() != 0)
        .map(|s| format!("otlp_{}_queue_length", s.name()))
        .collect();
    // returns the model's pending count after the emit
    let mut step = |otlp: &emit_otlp::Otlp, vid: &mut u64, cands: &mut Vec<Cand>, phase: &str| -> u64 {
        let was_full = pending >= CAPACITY;
        emit_ev(otlp, *vid, signal);
        if was_full {
            kept.clear();
            pending = 0;
            trunc += 1;
            overflows += 1;
        }
        kept.push(*vid);
        pending += 1;
        *vid += 1;
        let m = all_metrics(otlp);
        samples += 1;
        let (ql, tr) = (m[&q], m[&t]);
        if cands.len() < 6 {
            if ql > CAPACITY {
                cands.push(Cand {
                    sig: format!("C09:otlp:pending-exceeds-capacity:{}", sname),
                    what: format!("{} = {} after an emit ({}), capacity {}", q, ql, phase, CAPACITY),
                    bound_only: true,
                });
            }
            if tr != trunc {
                cands.push(Cand {
                    sig: format!("C09:otlp:truncation-counter:{}:{}", sname, if was_full { "emit-that-overflowed" } else { "emit-that-did-not-overflow" }),
                    what: format!(
                        "{} = {} after an emit that {} (model: {} overflows so far, {} pending)",
                        t,
                        tr,
                        if was_full { "met the full queue" } else { "did not meet a full queue" },
                        trunc,
                        pending
                    ),
                    bound_only: false,
                });
                trunc = tr; // resync so one defect is reported once
            }
            if ql != pending {
                cands.push(Cand {
                    sig: format!(
                        "C09:otlp:{}:{}",
                        if was_full { "pending-after-overflow-is-not-the-new-item" } else if phase == "after-overflow" { "pending-does-not-count-up-after-overflow" } else { "pending-count" },
                        sname
                    ),
                    what: format!("{} = {} after an emit ({}), the model says {}", q, ql, phase, pending),
                    bound_only: false,
                });
                pending = ql;
            }
            for o in &others {
                if m[o] != 0 {
                    cands.push(Cand {
                        sig: format!("C09:otlp:other-signal-queue-touched:{}", sname),
                        what: format!("{} = {} although only {} events were emitted", o, m[o], sname),
                        bound_only: false,
                    });
                }
            }
        }
        pending
    };
    let mut now_pending = 0u64;
    for _cycle in 0..cycles {
        while now_pending < CAPACITY {
            now_pending = step(&otlp, &mut vid, &mut cands, "filling");
        }
        // the emit that meets the full queue
        now_pending = step(&otlp, &mut vid, &mut cands, "overflow");
        // small numbers of events before anything is taken
        for _ in 0..g.range(1, 6) {
            now_pending = step(&otlp, &mut vid, &mut cands, "after-overflow");
        }
    }
    drop(step);
    r.observe("otlp:metric-samples-after-an-emit", samples);
    r.observe("otlp:overflows", overflows);
    r.observe(&format!("otlp:scenarios:{}:{}", sname, transport.name()), 1);

    // 3. was the worker really stalled all along?
    let seen = col.records().iter().filter(|rec| rec.endpoint == signal).count();
    let stalled = seen == 1;
    for c in cands {
        if stalled || c.bound_only {
            r.violation(&c.sig, &c.what, case_json.clone());
        }
    }
    if !stalled {
        r.inconclusive(format!("otlp {}: the collector saw {} requests while it was supposed to hold the first one; exact expectations skipped", sname, seen));
        col.shutdown();
        return;
    }
    r.nontrivial(&("otlp", signal, transport, subset, gzip));

    // 4. let go: the next request carries exactly what the model kept
    col.set_repeat(signal, None);
    col.release_gate();
    let flushed = otlp.blocking_flush(Duration::from_secs(30));
    col.settle();
    if !flushed {
        r.inconclusive(format!("otlp {}: flush after the release returned false; delivery not judged", sname));
    } else {
        let mut delivered: BTreeSet<u64> = BTreeSet::new();
        let mut decode_failed = false;
        for rec in col.records().iter().filter(|rec| rec.endpoint == signal).skip(1) {
            match rec.items() {
                Ok(items) => delivered.extend(items.iter().filter_map(|i| i.vid())),
                Err(_) => decode_failed = true,
            }
        }
        let want: BTreeSet<u64> = kept.iter().copied().collect();
        if decode_failed {
            r.inconclusive(format!("otlp {}: a request could not be decoded; delivery not judged", sname));
        } else if delivered != want {
            let missing: Vec<u64> = want.difference(&delivered).copied().take(5).collect();
            let extra: Vec<u64> = delivered.difference(&want).copied().take(5).collect();
            r.violation(
                &format!("C09:otlp:delivered-after-release:{}", sname),
                &format!(
                    "after the release the collector received {} events, expected exactly the {} emitted since the last overflow (missing e.g. {:?}, unexpected e.g. {:?})",
                    delivered.len(),
                    want.len(),
                    missing,
                    extra
                ),
                case_json.clone(),
            );
        } else {
            r.observe("otlp:kept-events-delivered-after-release", want.len() as u64);
        }
    }
    if r.wants_sample() {
        let c = case_json.clone();
        let (s, o, k) = (samples, overflows, kept.len());
        r.sample(move || json!({"case": c, "metric_samples": s, "overflows": o, "kept_after_last_overflow": k}));
    }
    drop(otlp);
    col.shutdown();
}

fn main() {
    let args = Args::parse();
    let seed = args.seed;
    emit_batcher::verif::set_delay_divisor(100);
    let mut r = Report::new(
        "C09",
        &args,
        "OTLP end-to-end: one evaluation = one emitter against a stalled collector, filled to capacity and overflowed several times with the emitter's metrics read after every emit; \
         non-trivial = distinct (signal, transport/encoding, signals configured, gzip)",
    );
    if let Some(path) = &args.replay {
        let case = load_replay(path);
        let c = case.get("case").and_then(|v| v.as_u64()).unwrap_or(0);
        let s = case.get("seed").and_then(|v| v.as_u64()).unwrap_or(seed);
        if case.get("section").and_then(|v| v.as_str()) == Some("growth") {
            let blocks = case.get("blocks").and_then(|v| v.as_u64()).unwrap_or(24) as usize;
            emit_otlp::verif::set_request_timeout(Some(Duration::from_secs(600)));
            growth(&mut r, s, c, blocks, true);
            growth(&mut r, s, c + 3, blocks, true);
            std::process::exit(r.finish());
        }
        let cycles = case.get("cycles").and_then(|v| v.as_u64()).unwrap_or(3);
        scenario(&mut r, s, c, cycles);
        scenario(&mut r, s, c + 9, cycles);
        std::process::exit(r.finish());
    }
    // the growth scenarios read the process-wide live heap: they run alone, one after the other
    if args.get_u64("growth", 1) != 0 {
        let blocks = args.get_u64("growth-blocks", if args.thorough() { 40 } else { 24 }) as usize;
        let print = args.get_u64("print-series", 0) != 0;
        emit_otlp::verif::set_request_timeout(Some(Duration::from_secs(600)));
        // every signal once (quick), with the transport rotating with the seed
        for i in 0..args.n(3, 9) {
            growth(&mut r, seed, i + 3 * (seed % 6), blocks, print);
        }
        emit_otlp::verif::set_request_timeout(None);
    }
    // quick: every signal x {http-json, http-proto, grpc}; thorough: also all-signals-configured and gzip
    let n = args.n(9, 36);
    let cycles = if args.thorough() { 5 } else { 3 };
    let offset = seed % 4 * 9; // different seeds start at different (subset, gzip) blocks
    par_cases(&mut r, &args, n, |i, r| scenario(r, seed, i + offset, cycles));
    std::process::exit(r.finish());
}
