/*!
C11 — rolling files roll, retain and name as configured and stay inside their own set.

Same instrument as C10 (the real worker over `shared/fakefs.rs`), different generators and oracle.

Cases: configurations (roll by day/hour/minute, max_files 1–6 / default / large, size limits from
1 B, reuse on/off, prefixes and extensions that extend or are extended by a sibling set's, prefixes
with dots, several directory spellings), pre-existing directory contents (foreign files, sibling
sets with well-formed names, look-alikes, older and "future" members of the same set), clock
trajectories (zero advance, sub-millisecond, forward jumps onto / over period boundaries, backward
steps), clean restarts, occasional injected failures (write / open / sync) and file-id collisions.

Oracle after every `on_batch` attempt, from the filesystem's op log and state:
 (a) all writes of the attempt went to one file;
 (b) that file is named `prefix.period.counter.id.ext` (exact grammar) and `period` is the period,
     computed by civil-from-days, of a clock reading taken DURING that batch (the injected clock
     counts its reads and, in most cases, advances on every reading by a sub-millisecond to
     multi-second step, so the readings of one batch are known exactly); every file created is
     named like that too;
 (c) compared with the previous successful batch (no restart / failure in between) the file changed
     iff the period changed or size-before + batch bytes > limit;
 (d) after every successful batch the members (exact grammar, this prefix / ext) number at most
     max_files, and every deletion removed the then-smallest member name;
 (e) of two files created by the set with no backward clock step in between, the newer one has the
     greater name — except the known finding: same period and same millisecond counter leaves the
     order to the random id (`C11:name-order:same-period-same-millis`);
 (f) no open / append / len / sync / delete of a path that is not a member of the set, in its directory;
 (g) no panic;
 (h) after every successful batch the file that received its writes is still a member of the
     directory (the set's current file) and the deletions of that same batch did not include it
     (the fake filesystem keeps an unlinked file writable through its open handle, as POSIX does).
*/

#[path = "../shared/fakefs.rs"]
mod fakefs;

use std::collections::BTreeSet;

use fakefs::*;
use vcommon::rec::FakeClock;
use vcommon::*;

const MAX_RETRIES: usize = 6;
const MAX_NANOS: u64 = 16_725_225_599 * 1_000_000_000; // 2499-12-31T23:59:59Z (the fake clock counts u64 nanoseconds)

#[derive(Clone, Debug)]
enum Step {
    Batch { delta_ms: i64, delta_sub_ns: u64, snap: Option<Snap>, sizes: Vec<usize>, fail_at: Option<usize> },
    Restart { reuse: bool },
}

/// Put the clock just before a boundary (monotone: only ever forwards), so that with a stepping
/// clock consecutive readings straddle it.
#[derive(Clone, Copy, Debug)]
enum Snap {
    /// this many nanoseconds before the next period boundary
    Period(u64),
    /// this many nanoseconds before the next millisecond boundary
    Milli(u64),
}

struct Case {
    idx: u64,
    /// the clock advances by this much on EVERY reading (0 = frozen between the harness's own steps)
    clock_step_ns: u64,
    cfg: Cfg,
    reuse0: bool,
    ids: IdMode,
    start: u64,
    dir_exists: bool,
    /// (file name, content length, class)
    pre: Vec<(String, usize, &'static str)>,
    steps: Vec<Step>,
}

fn gen_name(g: &mut Rng, prefix: &str, ext: &str, roll: Roll, nanos: u64) -> String {
    let (p, ms) = period_of(roll, nanos);
    format!("{}.{}.{:08}.{:08x}.{}", prefix, p, ms, g.next() as u32, ext)
}

fn gen_case(seed: u64, idx: u64) -> Case {
    let mut g = Rng::stream(seed, &[11, 1, idx]);
    let roll = *g.pick(&[Roll::Day, Roll::Hour, Roll::Minute, Roll::Minute]);
    let prefix = g.pick(&["log", "logger", "app", "my.app", "a", "svc-1", "x.y.z", "log.extra"]).to_string();
    let ext = g.pick(&["txt", "log", "xtxt", "json", "l", "extra"]).to_string();
    let dir = g.pick(&["logs", "./target/logs", "/var/log/app", "a/b/c", "", "logs.d"]).to_string();
    let max_files = match g.below(10) {
        0 | 1 => 1,
        2 => 2,
        3 => 3,
        4 => 4,
        5 => 5,
        6 => 6,
        7 => 32,
        8 => 1000,
        _ => 2,
    };
    let max_size = *g.pick(&[1usize, 2, 10, 64, 64, 500, 4096, 1 << 30]);
    let cfg = Cfg { dir, prefix, ext, roll, max_files, max_size, sep: b"\n" };

    // start close to a boundary
    let base_day = match g.below(7) {
        0 => 0,
        1 => days_from_civil(2024, 2, 29),
        2 => days_from_civil(2023, 12, 31),
        3 => days_from_civil(2100, 2, 28),
        4 => days_from_civil(2499, 12, 30),
        5 => days_from_civil(1999, 12, 31),
        _ => g.below(40_000) as i64,
    } as u64;
    let into_day_ms = match g.below(5) {
        0 => 0,
        1 => 86_400_000 - 1 - g.below(3_000),
        2 => 3_600_000 * (1 + g.below(23)) - 1 - g.below(2_000),
        3 => 60_000 * (1 + g.below(1_439)) - 1 - g.below(1_500),
        _ => g.below(86_400_000),
    };
    let start = base_day * 86_400_000_000_000 + into_day_ms * 1_000_000 + g.below(1_000_000);

    // pre-existing directory contents
    let mut pre: Vec<(String, usize, &'static str)> = Vec::new();
    let (pfx, ex) = (cfg.prefix.clone(), cfg.ext.clone());
    let near = |g: &mut Rng| -> u64 {
        let span = 5 * roll.period_nanos() as i64;
        (start as i128 + g.irange(-span, span) as i128).clamp(0, MAX_NANOS as i128) as u64
    };
    let n_pre = match g.below(4) {
        0 => 0,
        1 => 1 + g.usize(3),
        _ => 2 + g.usize(9),
    };
    for _ in 0..n_pre {
        let t = near(&mut g);
        let any_roll = *g.pick(&[Roll::Day, Roll::Hour, Roll::Minute]);
        let (name, class): (String, &'static str) = match g.below(16) {
            0 => ("readme.md".into(), "foreign"),
            1 => (format!("{}.{}", pfx, ex), "foreign:template-name"),
            2 => (gen_name(&mut g, &format!("{}ger", pfx), &ex, roll, t), "sibling:prefix-extends-ours"),
            3 => (gen_name(&mut g, &format!("{}.extra", pfx), &ex, roll, t), "sibling:prefix-extends-ours-with-dot"),
            4 => (gen_name(&mut g, &pfx, &format!("x{}", ex), roll, t), "sibling:ext-extends-ours"),
            5 => (gen_name(&mut g, &pfx, &format!("{}.extra", ex), roll, t), "sibling:ext-extended-after-dot"),
            6 if pfx.len() > 1 => (gen_name(&mut g, &pfx[..pfx.len() - 1], &ex, roll, t), "sibling:ours-extends-its-prefix"),
            7 if ex.len() > 1 => (gen_name(&mut g, &pfx, &ex[1..], roll, t), "sibling:ours-extends-its-ext"),
            8 => {
                let (p, ms) = period_of(roll, t);
                (format!("{}.{}.{:08}.{}", pfx, p, ms, ex), "lookalike:no-id")
            }
            9 => {
                let (p, ms) = period_of(roll, t);
                (format!("{}.{}.{:07}.{:08x}.{}", pfx, p, ms % 10_000_000, g.next() as u32, ex), "lookalike:short-counter")
            }
            10 => {
                let (p, ms) = period_of(roll, t);
                (format!("{}.{}.{:08}.{:07x}z.{}", pfx, p, ms, g.next() as u32 >> 4, ex), "lookalike:non-hex-id")
            }
            11 => {
                let (p, ms) = period_of(roll, t);
                (format!("{}{}.{:08}.{:08x}.{}", pfx, p, ms, g.next() as u32, ex), "lookalike:no-dot-after-prefix")
            }
            12 => (gen_name(&mut g, &pfx, &ex, any_roll, t), "member:other-granularity"),
            _ => (gen_name(&mut g, &pfx, &ex, roll, t), "member"),
        };
        if !pre.iter().any(|(n, _, _)| *n == name) {
            pre.push((name, g.usize(40), class));
        }
    }

    // full sets of future-dated members: whatever the set creates now sorts BELOW them
    if g.chance(1, 6) {
        for _ in 0..1 + g.usize(3) {
            let t = (start as u128 + (1 + g.below(50)) as u128 * roll.period_nanos() as u128).min(MAX_NANOS as u128) as u64;
            let name = gen_name(&mut g, &pfx, &ex, roll, t);
            if !pre.iter().any(|(n, _, _)| *n == name) {
                pre.push((name, g.usize(40), "member:future-dated"));
            }
        }
    }
    let clock_step_ns = match g.below(12) {
        0 | 1 | 2 => 0,
        3 => 137_000,
        4 => 400_000,
        5 => 999_999,
        6 => 1_000_000,
        7 => 2_500_000,
        8 => 40_000_000,
        9 => 1_000_000_000,
        10 => 7_300_000_000,
        _ => 1 + g.below(3_000_000),
    };
    let n_steps = 2 + g.usize(14);
    let mut steps = Vec::new();
    let period_ms = (roll.period_nanos() / 1_000_000) as i64;
    let mut now = start;
    for _ in 0..n_steps {
        if g.chance(1, 7) {
            steps.push(Step::Restart { reuse: g.bool() });
            continue;
        }
        let to_boundary = period_ms - ((now % roll.period_nanos()) / 1_000_000) as i64;
        let delta_ms: i64 = match g.below(14) {
            0 | 1 | 2 => 0,
            3 => 1 + g.below(5) as i64,
            4 => g.below(1_000) as i64,
            5 => to_boundary - 1,
            6 => to_boundary,
            7 => to_boundary + g.below(50) as i64,
            8 => period_ms * (1 + g.below(40) as i64) + g.below(period_ms as u64) as i64,
            9 => -1,
            10 => -(g.below(2_000) as i64),
            11 => -period_ms,
            12 => -(g.below(3 * period_ms as u64) as i64),
            _ => g.below(period_ms as u64 / 4 + 1) as i64,
        };
        let delta_sub_ns = if g.chance(1, 4) { g.below(1_000_000) } else { 0 };
        let next = (now as i128 + delta_ms as i128 * 1_000_000 + delta_sub_ns as i128).clamp(0, MAX_NANOS as i128) as u64;
        now = next;
        let snap = if g.chance(1, 5) {
            // within one or two clock steps of the boundary (a few ms when the clock is frozen)
            let span = if clock_step_ns == 0 { 3_000_000 } else { 2 * clock_step_ns };
            let x = 1 + g.below(span);
            Some(if g.chance(2, 3) { Snap::Period(x) } else { Snap::Milli(x % 1_000_000 + 1) })
        } else {
            None
        };
        let n = 1 + g.usize(4);
        let sizes = (0..n)
            .map(|_| {
                let hi = if g.chance(1, 5) { 200 } else { 24 };
                1 + g.usize(hi)
            })
            .collect();
        let fail_at = if g.chance(1, 10) { Some(g.usize(9)) } else { None };
        steps.push(Step::Batch { delta_ms, delta_sub_ns, snap, sizes, fail_at });
    }
    let ids = match g.below(8) {
        0 => IdMode::Small(3),
        1 => IdMode::Counting,
        _ => IdMode::Random,
    };
    Case { idx, clock_step_ns, cfg, reuse0: g.bool(), ids, start, dir_exists: g.bool(), pre, steps }
}

impl Case {
    fn to_json(&self) -> Json {
        json!({
            "config": self.cfg.to_json(), "reuse_files": self.reuse0, "ids": format!("{:?}", self.ids),
            "start_unix_nanos": self.start, "dir_exists": self.dir_exists, "clock_advances_on_every_reading_ns": self.clock_step_ns,
            "pre_existing": self.pre.iter().map(|(n, l, c)| json!([n, l, c])).collect::<Vec<_>>(),
            "steps": self.steps.iter().map(|s| match s {
                Step::Batch { delta_ms, delta_sub_ns, snap, sizes, fail_at } => json!({"batch": sizes, "clock_delta_ms": delta_ms, "clock_delta_sub_ns": delta_sub_ns,
                    "clock_snapped_before_boundary": snap.map(|s| format!("{:?}", s)), "fail_at_op_offset": fail_at}),
                Step::Restart { reuse } => json!({"restart": {"reuse_files": reuse}}),
            }).collect::<Vec<_>>(),
        })
    }
}

fn join_path(dir: &str, name: &str) -> String {
    let mut p = std::path::PathBuf::from(dir);
    p.push(name);
    p.to_str().unwrap().to_string()
}

fn foreign_class(name: &str, cfg: &Cfg) -> &'static str {
    if name.starts_with(&cfg.prefix) && name.ends_with(&cfg.ext) {
        "starts-with-prefix-and-ends-with-ext"
    } else {
        "unrelated-name"
    }
}

#[derive(Default)]
struct Stats {
    attempts: u64,
    ok_batches: u64,
    failed_attempts: u64,
    files_created: u64,
    deletions: u64,
    rolls_period: u64,
    rolls_size: u64,
    kept_file: u64,
    roll_decisions_checked: u64,
    name_pairs_checked: u64,
    retention_checks: u64,
    ops: u64,
    reused_after_restart: u64,
    backward_steps: u64,
    collisions: u64,
    foreign_present: u64,
    clock_reads: u64,
    current_file_checks: u64,
    created_below_an_existing_member: u64,
    created_below_an_existing_member_in_a_full_set: u64,
    max_reads_per_attempt: u64,
    attempts_with_stepping_clock: u64,
    creating_attempts_right_before_period_boundary: u64,
    creating_attempts_right_before_milli_boundary: u64,
    attempts_straddling_period: u64,
    attempts_straddling_milli: u64,
}

/// Run one case; violations are (sig, what).
fn run_case(c: &Case, stats: &mut Stats) -> Vec<(String, String)> {
    let mut v: Vec<(String, String)> = Vec::new();
    let cfg = &c.cfg;
    // a template without a directory part ("app.txt") puts the set into the working directory "."
    let edir = cfg.effective_dir();
    let edir = edir.as_str();
    let fs = FakeFs::new(c.idx * 31 + 7);
    if c.dir_exists || !c.pre.is_empty() {
        fs.add_dir(edir);
    }
    for (name, len, _) in &c.pre {
        let mut content = vec![b'o'; *len];
        if *len > 0 && len % 2 == 0 {
            *content.last_mut().unwrap() = b'\n';
        }
        fs.add_file(&join_path(edir, name), &content);
    }
    stats.foreign_present += c.pre.iter().filter(|(n, _, _)| parse_member(n, &cfg.prefix, &cfg.ext).is_none()).count() as u64;
    let clock = FakeClock::new(c.start);
    clock.set_step(c.clock_step_ns);
    let step_ns = c.clock_step_ns;
    let ids = IdRng::new(c.idx + 99, c.ids);
    let mut rig = Rig::new(fs.clone(), clock.clone(), ids, cfg.clone());
    rig.start(c.reuse0);

    let members_now = |fs: &FakeFs| -> BTreeSet<String> {
        fs.lock()
            .files
            .keys()
            .filter(|p| dir_of(p) == edir)
            .map(|p| file_name_of(p).to_string())
            .filter(|n| parse_member(n, &cfg.prefix, &cfg.ext).is_some())
            .collect()
    };

    // the file the previous successful batch went to; None after restart / failure
    let mut current: Option<String> = None;
    // files created by the set: (name, epoch, (period, millisecond) of every clock reading taken during the creating on_batch)
    let mut created: Vec<(String, u64, Vec<(String, u64)>)> = Vec::new();
    let mut epoch = 0u64;
    let mut last_reading: Option<u64> = None;
    let mut after_restart = true;
    let mut rec_no = 0u64;
    // set when listing / deleting failed: the count bound is not required to hold until the next roll
    let mut retention_excused = false;

    for step in &c.steps {
        match step {
            Step::Restart { reuse } => {
                rig.start(*reuse);
                current = None;
                after_restart = true;
            }
            Step::Batch { delta_ms, delta_sub_ns, snap, sizes, fail_at } => {
                let t0 = clock.get();
                let mut t = (t0 as i128 + *delta_ms as i128 * 1_000_000 + *delta_sub_ns as i128).clamp(0, MAX_NANOS as i128) as u64;
                let mut snapped = None;
                if let Some(sn) = snap {
                    // forwards only: to just before the next boundary after max(t0, t)
                    let base = t.max(t0);
                    let (unit, x) = match sn {
                        Snap::Period(x) => (cfg.roll.period_nanos(), *x),
                        Snap::Milli(x) => (1_000_000, *x),
                    };
                    let mut target = (base / unit + 1) * unit - x.min(unit - 1);
                    if target < base {
                        target += unit;
                    }
                    if target <= MAX_NANOS {
                        t = target;
                        snapped = Some(*sn);
                    }
                }
                clock.set(t);
                let bufs: Vec<Box<[u8]>> = sizes
                    .iter()
                    .map(|s| {
                        rec_no += 1;
                        let mut b = format!("{}:", rec_no).into_bytes();
                        while b.len() + 1 < *s {
                            b.push(b'p');
                        }
                        b.truncate(s.saturating_sub(1));
                        b.push(b'\n');
                        b.into_boxed_slice()
                    })
                    .collect();
                let batch_bytes: usize = bufs.iter().map(|b| b.len()).sum();
                if let Some(off) = fail_at {
                    fs.add_fault(Fault { at: fs.op_count() + off, kind: FaultKind::Error });
                }
                let mut pending = bufs;
                let mut attempts = 0;
                loop {
                    attempts += 1;
                    stats.attempts += 1;
                    let first_reading = clock.get();
                    let reads_before = clock.reads();
                    if let Some(l) = last_reading {
                        if first_reading < l {
                            epoch += 1;
                            stats.backward_steps += 1;
                        }
                    }
                    let mut members = members_now(&fs);
                    let size_before: Option<usize> = current.as_ref().and_then(|n| fs.lock().files.get(&join_path(edir, n)).map(|f| f.len()));
                    let log_from = fs.op_count();
                    let pending_bytes: usize = pending.iter().map(|b| b.len()).sum();
                    let res = rig.attempt(std::mem::take(&mut pending));
                    let log: Vec<OpRec> = fs.lock().log[log_from..].to_vec();
                    stats.ops += log.len() as u64;
                    // every clock reading the worker took during this on_batch (the fake clock hands out
                    // first_reading, first_reading + step, ...)
                    let n_reads = clock.reads() - reads_before;
                    let readings: Vec<u64> = (0..n_reads.max(1)).map(|i| first_reading + i * step_ns).collect();
                    let reading = readings[0];
                    last_reading = Some(*readings.last().unwrap());
                    stats.clock_reads += n_reads;
                    stats.max_reads_per_attempt = stats.max_reads_per_attempt.max(n_reads);
                    stats.attempts_with_stepping_clock += (step_ns > 0) as u64;
                    // (period, millisecond-in-period) of every reading
                    let marks: Vec<(String, u64)> = readings.iter().map(|r| period_of(cfg.roll, *r)).collect();
                    let periods: BTreeSet<&str> = marks.iter().map(|m| m.0.as_str()).collect();
                    if periods.len() > 1 {
                        stats.attempts_straddling_period += 1;
                    }
                    if marks.iter().any(|m| *m != marks[0]) {
                        stats.attempts_straddling_milli += 1;
                    }
                    let period = marks[0].0.clone();
                    let when = format!(
                        "{} clock reading(s) {:?} (period {}{}), attempt {} -> {}",
                        n_reads,
                        &readings[..readings.len().min(3)],
                        period,
                        if periods.len() > 1 { format!(" .. {}", marks.last().unwrap().0) } else { String::new() },
                        attempts,
                        res.name()
                    );

                    // (f) + (b, created names) + (d, deletions) over the op log
                    let mut written: BTreeSet<String> = BTreeSet::new();
                    let mut listing_or_delete_failed = false;
                    let mut undeletable: BTreeSet<String> = BTreeSet::new();
                    // op index of the last successful open / delete of every name during this attempt
                    let mut last_open: std::collections::BTreeMap<String, usize> = Default::default();
                    let mut last_remove: std::collections::BTreeMap<String, usize> = Default::default();
                    let members_before = members.len();
                    for op in &log {
                        match op.kind {
                            OpKind::Mkdir | OpKind::ReadDir => {
                                if op.path != edir {
                                    v.push((format!("C11:foreign-dir:{}", op.kind.name()), format!("{}: {} of {:?}, the set's directory is {:?}", when, op.kind.name(), op.path, edir)));
                                }
                                if !op.ok() {
                                    listing_or_delete_failed = true;
                                }
                            }
                            OpKind::SyncDir => {
                                if dir_of(&op.path) != edir {
                                    v.push(("C11:foreign-dir:sync-dir".into(), format!("{}: synced the parent of {:?}", when, op.path)));
                                }
                            }
                            _ => {
                                let name = file_name_of(&op.path).to_string();
                                let in_dir = dir_of(&op.path) == edir;
                                let parsed = parse_member(&name, &cfg.prefix, &cfg.ext);
                                if !in_dir || parsed.is_none() {
                                    v.push((
                                        format!("C11:foreign-file:{}:{}", op.kind.name(), if in_dir { foreign_class(&name, cfg) } else { "other-directory" }),
                                        format!("{}: {} on {:?}, which is not a member of set {:?}.*.{:?} in {:?}", when, op.kind.name(), op.path, cfg.prefix, cfg.ext, edir),
                                    ));
                                    continue;
                                }
                                match op.kind {
                                    OpKind::OpenNew => {
                                        let (p, _, _) = parsed.unwrap();
                                        if !periods.contains(p) {
                                            v.push((
                                                "C11:name:created-with-wrong-period".into(),
                                                format!("{}: created {:?}; the periods of the readings taken during this batch are {:?}", when, name, periods),
                                            ));
                                        }
                                        if op.ok() {
                                            stats.files_created += 1;
                                            last_open.insert(name.clone(), op.idx);
                                            if members.iter().next_back().map(|m| m.as_str() > name.as_str()).unwrap_or(false) {
                                                stats.created_below_an_existing_member += 1;
                                                if members_before >= cfg.max_files {
                                                    stats.created_below_an_existing_member_in_a_full_set += 1;
                                                }
                                            }
                                            // (e)
                                            if let Some(sn) = snapped {
                                                // a boundary lies within two clock steps after the first reading
                                                match sn {
                                                    Snap::Period(_) => stats.creating_attempts_right_before_period_boundary += 1,
                                                    Snap::Milli(_) => stats.creating_attempts_right_before_milli_boundary += 1,
                                                }
                                            }
                                            let (np, nc, _) = parse_member(&name, &cfg.prefix, &cfg.ext).unwrap();
                                            for (older, _, older_marks) in created.iter().filter(|(_, ep, _)| *ep == epoch) {
                                                stats.name_pairs_checked += 1;
                                                if older.as_str() >= name.as_str() {
                                                    // The listed known finding is exactly: the two NAMES carry the same period and the same
                                                    // millisecond counter (then only the random id orders them). It is only recognised when
                                                    // the clock agrees, i.e. some reading of either creating batch falls into one common
                                                    // millisecond of one period; anything else is a different ordering violation.
                                                    let (op_, oc, _) = parse_member(older, &cfg.prefix, &cfg.ext).unwrap();
                                                    let names_tie = op_ == np && oc == nc;
                                                    let clock_tie = older_marks.iter().any(|m| marks.contains(m));
                                                    let sig = if names_tie && clock_tie {
                                                        "C11:name-order:same-period-same-millis".to_string()
                                                    } else if names_tie {
                                                        "C11:name-order:newer-sorts-lower:same-counter-but-created-in-different-milliseconds".to_string()
                                                    } else {
                                                        format!("C11:name-order:newer-sorts-lower:{}", if op_ == np { "same-period" } else { "different-period" })
                                                    };
                                                    v.push((
                                                        sig,
                                                        format!(
                                                            "{}: newly created {:?} does not sort after the older {:?} (created during readings {:?}) although no clock reading ever went backwards in between",
                                                            when, name, older, older_marks
                                                        ),
                                                    ));
                                                }
                                            }
                                            created.push((name.clone(), epoch, marks.clone()));
                                            members.insert(name.clone());
                                        } else if op.res == Res::NaturalErr {
                                            stats.collisions += 1;
                                        }
                                    }
                                    OpKind::Remove => {
                                        if op.ok() {
                                            stats.deletions += 1;
                                            last_remove.insert(name.clone(), op.idx);
                                            // a member whose deletion just failed stays behind; the next one is then the oldest deletable
                                            let smallest = members.iter().find(|m| !undeletable.contains(*m)).cloned();
                                            if smallest.as_deref() != Some(name.as_str()) {
                                                v.push((
                                                    "C11:retention:deleted-not-oldest".into(),
                                                    format!("{}: deleted {:?} while the smallest member name was {:?}", when, name, smallest),
                                                ));
                                            }
                                            members.remove(&name);
                                            // the ordering claim is about files that exist
                                            created.retain(|(n, _, _)| *n != name);
                                        } else {
                                            listing_or_delete_failed = true;
                                            undeletable.insert(name.clone());
                                        }
                                    }
                                    OpKind::Write => {
                                        written.insert(name.clone());
                                    }
                                    OpKind::OpenExisting if op.ok() => {
                                        last_open.insert(name.clone(), op.idx);
                                    }
                                    _ => {}
                                }
                            }
                        }
                    }
                    if listing_or_delete_failed {
                        retention_excused = true;
                    }
                    // (a)
                    if written.len() > 1 {
                        v.push(("C11:one-file:writes-to-several-files-in-one-batch".into(), format!("{}: wrote to {:?}", when, written)));
                    }
                    // self-check of the simulated member set
                    let actual = members_now(&fs);
                    if actual != members {
                        v.push(("C11:harness:member-set-diverged".into(), format!("{}: simulated {:?} actual {:?}", when, members, actual)));
                    }

                    match res {
                        Attempt::Ok => {
                            stats.ok_batches += 1;
                            let Some(w) = written.iter().next().cloned() else {
                                v.push(("C11:one-file:batch-acknowledged-without-a-write".into(), when.clone()));
                                break;
                            };
                            // (b)
                            let (wp, _, _) = parse_member(&w, &cfg.prefix, &cfg.ext).unwrap();
                            if !periods.contains(wp) {
                                v.push(("C11:name:written-file-has-other-period".into(), format!("{}: wrote to {:?}; periods of this batch's readings: {:?}", when, w, periods)));
                            }
                            let created_now = log.iter().any(|o| o.kind == OpKind::OpenNew && o.ok());
                            // (h) the file that received this batch is the set's current file: it is still a
                            // member of the directory and this batch's own retention did not delete it
                            stats.current_file_checks += 1;
                            let deleted_after_open = match (last_remove.get(&w), last_open.get(&w)) {
                                (Some(r), Some(o)) => r > o,
                                (Some(_), None) => true,
                                _ => false,
                            };
                            if deleted_after_open || !members.contains(&w) {
                                v.push((
                                    format!("C11:current-file:{}", if deleted_after_open { "deleted-by-the-retention-of-its-own-batch" } else { "not-in-the-directory-after-the-batch" }),
                                    format!("{}: the batch was written to {:?} and acknowledged, but that file is not in the directory afterwards (members now: {:?}, max_files {})", when, w, members, cfg.max_files),
                                ));
                            }
                            // (c)
                            if let (Some(cur), Some(sz)) = (&current, size_before) {
                                stats.roll_decisions_checked += 1;
                                // the current file's period (from its name, validated when it was written) against the
                                // periods of this batch's readings: none of them => must roll; all of them => must not
                                // roll for that reason; some (readings straddle a boundary) => either is fine
                                let cur_period = parse_member(cur, &cfg.prefix, &cfg.ext).map(|p| p.0.to_string()).unwrap_or_default();
                                let period_changed = !periods.contains(cur_period.as_str());
                                let period_ambiguous = !period_changed && periods.len() > 1;
                                let over = sz + pending_bytes > cfg.max_size;
                                // a new file counts as a roll even if (after the old one was deleted) it got the same name
                                let rolled = *cur != w || created_now;
                                if rolled && !(period_changed || over || period_ambiguous) {
                                    let class = if cfg.prefix.contains('.') { "prefix-with-dot" } else { "plain-prefix" };
                                    v.push((
                                        format!("C11:roll:spurious:{}", class),
                                        format!("{}: moved from {:?} ({} bytes) to {:?} for a batch of {} bytes (limit {}) in the same period", when, cur, sz, w, pending_bytes, cfg.max_size),
                                    ));
                                } else if !rolled && (period_changed || over) {
                                    v.push((
                                        format!("C11:roll:missing:{}", if period_changed { "period-changed" } else { "size-limit" }),
                                        format!("{}: stayed on {:?} ({} bytes before, batch {} bytes, limit {}, previous period {})", when, cur, sz, pending_bytes, cfg.max_size, cur_period),
                                    ));
                                }
                                if rolled {
                                    if period_changed {
                                        stats.rolls_period += 1;
                                    } else {
                                        stats.rolls_size += 1;
                                    }
                                } else {
                                    stats.kept_file += 1;
                                }
                            } else if !created_now {
                                stats.reused_after_restart += 1;
                            }
                            // (d)
                            if created_now {
                                retention_excused = listing_or_delete_failed;
                            }
                            if !retention_excused {
                                stats.retention_checks += 1;
                                if members.len() > cfg.max_files {
                                    let how = if !created_now {
                                        "reuse-without-create"
                                    } else if after_restart {
                                        "roll=after-restart"
                                    } else {
                                        "roll=in-process"
                                    };
                                    v.push((
                                        format!("C11:retention:more-than-max:{}", how),
                                        format!("{}: {} member files with max_files = {}: {:?}", when, members.len(), cfg.max_files, members),
                                    ));
                                }
                            }
                            current = Some(w);
                            after_restart = false;
                            let _ = batch_bytes;
                            break;
                        }
                        Attempt::Retry(rem) => {
                            stats.failed_attempts += 1;
                            current = None;
                            if attempts > MAX_RETRIES {
                                break;
                            }
                            pending = rem;
                        }
                        Attempt::GiveUp => {
                            stats.failed_attempts += 1;
                            current = None;
                            break;
                        }
                        Attempt::Crash => unreachable!("no crashes are planned in C11"),
                        Attempt::Panic(msg) => {
                            v.push((
                                format!("C11:panic:max_files={}", if cfg.max_files <= 2 { cfg.max_files.to_string() } else { "n".into() }),
                                format!("{}: the worker panicked: {}", when, msg),
                            ));
                            current = None;
                            break;
                        }
                    }
                }
            }
        }
        if v.len() > 6 {
            break;
        }
    }
    v
}

static MAX_READS: std::sync::atomic::AtomicU64 = std::sync::atomic::AtomicU64::new(0);

fn evaluate(r: &mut Report, seed: u64, idx: u64) {
    let c = gen_case(seed, idx);
    let mut st = Stats::default();
    let viol = run_case(&c, &mut st);
    r.eval();
    r.observe("on_batch-attempts", st.attempts);
    r.observe("batches-acknowledged", st.ok_batches);
    r.observe("failed-attempts", st.failed_attempts);
    r.observe("filesystem-ops-checked-for-membership", st.ops);
    r.observe("files-created", st.files_created);
    r.observe("files-deleted-by-retention", st.deletions);
    r.observe("roll-decisions-checked", st.roll_decisions_checked);
    r.observe("rolls-by-period", st.rolls_period);
    r.observe("rolls-by-size", st.rolls_size);
    r.observe("batches-that-kept-the-file", st.kept_file);
    r.observe("name-order-pairs-checked", st.name_pairs_checked);
    r.observe("retention-bound-checks", st.retention_checks);
    r.observe("reused-existing-file-after-restart", st.reused_after_restart);
    r.observe("backward-clock-steps", st.backward_steps);
    r.observe("file-name-collisions", st.collisions);
    r.observe("non-member-files-present-in-directory", st.foreign_present);
    r.observe("clock-readings-taken-by-the-worker", st.clock_reads);
    r.observe("current-file-still-in-directory-checks", st.current_file_checks);
    r.observe("files-created-with-a-name-below-an-existing-member", st.created_below_an_existing_member);
    r.observe("files-created-with-a-name-below-an-existing-member-in-a-full-set", st.created_below_an_existing_member_in_a_full_set);
    r.observe("on_batch-attempts-with-a-clock-that-advances-on-every-reading", st.attempts_with_stepping_clock);
    r.observe("file-creating-attempts-within-two-clock-steps-before-a-period-boundary", st.creating_attempts_right_before_period_boundary);
    r.observe("file-creating-attempts-within-two-clock-steps-before-a-millisecond-boundary", st.creating_attempts_right_before_milli_boundary);
    r.observe("on_batch-attempts-whose-own-readings-straddle-a-period-boundary", st.attempts_straddling_period);
    r.observe("on_batch-attempts-whose-own-readings-straddle-a-millisecond-boundary", st.attempts_straddling_milli);
    MAX_READS.fetch_max(st.max_reads_per_attempt, std::sync::atomic::Ordering::Relaxed);
    if st.files_created >= 2 && (st.deletions > 0 || st.rolls_period > 0 || st.rolls_size > 0) {
        r.nontrivial(&idx);
    }
    if idx < 3 {
        let cj = c.to_json();
        r.sample(move || cj);
    }
    for (sig, what) in viol {
        r.violation(&sig, &what, json!({"seed": seed, "case": idx, "detail": c.to_json()}));
    }
}

fn main() {
    let args = Args::parse();
    let mut r = Report::new(
        "C11",
        &args,
        "one evaluation = one generated configuration + directory + clock/batch/restart history run through the real worker with the naming / roll / retention / membership oracle after every on_batch attempt; \
         non-trivial = distinct cases in which the set created at least two files and at least one roll (by period or size) or retention deletion was observed",
    );
    let seed = args.seed;
    if let Some(path) = &args.replay {
        let case = load_replay(path);
        let idx = case.get("case").and_then(|v| v.as_u64()).unwrap_or(0);
        let cseed = case.get("seed").and_then(|v| v.as_u64()).unwrap_or(seed);
        evaluate(&mut r, cseed, idx);
        evaluate(&mut r, cseed, idx + 1);
        r.nontrivial(&"replay");
        std::process::exit(r.finish());
    }
    let n = args.n(200_000, 4_000_000);
    r.set("cases", json!(n));
    par_cases(&mut r, &args, n, |i, r| evaluate(r, seed, i));
    r.set("max_clock_reads_per_on_batch", json!(MAX_READS.load(std::sync::atomic::Ordering::Relaxed)));
    std::process::exit(r.finish());
}
