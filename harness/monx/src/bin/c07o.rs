/*!
OTLP end-to-end lanes of C07 and C08 (`--prop C07` / `--prop C08`), over the real `Otlp`
emitter and the scripted local collector.

C07 — a successful flush means everything emitted before it has been answered.
  Several threads emit events (unique `vid`s; each notes a global stamp right after `emit`
  returned) while flusher threads call `blocking_flush` at seeded moments (stamp `c` before the
  call, `d` after it returned). The collector acknowledges with seeded delays and a few scripted
  failures (fewer than the retry budget). Rule: for every flush that returned true, every vid whose
  `emit` returned before `c` is contained in a request that was acknowledged (2xx / grpc-status 0)
  and whose response the collector had started to write before `d`. The collector's stamp is taken
  *before* the response is handed to the socket, the flush stamp *after* the call returned, so the
  comparison can only hide, never invent, a violation.

C08 — the worker always makes progress (OTLP parts).
  (a) after the `Otlp` emitter is dropped the `emit_otlp_worker` thread disappears from
      `/proc/self/task/<tid>/comm` (bounded poll; the watchdog only yields `inconclusive`), and what
      was still queued at the drop has been delivered to a healthy collector once the thread is gone;
  (b) `blocking_flush` called from a plain thread, from a tokio multi-thread worker, inside
      `block_on` of a multi-thread runtime and inside a current-thread runtime returns without
      panicking (a panic is a violation; not returning within 100·T + 10 s is a violation).
  Part (a) counts threads by name, so the C08 scenarios run one at a time.
*/

#[path = "../shared/collector.rs"]
mod collector;

use std::{
    collections::{BTreeSet, HashMap},
    sync::{Arc, Mutex},
    time::{Duration, Instant},
};

use collector::*;
use emit::Emitter as _;
use vcommon::*;

#[derive(Clone, Copy, Debug, PartialEq, Eq, Hash)]
enum EvKind {
    Log,
    Span,
    Metric,
}

fn expected_signal(kind: EvKind, subset: u8) -> Option<Signal> {
    let has = |s: Signal| subset & s.bit() != 0;
    match kind {
        EvKind::Span if has(Signal::Traces) => Some(Signal::Traces),
        EvKind::Metric if has(Signal::Metrics) => Some(Signal::Metrics),
        _ if has(Signal::Logs) => Some(Signal::Logs),
        _ => None,
    }
}

fn emit_ev(otlp: &emit_otlp::Otlp, vid: u64, kind: EvKind, pad: &str) {
    use emit::Value;
    let name = format!("v{}", vid);
    let tpl = emit::Template::literal_ref(&name);
    let mdl = emit::Path::new_raw("verif::e2e");
    let kind_span = emit::Kind::Span;
    let kind_metric = emit::Kind::Metric;
    match kind {
        EvKind::Log => {
            let props = [("vid", Value::from(vid as i64)), ("pad", Value::from(pad))];
            otlp.emit(emit::Event::new(mdl, tpl, emit::Extent::point(ts(vid % 1000, 1)), &props[..]));
        }
        EvKind::Span => {
            let props = [("evt_kind", Value::from_any(&kind_span)), ("vid", Value::from(vid as i64)), ("pad", Value::from(pad))];
            otlp.emit(emit::Event::new(mdl, tpl, emit::Extent::range(ts(vid % 1000, 1)..ts(vid % 1000 + 1, 2)), &props[..]));
        }
        EvKind::Metric => {
            let props = [
                ("evt_kind", Value::from_any(&kind_metric)),
                ("vid", Value::from(vid as i64)),
                ("metric_agg", Value::from("count")),
                ("metric_value", Value::from(1)),
                ("pad", Value::from(pad)),
            ];
            otlp.emit(emit::Event::new(mdl, tpl, emit::Extent::point(ts(vid % 1000, 1)), &props[..]));
        }
    }
}

fn vids_of(records: &[Record]) -> HashMap<usize, BTreeSet<u64>> {
    let mut m = HashMap::new();
    for rec in records {
        if rec.body.is_some() {
            if let Ok(items) = rec.items() {
                m.insert(rec.idx, items.iter().filter_map(|i| i.vid()).collect());
            }
        }
    }
    m
}

// ---------------------------------------------------------------------------
// C07
// ---------------------------------------------------------------------------

struct Flush {
    call: u64,
    ret: u64,
    ok: bool,
}

fn c07_scenario(r: &mut Report, seed: u64, case: u64) {
    r.eval();
    let mut g = Rng::stream(seed, &[7, 12, case]);
    let transport = Transport::ALL[(case % 3) as usize];
    let gzip = case / 3 % 2 == 0;
    let subset = (case / 6 % 7 + 1) as u8;
    let tname = transport.name();
    // collector scripts: delays that widen the window between "request sent" and "answered", a few failures
    let mut cfgs = Vec::new();
    let mut script_names = Vec::new();
    for s in Signal::ALL {
        if subset & s.bit() == 0 {
            continue;
        }
        let mut script = Vec::new();
        let mut faults = 0;
        for _ in 0..120 {
            let d = match g.below(10) {
                0 if faults < 2 => {
                    faults += 1;
                    match g.below(3) {
                        0 => Decision::DropAfterRead,
                        1 => Decision::DropBeforeBody,
                        _ => {
                            if transport == Transport::Grpc {
                                Decision::GrpcStatus(14, GrpcForm::Trailers)
                            } else {
                                Decision::Status(503)
                            }
                        }
                    }
                }
                1..=6 => Decision::DelayAck(g.range(1, 25) as u32),
                _ => Decision::Ack(200),
            };
            script.push(d);
        }
        script_names.push(format!("{}:{}", s.name(), script.iter().take(8).map(|d| d.name()).collect::<Vec<_>>().join(",")));
        cfgs.push(EndpointCfg { signal: s, wire: transport.wire(), listen: true, script });
    }
    let col = Collector::start(cfgs);
    let otlp = build_otlp(&col, transport, gzip, subset);
    let kinds: Vec<EvKind> = [EvKind::Log, EvKind::Span, EvKind::Metric].into_iter().filter(|k| expected_signal(*k, subset).is_some()).collect();

    let n_emitters = 2 + g.usize(2);
    let n_flushers = 1 + g.usize(2);
    let per_emitter = 120 + g.usize(200);
    let big_pad: String = "p".repeat(300_000);
    let emitted: Mutex<Vec<(u64, u64)>> = Mutex::new(Vec::new()); // (vid, stamp after emit returned)
    let flushes: Mutex<Vec<Flush>> = Mutex::new(Vec::new());
    let seeds: Vec<u64> = (0..(n_emitters + n_flushers)).map(|_| g.next()).collect();

    std::thread::scope(|scope| {
        for e in 0..n_emitters {
            let (otlp, emitted, kinds, big_pad) = (&otlp, &emitted, &kinds, &big_pad);
            let mut g = Rng(seeds[e]);
            scope.spawn(move || {
                let mut mine = Vec::new();
                for k in 0..per_emitter {
                    let vid = case * 1_000_000 + (e as u64) * 10_000 + k as u64;
                    let kind = *g.pick(kinds);
                    // a few big events so that some batches are split into several requests
                    let pad = if g.chance(1, 12) { &big_pad[..] } else { &big_pad[..g.usize(64)] };
                    emit_ev(otlp, vid, kind, pad);
                    mine.push((vid, stamp()));
                    match g.below(6) {
                        0 | 1 => std::thread::sleep(Duration::from_micros(g.range(50, 2_500))),
                        2 => std::thread::yield_now(),
                        _ => {}
                    }
                }
                emitted.lock().unwrap().extend(mine);
            });
        }
        for f in 0..n_flushers {
            let (otlp, flushes) = (&otlp, &flushes);
            let mut g = Rng(seeds[n_emitters + f]);
            scope.spawn(move || {
                for _ in 0..(4 + g.usize(5)) {
                    std::thread::sleep(Duration::from_micros(g.range(100, 12_000)));
                    let call = stamp();
                    let ok = otlp.blocking_flush(Duration::from_secs(30));
                    let ret = stamp();
                    flushes.lock().unwrap().push(Flush { call, ret, ok });
                }
            });
        }
    });
    // a final flush after everything was emitted
    {
        let call = stamp();
        let ok = otlp.blocking_flush(Duration::from_secs(30));
        let ret = stamp();
        flushes.lock().unwrap().push(Flush { call, ret, ok });
    }
    col.settle();
    let records = col.records();
    let vidsets = vids_of(&records);
    let emitted = emitted.into_inner().unwrap();
    let flushes = flushes.into_inner().unwrap();
    r.observe("otlp:events-emitted", emitted.len() as u64);
    r.observe("otlp:requests-recorded", records.len() as u64);
    r.observe("otlp:flush-calls", flushes.len() as u64);
    r.observe("otlp:collector-faults-hit", records.iter().filter(|rec| rec.decision.is_fault()).count() as u64);
    r.observe("otlp:delayed-acknowledgements", records.iter().filter(|rec| matches!(rec.decision, Decision::DelayAck(_))).count() as u64);

    if Signal::ALL.iter().any(|s| records.iter().filter(|rec| rec.endpoint == *s && !rec.acked()).count() > 9) {
        r.inconclusive("an endpoint saw more unacknowledged requests than the retry budget; scenario not judged");
        return;
    }
    // vid -> stamp at which the collector began the first acknowledging response that contains it
    let mut ack_stamp: HashMap<u64, u64> = HashMap::new();
    for rec in records.iter().filter(|rec| rec.acked()) {
        if let (Some(set), Some(t)) = (vidsets.get(&rec.idx), rec.responding) {
            for v in set {
                let e = ack_stamp.entry(*v).or_insert(u64::MAX);
                *e = (*e).min(t);
            }
        }
    }
    let first_emit = emitted.iter().map(|e| e.1).min().unwrap_or(0);
    let last_emit = emitted.iter().map(|e| e.1).max().unwrap_or(0);
    let case_json = |detail: Json| json!({"seed": seed, "case": case, "transport": tname, "gzip": gzip, "subset": subset_name(subset), "scripts": script_names, "detail": detail});
    for (fi, f) in flushes.iter().enumerate() {
        if !f.ok {
            r.observe("otlp:flush-returned-false", 1);
            r.inconclusive("an OTLP blocking_flush returned false (30 s)");
            continue;
        }
        r.observe("otlp:flush-returned-true", 1);
        // one evaluation = one successful flush judged against the collector's stamps
        r.eval();
        let before: Vec<&(u64, u64)> = emitted.iter().filter(|e| e.1 < f.call).collect();
        r.observe("otlp:events-covered-by-a-flush", before.len() as u64);
        if f.call > first_emit && f.call < last_emit && !before.is_empty() {
            // the flush raced with emission
            r.nontrivial(&("c07-otlp", case, fi));
            r.observe("otlp:flushes-racing-with-emitters", 1);
        }
        let mut late = 0u64;
        let mut never = 0u64;
        let mut witness = None;
        for (vid, at) in before {
            match ack_stamp.get(vid) {
                Some(t) if *t < f.ret => {}
                Some(t) => {
                    late += 1;
                    witness.get_or_insert((*vid, *at, Some(*t)));
                }
                None => {
                    never += 1;
                    witness.get_or_insert((*vid, *at, None));
                }
            }
        }
        if late + never > 0 {
            let (vid, at, t) = witness.unwrap();
            r.violation(
                &format!("C07:otlp:flush-returned-before-acknowledgement:{}:{}", tname, if never > 0 { "not-acknowledged-by-the-end-of-the-scenario" } else { "acknowledged-after-flush-returned" }),
                &format!(
                    "blocking_flush (called at stamp {}, returned true at {}) although {} events emitted before it were acknowledged only later and {} never; e.g. v{} emitted at {} acknowledged at {:?}",
                    f.call, f.ret, late, never, vid, at, t
                ),
                case_json(json!({"flush_call": f.call, "flush_return": f.ret, "vid": vid, "emitted_at": at, "acknowledged_at": t, "late": late, "never": never})),
            );
        }
    }
    if r.wants_sample() && case < 3 {
        let n = emitted.len();
        let fl: Vec<Json> = flushes.iter().map(|f| json!({"call": f.call, "return": f.ret, "ok": f.ok})).collect();
        let nreq = records.len();
        r.sample(move || json!({"case": case, "transport": tname, "subset": subset_name(subset), "emitted": n, "requests": nreq, "flushes": fl}));
    }
    drop(otlp);
    drop(col);
}

// ---------------------------------------------------------------------------
// C08
// ---------------------------------------------------------------------------

const WORKER: &str = "emit_otlp_worke"; // comm is truncated to 15 bytes

fn wait_threads(want: usize, max: Duration) -> bool {
    let t0 = Instant::now();
    loop {
        if threads_named(WORKER) == want {
            return true;
        }
        if t0.elapsed() > max {
            return false;
        }
        std::thread::sleep(Duration::from_millis(2));
    }
}

#[derive(Clone, Copy, Debug, PartialEq, Eq, Hash)]
enum DropState {
    /// everything flushed before the drop
    Flushed,
    /// events still queued (a request is being held by the collector) when the emitter is dropped
    Queued,
    /// nothing was ever emitted
    Unused,
    /// one endpoint refuses connections; events for it are queued / being retried
    Outage,
}

fn c08_drop_scenario(r: &mut Report, seed: u64, case: u64) {
    r.eval();
    let mut g = Rng::stream(seed, &[8, 12, case]);
    let transport = Transport::ALL[(case % 3) as usize];
    let subset = (case / 3 % 8) as u8;
    let state = [DropState::Flushed, DropState::Queued, DropState::Unused, DropState::Outage][(case / 24 % 4) as usize];
    let tname = transport.name();
    let configured: Vec<Signal> = Signal::ALL.into_iter().filter(|s| subset & s.bit() != 0).collect();
    let state = if configured.is_empty() && state != DropState::Unused { DropState::Flushed } else { state };
    let dead = if state == DropState::Outage { Some(*g.pick(&configured)) } else { None };
    let case_json = |detail: Json| json!({"seed": seed, "case": case, "part": "drop", "transport": tname, "subset": subset_name(subset), "state": format!("{:?}", state), "dead": dead.map(|s| s.name()), "detail": detail});

    // (a thread names itself only once it runs, so a short-lived worker of the previous scenario may
    // show up late: give it a moment to come and go)
    if !wait_threads(0, Duration::from_secs(20)) {
        r.inconclusive(format!("{} emit_otlp_worker thread(s) left over from an earlier scenario; thread accounting skipped", threads_named(WORKER)));
        return;
    }
    let cfgs = configured
        .iter()
        .map(|s| EndpointCfg {
            signal: *s,
            wire: transport.wire(),
            listen: dead != Some(*s),
            // Queued: the first request of every signal is held, so that what follows stays queued
            script: if state == DropState::Queued { vec![Decision::HoldAck(2_000)] } else { vec![] },
        })
        .collect();
    let col = Collector::start(cfgs);
    let otlp = build_otlp(&col, transport, g.bool(), subset);
    if configured.is_empty() {
        // without any signal the worker has nothing to wait for and may be gone before anybody looks
        r.observe("otlp:emitters-without-signals", 1);
    } else {
        if !wait_threads(1, Duration::from_secs(10)) {
            r.inconclusive("the emit_otlp_worker thread did not show up in /proc/self/task within 10 s");
            return;
        }
        r.observe("otlp:worker-threads-seen", 1);
    }
    let kinds: Vec<EvKind> = [EvKind::Log, EvKind::Span, EvKind::Metric].into_iter().filter(|k| expected_signal(*k, subset).is_some()).collect();
    let mut sent: Vec<(u64, Signal)> = Vec::new();
    if state != DropState::Unused && !kinds.is_empty() {
        let n = 6 + g.usize(30);
        for k in 0..n {
            let kind = if k < kinds.len() { kinds[k] } else { *g.pick(&kinds) };
            let vid = case * 100_000 + k as u64;
            emit_ev(&otlp, vid, kind, "x");
            sent.push((vid, expected_signal(kind, subset).unwrap()));
            if state == DropState::Queued && k + 1 == kinds.len() {
                // wait for the held first requests, then queue the rest behind them
                let live = configured.clone();
                col.wait_until(Duration::from_secs(10), |recs| live.iter().all(|s| recs.iter().any(|rec| rec.endpoint == *s && rec.body_read.is_some())));
            }
        }
    }
    if state == DropState::Flushed {
        let ok = otlp.blocking_flush(Duration::from_secs(30));
        if !ok {
            r.inconclusive("blocking_flush returned false before the drop");
        }
    }
    let dropped_at = Instant::now();
    drop(otlp);
    col.release_gate();
    // the worker has to notice the closed channels, deliver what is queued (an outage costs it the
    // whole retry budget) and return
    let gone = wait_threads(0, Duration::from_secs(60));
    if !gone {
        r.observe("otlp:worker-still-alive-at-watchdog", 1);
        r.inconclusive(format!("emit_otlp_worker still alive 60 s after the emitter was dropped ({} / {:?} / {})", tname, state, subset_name(subset)));
        col.shutdown();
        // give it a chance to go away before the next scenario counts threads
        wait_threads(0, Duration::from_secs(30));
        return;
    }
    r.observe("otlp:worker-threads-gone-after-drop", 1);
    let exit_ms = dropped_at.elapsed().as_millis() as u64;
    let prev = r.extra.get("max_worker_exit_ms").and_then(|v| v.as_u64()).unwrap_or(0);
    r.set("max_worker_exit_ms", json!(prev.max(exit_ms)));
    r.nontrivial(&("c08-drop", tname, subset, state, dead));
    // what was queued at the drop has been delivered (healthy endpoints only)
    col.settle();
    let records = col.records();
    let vidsets = vids_of(&records);
    let delivered: BTreeSet<u64> = records.iter().filter(|rec| rec.acked()).filter_map(|rec| vidsets.get(&rec.idx)).flatten().copied().collect();
    let missing: Vec<(u64, Signal)> = sent.iter().filter(|(v, s)| Some(*s) != dead && !delivered.contains(v)).copied().collect();
    r.observe("otlp:events-queued-at-drop-accounted", (sent.len() - missing.len()) as u64);
    if !missing.is_empty() {
        let sigs: BTreeSet<&str> = missing.iter().map(|(_, s)| s.name()).collect();
        r.violation(
            &format!("C08:otlp:worker-exits-without-delivering-queued-events:{}", if configured.len() > 1 { "several-signals" } else { "single-signal" }),
            &format!(
                "the emit_otlp_worker thread is gone but {} of {} events that were queued when the emitter was dropped ({:?}, {} signals configured{}) never reached their healthy endpoint; missing on {:?}",
                missing.len(),
                sent.len(),
                state,
                configured.len(),
                dead.map(|d| format!(", {} endpoint refusing", d.name())).unwrap_or_default(),
                sigs
            ),
            case_json(json!({"missing": missing.iter().take(10).map(|(v, s)| json!([v, s.name()])).collect::<Vec<_>>(),
                "requests": records.iter().map(|rec| rec.brief()).collect::<Vec<_>>()})),
        );
    }
}

#[derive(Clone, Copy, Debug, PartialEq, Eq, Hash)]
enum Ctx {
    PlainThread,
    MultiThreadWorker,
    MultiThreadBlockOn,
    CurrentThreadBlockOn,
    CurrentThreadSpawnLocalish,
}

const CTXS: [Ctx; 5] = [Ctx::PlainThread, Ctx::MultiThreadWorker, Ctx::MultiThreadBlockOn, Ctx::CurrentThreadBlockOn, Ctx::CurrentThreadSpawnLocalish];

#[derive(Clone, Copy, Debug, PartialEq, Eq, Hash)]
enum Pending {
    Nothing,
    Healthy,
    /// the endpoint refuses: the flush has to give up at its timeout
    Unreachable,
}

fn c08_ctx_scenario(r: &mut Report, seed: u64, case: u64) {
    r.eval();
    let ctx = CTXS[(case % 5) as usize];
    let pending = [Pending::Nothing, Pending::Healthy, Pending::Unreachable][(case / 5 % 3) as usize];
    let transport = Transport::ALL[(case / 15 % 3) as usize];
    let subset = [1u8, 7, 6, 3][(case / 45 % 4) as usize];
    let tname = transport.name();
    let t = Duration::from_millis(300);
    let case_json = || json!({"seed": seed, "case": case, "part": "calling-context", "context": format!("{:?}", ctx), "pending": format!("{:?}", pending), "transport": tname, "subset": subset_name(subset)});
    let cfgs = Signal::ALL
        .into_iter()
        .filter(|s| subset & s.bit() != 0)
        .map(|s| EndpointCfg { signal: s, wire: transport.wire(), listen: pending != Pending::Unreachable, script: vec![] })
        .collect();
    let col = Collector::start(cfgs);
    let otlp = Arc::new(build_otlp(&col, transport, true, subset));
    if pending != Pending::Nothing {
        for k in 0..10u64 {
            let kind = [EvKind::Log, EvKind::Span, EvKind::Metric][(k % 3) as usize];
            if expected_signal(kind, subset).is_some() {
                emit_ev(&otlp, case * 1000 + k, kind, "x");
            }
        }
    }
    let (tx, rx) = std::sync::mpsc::channel::<Result<bool, String>>();
    let o = otlp.clone();
    let timeout = if pending == Pending::Unreachable { t } else { Duration::from_secs(20) };
    let started = Instant::now();
    let handle = std::thread::Builder::new()
        .name("c08_ctx".into())
        .spawn(move || {
            let res = catch(move || match ctx {
                Ctx::PlainThread => o.blocking_flush(timeout),
                Ctx::MultiThreadWorker => {
                    let rt = tokio::runtime::Builder::new_multi_thread().worker_threads(2).enable_all().build().unwrap();
                    let h = rt.spawn(async move { o.blocking_flush(timeout) });
                    match rt.block_on(h) {
                        Ok(v) => v,
                        Err(e) => {
                            if e.is_panic() {
                                std::panic::resume_unwind(e.into_panic())
                            } else {
                                panic!("task cancelled")
                            }
                        }
                    }
                }
                Ctx::MultiThreadBlockOn => {
                    let rt = tokio::runtime::Builder::new_multi_thread().worker_threads(2).enable_all().build().unwrap();
                    rt.block_on(async move { o.blocking_flush(timeout) })
                }
                Ctx::CurrentThreadBlockOn => {
                    let rt = tokio::runtime::Builder::new_current_thread().enable_all().build().unwrap();
                    rt.block_on(async move { o.blocking_flush(timeout) })
                }
                Ctx::CurrentThreadSpawnLocalish => {
                    let rt = tokio::runtime::Builder::new_current_thread().enable_all().build().unwrap();
                    rt.block_on(async move {
                        let h = tokio::spawn(async move { o.blocking_flush(timeout) });
                        match h.await {
                            Ok(v) => v,
                            Err(e) => {
                                if e.is_panic() {
                                    std::panic::resume_unwind(e.into_panic())
                                } else {
                                    panic!("task cancelled")
                                }
                            }
                        }
                    })
                }
            });
            let _ = tx.send(res);
        })
        .unwrap();
    // 100 x the API's own timeout + 10 s: two orders of magnitude is not load
    let limit = timeout * 100 + Duration::from_secs(10);
    match rx.recv_timeout(limit) {
        Ok(Ok(v)) => {
            let _ = handle.join();
            r.observe(&format!("otlp:blocking-flush-returned-{}", v), 1);
            r.observe("otlp:calling-context-evaluations", 1);
            r.nontrivial(&("c08-ctx", ctx, pending, tname, subset));
            let took = started.elapsed();
            if pending == Pending::Unreachable && v {
                // nothing can have been delivered within the timeout: the retry budget alone takes longer
                r.observe("otlp:flush-true-although-unreachable", 1);
            }
            let _ = took;
        }
        Ok(Err(msg)) => {
            let _ = handle.join();
            r.nontrivial(&("c08-ctx", ctx, pending, tname, subset));
            r.violation(
                &format!("C08:otlp:blocking-flush-panicked:{:?}", ctx),
                &format!("Otlp::blocking_flush panicked when called from {:?}: {}", ctx, msg),
                case_json(),
            );
        }
        Err(_) => {
            r.violation(
                &format!("C08:otlp:blocking-flush-did-not-return:{:?}:{:?}", ctx, pending),
                &format!("Otlp::blocking_flush({:?}) called from {:?} did not return within {:?}", timeout, ctx, limit),
                case_json(),
            );
        }
    }
    drop(otlp);
    drop(col);
}

fn main() {
    let args = Args::parse();
    let prop = args.get("prop").unwrap_or("C07").to_string();
    let seed = args.seed;
    emit_batcher::verif::set_delay_divisor(100);

    if prop == "C08" {
        let mut r = Report::new(
            "C08",
            &args,
            "OTLP end-to-end: one evaluation = one emitter life cycle (spawn, emit, optional flush, drop, worker thread gone, queued events accounted) or one blocking_flush call from one calling context; \
             non-trivial = distinct (transport, signal subset, state at drop, outage) and (calling context, pending state, transport, subset) combinations",
        );
        if let Some(path) = &args.replay {
            let case = load_replay(path);
            let c = case.get("case").and_then(|v| v.as_u64()).unwrap_or(0);
            let s = case.get("seed").and_then(|v| v.as_u64()).unwrap_or(seed);
            if case.get("part").and_then(|v| v.as_str()) == Some("drop") {
                c08_drop_scenario(&mut r, s, c);
            } else {
                c08_ctx_scenario(&mut r, s, c);
            }
            std::process::exit(r.finish());
        }
        // calling contexts first (they leave no worker threads behind once their emitters are gone)
        let n_ctx = args.n(45, 180);
        for i in 0..n_ctx {
            c08_ctx_scenario(&mut r, seed, i);
        }
        if !wait_threads(0, Duration::from_secs(60)) {
            r.inconclusive("worker threads of the calling-context scenarios still alive after 60 s; drop scenarios skipped");
        } else {
            let n_drop = args.n(96, 384);
            for i in 0..n_drop {
                c08_drop_scenario(&mut r, seed, i);
            }
        }
        std::process::exit(r.finish());
    }

    let mut r = Report::new(
        "C07",
        &args,
        "OTLP end-to-end: one evaluation = one scenario (2-3 emitting threads, 1-2 flushing threads, collector answering with delays and a few failures) plus one per successful flush judged against the collector's stamps; \
         non-trivial = distinct successful flushes that raced with emission (called between the first and the last emit) and covered at least one event",
    );
    if let Some(path) = &args.replay {
        let case = load_replay(path);
        let c = case.get("case").and_then(|v| v.as_u64()).unwrap_or(0);
        let s = case.get("seed").and_then(|v| v.as_u64()).unwrap_or(seed);
        for i in 0..3 {
            c07_scenario(&mut r, s, c);
            r.nontrivial(&("replay-run", i));
        }
        std::process::exit(r.finish());
    }
    let n = args.get_u64("scenarios", if args.thorough() { 1680 } else { 42 });
    let n = (n * args.scale / 100).max(1);
    par_cases(&mut r, &args, n, |i, r| c07_scenario(r, seed, i));
    std::process::exit(r.finish());
}
