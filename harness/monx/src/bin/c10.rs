/*!
C10 — rolling files: acknowledged events are durable and no record is ever mangled.

Instrument: the real `emit_file` worker (`VerifWorker`, hook H-F) over the fault-injecting
in-memory filesystem of `shared/fakefs.rs`. The harness plays the batcher: on `Err(Some(rem))`
it re-submits exactly `rem` (bounded), on `Err(None)` the batch is given up (not acknowledged).

Workload: seeded histories of 1–12 batches (1–8 self-describing records `id:len:payload` + separator
each, payload 0 B–4 KiB, never containing the separator byte), clock advances, clean restarts
with and without `reuse_files`. For every history a fault-free run counts the filesystem
operations; then **every op index × every fault kind** is replayed (error; for writes: three
"short write then error" splits and a benign short write; crash × {lose all unsynced, keep all,
seeded prefix} × {restart with reuse, restart without}), plus seeded sequences of 2–3 faults.

Oracle, evaluated after every `on_batch` attempt, after every restart and after every crash:
 (1) every record of every batch whose retry chain ended `Ok` is a complete, byte-identical record
     (body + separator) inside the *synced* bytes of some file (or of a file that retention later
     deleted through the API);
 (2) splitting every file (synced + unsynced) on the separator, each piece is empty, a complete
     submitted record, or a proper prefix of one submitted record that ends exactly at a logged
     cut (interrupted write / crash truncation) whose lost bytes complete that same record;
 (3) records of a batch that failed and was retried to `Ok` are present complete on a clean
     boundary (a consequence of 1+2, counted separately as evidence).
*/

#[path = "../shared/fakefs.rs"]
mod fakefs;

use std::collections::{HashMap, HashSet};

use fakefs::*;
use vcommon::rec::FakeClock;
use vcommon::*;

const SEPS: [&[u8]; 4] = [b"\n", b"\x1e", b"|", b"\0"];
const MAX_RETRIES: usize = 6;

#[derive(Clone, Debug)]
enum Step {
    Batch { adv_ms: u64, retry_adv_ms: u64, recs: Vec<usize> },
    Restart { reuse: bool },
}

struct Hist {
    idx: u64,
    cfg: Cfg,
    reuse0: bool,
    start: u64,
    dir_exists: bool,
    steps: Vec<Step>,
    /// all records, separator included; index = record id
    recs: Vec<Vec<u8>>,
    /// pre-existing (empty) members of the set, dated in the future of the whole history
    pre: Vec<String>,
}

fn gen_history(seed: u64, idx: u64) -> Hist {
    let mut g = Rng::stream(seed, &[10, 1, idx]);
    let sep: &'static [u8] = if idx % 2 == 0 { SEPS[0] } else { SEPS[1 + g.usize(3)] };
    let sepb = sep[0];
    let max_size = *g.pick(&[48usize, 300, 2_000, 9_000, 1 << 20, 1 << 30]);
    let max_files = if g.chance(1, 4) { 2 + g.usize(3) } else { 1000 };
    let roll = *g.pick(&[Roll::Minute, Roll::Minute, Roll::Hour, Roll::Day]);
    let cfg = Cfg { dir: "logs".into(), prefix: "app".into(), ext: "log".into(), roll, max_files, max_size, sep };
    // 2024-02-29T23:58:30Z plus up to two minutes, so minute/hour/day boundaries are close
    let start = (days_from_civil(2024, 2, 29) as u64 * 86_400 + 86_400 - 90) * 1_000_000_000 + g.below(120_000) * 1_000_000;
    let n_batches = 1 + g.usize(12);
    let mut steps = Vec::new();
    let mut recs: Vec<Vec<u8>> = Vec::new();
    for b in 0..n_batches {
        if b > 0 && g.chance(1, 5) {
            steps.push(Step::Restart { reuse: g.bool() });
        }
        let n = match g.below(4) {
            0 => 1,
            1 => 2,
            _ => 1 + g.usize(8),
        };
        let mut ids = Vec::new();
        for k in 0..n {
            let plen = match g.below(8) {
                0 => 0,
                1 => 1,
                2 | 3 => g.usize(16),
                4 | 5 => g.usize(200),
                6 => g.usize(1024),
                _ => g.usize(4097),
            };
            let mut rec = format!("{:x}.{:x}:{}:", b, k, plen).into_bytes();
            let ascii = g.bool();
            for _ in 0..plen {
                let mut c = if ascii { 0x20 + g.below(95) as u8 } else { g.below(256) as u8 };
                if c == sepb {
                    c = b'_';
                }
                rec.push(c);
            }
            rec.push(sepb);
            ids.push(recs.len());
            recs.push(rec);
        }
        let adv_ms = match g.below(6) {
            0 => 0,
            1 | 2 => g.below(50),
            3 => g.below(30_000),
            4 => 60_000 + g.below(60_000),
            _ => g.below(5_000_000),
        };
        let retry_adv_ms = *g.pick(&[0u64, 0, 7, 700, 61_000]);
        steps.push(Step::Batch { adv_ms, retry_adv_ms, recs: ids });
    }
    // full sets whose members all sort AFTER anything the history creates: the new file is the oldest by name
    let mut pre = Vec::new();
    if cfg.max_files <= 4 && g.chance(1, 2) {
        for k in 0..1 + g.usize(cfg.max_files) {
            let t = start + (400 + k as u64) * 86_400_000_000_000;
            let (p, ms) = period_of(cfg.roll, t);
            pre.push(format!("app.{}.{:08}.{:08x}.log", p, ms, 0xf000_0000u32 + k as u32));
        }
    }
    Hist { idx, cfg, reuse0: g.bool(), start, dir_exists: g.bool(), steps, recs, pre }
}

/// Tiny histories (2-3 batches of 1-2 small records, reuse on for even indices) for the exhaustive
/// two-fault enumeration.
fn gen_tiny(seed: u64, idx: u64) -> Hist {
    let mut g = Rng::stream(seed, &[10, 7, idx]);
    let sep: &'static [u8] = if idx % 4 < 2 { SEPS[0] } else { SEPS[1] };
    let cfg = Cfg {
        dir: "logs".into(),
        prefix: "app".into(),
        ext: "log".into(),
        roll: Roll::Minute,
        max_files: if idx % 3 == 2 { 2 } else { 1000 },
        max_size: *g.pick(&[40usize, 1 << 20]),
        sep,
    };
    let start = (days_from_civil(2024, 2, 29) as u64 * 86_400 + 86_400 - 2) * 1_000_000_000;
    let mut steps = Vec::new();
    let mut recs: Vec<Vec<u8>> = Vec::new();
    let n_batches = 2 + g.usize(2);
    for b in 0..n_batches {
        if b > 0 && g.chance(1, 4) {
            steps.push(Step::Restart { reuse: g.bool() });
        }
        let mut ids = Vec::new();
        for k in 0..1 + g.usize(2) {
            let plen = g.usize(24);
            let mut rec = format!("{:x}.{:x}:{}:", b, k, plen).into_bytes();
            for _ in 0..plen {
                rec.push(b'a' + g.below(26) as u8);
            }
            rec.push(sep[0]);
            ids.push(recs.len());
            recs.push(rec);
        }
        steps.push(Step::Batch { adv_ms: *g.pick(&[0u64, 5, 1_500, 61_000]), retry_adv_ms: *g.pick(&[0u64, 7]), recs: ids });
    }
    let mut pre = Vec::new();
    if cfg.max_files == 2 && g.bool() {
        for k in 0..2u64 {
            let (p, ms) = period_of(cfg.roll, start + (9 + k) * 86_400_000_000_000);
            pre.push(format!("app.{}.{:08}.{:08x}.log", p, ms, 0xf000_0000u32 + k as u32));
        }
    }
    Hist { idx: 1_000_000 + idx, cfg, reuse0: idx % 2 == 0, start, dir_exists: g.bool(), steps, recs, pre }
}

impl Hist {
    fn to_json(&self) -> Json {
        json!({
            "config": self.cfg.to_json(), "reuse_files": self.reuse0, "start_unix_nanos": self.start,
            "dir_exists": self.dir_exists, "pre_existing_future_dated_members": self.pre,
            "steps": self.steps.iter().map(|s| match s {
                Step::Batch { adv_ms, retry_adv_ms, recs } => json!({"batch": recs.iter().map(|r| self.recs[*r].len()).collect::<Vec<_>>(),
                    "clock_advance_ms": adv_ms, "retry_advance_ms": retry_adv_ms}),
                Step::Restart { reuse } => json!({"restart": {"reuse_files": reuse}}),
            }).collect::<Vec<_>>(),
        })
    }
}

#[derive(Clone, Debug)]
struct Plan {
    faults: Vec<Fault>,
    loss: Loss,
    crash_reuse: bool,
    loss_seed: u64,
}

impl Plan {
    fn none() -> Plan {
        Plan { faults: Vec::new(), loss: Loss::All, crash_reuse: false, loss_seed: 0 }
    }

    fn to_json(&self) -> Json {
        json!({"faults": self.faults.iter().map(|f| json!([f.at, f.kind.name()])).collect::<Vec<_>>(),
               "loss": self.loss.name(), "crash_restart_reuse": self.crash_reuse, "loss_seed": self.loss_seed})
    }

    fn from_json(j: &Json) -> Option<Plan> {
        let faults = j
            .get("faults")?
            .as_array()?
            .iter()
            .filter_map(|f| Some(Fault { at: f.get(0)?.as_u64()? as usize, kind: FaultKind::from_name(f.get(1)?.as_str()?)? }))
            .collect();
        Some(Plan {
            faults,
            loss: Loss::from_name(j.get("loss")?.as_str()?)?,
            crash_reuse: j.get("crash_restart_reuse")?.as_bool()?,
            loss_seed: j.get("loss_seed")?.as_u64()?,
        })
    }
}

struct Outcome {
    ops: usize,
    hits: Vec<(usize, FaultKind, OpKind)>,
    /// (oracle, message)
    problems: Vec<(&'static str, String)>,
    acked_batches: u64,
    failed_then_ok: u64,
    given_up: u64,
    crashes: u64,
    retried_records_verified: u64,
    pieces_checked: u64,
    truncated_pieces_justified: u64,
    op_kinds: Vec<OpKind>,
}

struct Oracle<'a> {
    h: &'a Hist,
    /// body (without separator) -> record id
    bodies: HashMap<&'a [u8], usize>,
    grave_seen: usize,
    /// record id -> latest batch number in which a file holding it (complete, synced) was deleted through the API
    grave_durable: HashMap<usize, u64>,
}

impl<'a> Oracle<'a> {
    fn new(h: &'a Hist) -> Self {
        let mut bodies = HashMap::new();
        for (i, r) in h.recs.iter().enumerate() {
            bodies.insert(&r[..r.len() - 1], i);
        }
        Oracle { h, bodies, grave_seen: 0, grave_durable: HashMap::new() }
    }

    /// Returns the set of records that are complete inside synced bytes.
    fn check(&mut self, fs: &FakeFs, acked: &[Option<u64>], out: &mut Outcome, when: &str) -> HashSet<usize> {
        let sep = self.h.cfg.sep[0];
        let st = fs.lock();
        let mut durable: HashSet<usize> = HashSet::new();
        // graveyard: a file deleted through the API keeps counting for (1) with what was synced then, but only
        // for records acknowledged by an EARLIER batch than the one that deleted it: a record acknowledged
        // by batch k has to sit in an existing file when batch k returns
        while self.grave_seen < st.graveyard.len() {
            let (_, bytes, tag) = &st.graveyard[self.grave_seen];
            let deleted_in_batch = *tag / 16;
            let mut s = 0;
            for (i, b) in bytes.iter().enumerate() {
                if *b == sep {
                    if let Some(id) = self.bodies.get(&bytes[s..i]) {
                        let e = self.grave_durable.entry(*id).or_insert(0);
                        *e = (*e).max(deleted_in_batch);
                    }
                    s = i + 1;
                }
            }
            self.grave_seen += 1;
        }
        for (path, node) in st.files.iter() {
            let content = node.content();
            let synced = node.synced.len();
            let mut s = 0usize;
            let mut i = 0usize;
            loop {
                let terminated = i < content.len();
                if i == content.len() || content[i] == sep {
                    let piece = &content[s..i];
                    out.pieces_checked += 1;
                    if !piece.is_empty() {
                        let complete = if terminated { self.bodies.get(piece).copied() } else { None };
                        if let Some(id) = complete {
                            if i + 1 <= synced {
                                durable.insert(id);
                            }
                        } else {
                            // must be a truncated record justified by a cut at exactly this offset
                            let mut justified = false;
                            for c in st.cuts.iter().filter(|c| c.path == *path && c.offset == i) {
                                let upto = c.rest.iter().position(|b| *b == sep).map(|p| p + 1).unwrap_or(c.rest.len());
                                let mut cand = piece.to_vec();
                                cand.extend_from_slice(&c.rest[..upto]);
                                if cand.last() == Some(&sep) && self.bodies.contains_key(&cand[..cand.len() - 1]) {
                                    justified = true;
                                    break;
                                }
                            }
                            if justified {
                                out.truncated_pieces_justified += 1;
                            } else if out.problems.len() < 4 {
                                let is_prefix = self.h.recs.iter().any(|r| r.len() > piece.len() && r.starts_with(piece));
                                let (oracle, desc) = if is_prefix {
                                    ("truncated-record-without-fault-at-offset", "is a proper prefix of a submitted record but no interrupted write / crash cut was logged at this offset")
                                } else {
                                    ("record-mangled", "is neither a submitted record nor a prefix of one (bytes of different records run together, or foreign bytes)")
                                };
                                out.problems.push((
                                    oracle,
                                    format!(
                                        "{}: file {} piece at [{}, {}) ({} bytes, starts {:?}) {}",
                                        when,
                                        path,
                                        s,
                                        i,
                                        piece.len(),
                                        show_bytes(&piece[..piece.len().min(24)]),
                                        desc
                                    ),
                                ));
                            }
                        }
                    }
                    s = i + 1;
                }
                if i >= content.len() {
                    break;
                }
                i += 1;
            }
        }
        // (1)
        for (id, a) in acked.iter().enumerate() {
            let Some(acked_in_batch) = *a else { continue };
            let deleted_later = self.grave_durable.get(&id).map(|d| *d > acked_in_batch).unwrap_or(false);
            if !durable.contains(&id) && !deleted_later {
                if out.problems.len() < 4 {
                    let rec = &self.h.recs[id];
                    let somewhere_unsynced = st.files.values().any(|n| {
                        let c = n.content();
                        c.windows(rec.len()).any(|w| w == &rec[..])
                    });
                    let vanished = st.vanished.iter().find(|(_, c)| c.windows(rec.len()).any(|w| w == &rec[..])).map(|(p, _)| p.clone());
                    let (oracle, detail) = if somewhere_unsynced {
                        ("ack-not-synced", "it exists only in unsynced bytes".to_string())
                    } else if let Some(p) = vanished {
                        let reused = st.log.iter().any(|o| o.kind == OpKind::OpenExisting && o.path == p && o.ok());
                        let syncdir_failed = st.log.iter().any(|o| o.kind == OpKind::SyncDir && o.path == p && !o.ok());
                        (
                            if reused && syncdir_failed {
                                "ack-lost:file-vanished-in-crash:reused-after-failed-sync-dir"
                            } else {
                                "ack-lost:file-vanished-in-crash:dir-entry-never-synced"
                            },
                            format!("it was synced into {} whose directory entry was never synced, so the file vanished in the crash", p),
                        )
                    } else if self.grave_durable.contains_key(&id) || st.orphans.iter().any(|(_, n)| n.content().windows(rec.len()).any(|w| w == &rec[..])) {
                        (
                            "ack-lost:file-deleted-by-the-acknowledging-batch",
                            "the file it was written to was deleted by retention during the very batch that acknowledged it (the data only exists in an unlinked file)".to_string(),
                        )
                    } else {
                        ("ack-lost", "it is in no file at all".to_string())
                    };
                    out.problems.push((
                        oracle,
                        format!(
                            "{}: record {:?} ({} bytes) of an acknowledged batch is not a complete record in synced content ({})",
                            when,
                            show_bytes(&rec[..rec.len().min(16)]),
                            rec.len(),
                            detail
                        ),
                    ));
                }
                break;
            }
        }
        durable
    }
}

fn run(h: &Hist, plan: &Plan) -> Outcome {
    let fs = FakeFs::new(h.idx * 7919 + 13);
    if h.dir_exists {
        fs.add_dir(&h.cfg.dir);
    }
    for name in &h.pre {
        fs.add_file(&format!("{}/{}", h.cfg.dir, name), b"");
    }
    fs.set_plan(plan.faults.clone());
    fs.set_sep(h.cfg.sep[0]);
    let clock = FakeClock::new(h.start);
    let ids = IdRng::new(h.idx + 1, IdMode::Counting);
    let mut rig = Rig::new(fs.clone(), clock.clone(), ids, h.cfg.clone());
    rig.start(h.reuse0);
    let mut loss_rng = Rng::stream(plan.loss_seed, &[10, 9, h.idx]);
    let mut out = Outcome {
        ops: 0,
        hits: Vec::new(),
        problems: Vec::new(),
        acked_batches: 0,
        failed_then_ok: 0,
        given_up: 0,
        crashes: 0,
        retried_records_verified: 0,
        pieces_checked: 0,
        truncated_pieces_justified: 0,
        op_kinds: Vec::new(),
    };
    let mut oracle = Oracle::new(h);
    let mut acked: Vec<Option<u64>> = vec![None; h.recs.len()];
    let mut batch_no = 0u64;
    'steps: for step in &h.steps {
        match step {
            Step::Restart { reuse } => {
                rig.start(*reuse);
                oracle.check(&fs, &acked, &mut out, "after restart");
            }
            Step::Batch { adv_ms, retry_adv_ms, recs } => {
                batch_no += 1;
                clock.advance(adv_ms * 1_000_000);
                let mut pending: Vec<Box<[u8]>> = recs.iter().map(|r| h.recs[*r].clone().into_boxed_slice()).collect();
                let mut attempts = 0usize;
                loop {
                    attempts += 1;
                    fs.set_tag(batch_no * 16 + attempts as u64);
                    let res = rig.attempt(std::mem::take(&mut pending));
                    let when = format!("batch {} attempt {} -> {}", batch_no, attempts, res.name());
                    match res {
                        Attempt::Ok => {
                            for r in recs {
                                acked[*r] = Some(batch_no);
                            }
                            out.acked_batches += 1;
                            let durable = oracle.check(&fs, &acked, &mut out, &when);
                            if attempts > 1 {
                                out.failed_then_ok += 1;
                                out.retried_records_verified += recs.iter().filter(|r| durable.contains(r)).count() as u64;
                            }
                            break;
                        }
                        Attempt::Retry(rem) => {
                            oracle.check(&fs, &acked, &mut out, &when);
                            if attempts > MAX_RETRIES {
                                out.given_up += 1;
                                break;
                            }
                            clock.advance(retry_adv_ms * 1_000_000);
                            pending = rem;
                        }
                        Attempt::GiveUp => {
                            out.given_up += 1;
                            oracle.check(&fs, &acked, &mut out, &when);
                            // A batch that failed mid-write has to be written again; only a failed
                            // flush / sync is documented as "not retried".
                            let (write_failed, sync_failed) = {
                                let st = fs.lock();
                                let tag = batch_no * 16 + attempts as u64;
                                let ops = st.log.iter().filter(|o| o.tag == tag && o.res == Res::InjectedErr);
                                let mut w = false;
                                let mut s = false;
                                for o in ops {
                                    w |= o.kind == OpKind::Write;
                                    s |= matches!(o.kind, OpKind::Flush | OpKind::Sync);
                                }
                                (w, s)
                            };
                            if write_failed && !sync_failed {
                                out.problems.push((
                                    "batch-dropped-after-write-failure",
                                    format!("{}: a write failed mid-batch and the worker gave the batch up instead of handing it back for a retry", when),
                                ));
                            }
                            break;
                        }
                        Attempt::Crash => {
                            out.crashes += 1;
                            fs.crash(plan.loss, &mut loss_rng);
                            oracle.check(&fs, &acked, &mut out, &format!("{} (after the crash, loss model {})", when, plan.loss.name()));
                            rig.start(plan.crash_reuse);
                            break;
                        }
                        Attempt::Panic(msg) => {
                            out.problems.push(("panic", format!("{}: the worker panicked: {}", when, msg)));
                            break 'steps;
                        }
                    }
                }
            }
        }
        if !out.problems.is_empty() {
            break;
        }
    }
    let st = fs.lock();
    out.ops = st.log.len();
    out.hits = st.hits.clone();
    out.op_kinds = st.log.iter().map(|o| o.kind).collect();
    out
}

fn fault_desc(out: &Outcome, plan: &Plan) -> String {
    if out.hits.is_empty() {
        return "no-fault".into();
    }
    let mut parts: Vec<String> = out.hits.iter().take(3).map(|(_, k, o)| format!("{}@{}", k.name(), o.name())).collect();
    if out.hits.iter().any(|(_, k, _)| *k == FaultKind::Crash) {
        parts.push(format!("restart={}", if plan.crash_reuse { "reuse" } else { "fresh" }));
    }
    parts.join("+")
}

fn evaluate(r: &mut Report, seed: u64, h: &Hist, plan: &Plan, variant: u64) -> Outcome {
    let out = run(h, plan);
    r.eval();
    r.observe("on_batch-acknowledged", out.acked_batches);
    r.observe("batches-failed-then-retried-to-ok", out.failed_then_ok);
    r.observe("batches-given-up", out.given_up);
    r.observe("crashes", out.crashes);
    r.observe("file-pieces-parsed", out.pieces_checked);
    r.observe("truncated-pieces-justified-by-a-cut", out.truncated_pieces_justified);
    r.observe("retried-records-found-complete-and-synced", out.retried_records_verified);
    for (at, k, o) in &out.hits {
        r.observe(&format!("fault-hit:{}@{}", k.name(), o.name()), 1);
        if plan.faults.len() == 1 {
            r.nontrivial(&(h.idx, *at, variant));
        }
    }
    if plan.faults.len() > 1 && out.hits.len() > 1 {
        r.nontrivial(&(h.idx, plan.faults.iter().map(|f| (f.at, f.kind)).collect::<Vec<_>>(), variant));
    }
    for (oracle, msg) in &out.problems {
        let sig = if oracle.starts_with("ack-lost:file-") { format!("C10:{}", oracle) } else { format!("C10:{}:{}", oracle, fault_desc(&out, plan)) };
        r.violation(
            &sig,
            msg,
            json!({"seed": seed, "history": h.idx, "plan": plan.to_json(), "history_detail": h.to_json()}),
        );
    }
    out
}

/// All single-fault plans for op `at` of kind `kind`: (plan, variant code).
fn plans_for(at: usize, kind: OpKind, h: &Hist) -> Vec<(Plan, u64)> {
    let mut v = Vec::new();
    let mk = |k: FaultKind, loss: Loss, reuse: bool| Plan { faults: vec![Fault { at, kind: k }], loss, crash_reuse: reuse, loss_seed: h.idx * 131 + at as u64 };
    v.push((mk(FaultKind::Error, Loss::All, false), 0));
    if kind == OpKind::Write {
        v.push((mk(FaultKind::ShortOne, Loss::All, false), 1));
        v.push((mk(FaultKind::ShortMost, Loss::All, false), 2));
        v.push((mk(FaultKind::ShortMid, Loss::All, true), 3));
        v.push((mk(FaultKind::ShortOk, Loss::All, false), 4));
    }
    let mut code = 10;
    for loss in [Loss::All, Loss::Nothing, Loss::Seeded] {
        for reuse in [true, false] {
            v.push((mk(FaultKind::Crash, loss, reuse), code));
            code += 1;
        }
    }
    v
}

fn main() {
    let args = Args::parse();
    let mut r = Report::new(
        "C10",
        &args,
        "one evaluation = one replay of a whole batch history under one fault plan with the durability/record oracle run after every attempt, restart and crash; \
         non-trivial = distinct (history, op index, fault kind variant) triples whose fault was actually injected while the worker was processing a batch \
         (records in flight), plus distinct multi-fault plans in which at least two faults were hit",
    );
    let seed = args.seed;

    if let Some(path) = &args.replay {
        let case = load_replay(path);
        let hidx = case.get("history").and_then(|v| v.as_u64()).unwrap_or(0);
        let cseed = case.get("seed").and_then(|v| v.as_u64()).unwrap_or(seed);
        let plan = case.get("plan").and_then(Plan::from_json).unwrap_or_else(Plan::none);
        let h = if hidx >= 1_000_000 { gen_tiny(cseed, hidx - 1_000_000) } else { gen_history(cseed, hidx) };
        evaluate(&mut r, cseed, &h, &plan, 0);
        evaluate(&mut r, cseed, &h, &Plan::none(), 99);
        r.observe("replay", 1);
        std::process::exit(r.finish());
    }

    let n_hist = args.n(400, 8_000);
    let n_multi = args.n(100, 300);
    r.set("histories", json!(n_hist));
    r.set("multi_fault_plans_per_history", json!(n_multi));
    r.set(
        "crash_model",
        json!("per file: synced bytes + {none | all | seeded prefix} of the unsynced bytes survive; files whose directory entry was never synced survive or vanish; unsynced deletions persist or are undone"),
    );

    par_cases(&mut r, &args, n_hist, |hi, r| {
        let h = gen_history(seed, hi);
        // pass 1: fault-free run (oracle on) to count the operations of this history
        let base = evaluate(r, seed, &h, &Plan::none(), 99);
        r.observe("fault-free-ops", base.ops as u64);
        if hi < 2 {
            let hj = h.to_json();
            let ops = base.ops;
            r.sample(move || json!({"history": hj, "fault_free_ops": ops}));
        }
        // pass 2: every op index x every fault kind
        for (at, kind) in base.op_kinds.iter().enumerate() {
            for (plan, variant) in plans_for(at, *kind, &h) {
                let out = evaluate(r, seed, &h, &plan, variant);
                if out.hits.is_empty() {
                    r.inconclusive(format!("history {} op {}: planned fault was never reached (run is not deterministic?)", h.idx, at));
                }
                if hi == 3 && at % 9 == 4 && variant % 5 == 0 && r.wants_sample() {
                    let (pj, hits) = (plan.to_json(), out.hits.iter().map(|(a, k, o)| json!([a, k.name(), o.name()])).collect::<Vec<_>>());
                    r.sample(move || json!({"history": 3, "plan": pj, "faults_hit": hits}));
                }
            }
        }
        // pass 3: seeded sequences of 2-3 faults
        let n_ops = base.ops;
        for m in 0..n_multi {
            let mut g = Rng::stream(seed, &[10, 3, h.idx, m]);
            let k = 2 + g.usize(2);
            let mut faults = Vec::new();
            let mut at = g.usize(n_ops.max(1));
            for _ in 0..k {
                let kind = *g.pick(&[
                    FaultKind::Error,
                    FaultKind::Error,
                    FaultKind::ShortOne,
                    FaultKind::ShortMid,
                    FaultKind::ShortMost,
                    FaultKind::ShortOk,
                    FaultKind::Crash,
                    FaultKind::Crash,
                ]);
                faults.push(Fault { at, kind });
                at += 1 + match g.below(3) {
                    0 => 0,
                    1 => g.usize(6),
                    _ => g.usize(n_ops.max(1)),
                };
            }
            let plan = Plan { faults, loss: *g.pick(&[Loss::All, Loss::Nothing, Loss::Seeded, Loss::Seeded]), crash_reuse: g.bool(), loss_seed: g.next() };
            evaluate(r, seed, &h, &plan, 1000 + m);
        }
    });
    r.exhaustive("for every generated history: every filesystem-operation index of its fault-free run x {error, 4 short-write splits on writes, crash x 3 loss models x 2 restart modes}");

    // pass 4: exhaustive pairs of faults on tiny histories (first an error / short write, then an
    // error or a crash at every later op index)
    let n_tiny = args.n(8, 64);
    par_cases(&mut r, &args, n_tiny, |ti, r| {
        let h = gen_tiny(seed, ti);
        let base = evaluate(r, seed, &h, &Plan::none(), 99);
        r.observe("fault-free-ops", base.ops as u64);
        if ti == 0 {
            let hj = h.to_json();
            r.sample(move || json!({"tiny_history": hj, "fault_free_ops": base.ops}));
        }
        for (i, kind) in base.op_kinds.iter().enumerate() {
            let firsts: &[FaultKind] = if *kind == OpKind::Write { &[FaultKind::Error, FaultKind::ShortMid] } else { &[FaultKind::Error] };
            for (fi, first) in firsts.iter().enumerate() {
                for j in i + 1..base.ops + 10 {
                    let mut variant = 2000 + fi as u64 * 16;
                    for (second, loss, reuse) in [
                        (FaultKind::Error, Loss::All, false),
                        (FaultKind::Crash, Loss::All, true),
                        (FaultKind::Crash, Loss::All, false),
                        (FaultKind::Crash, Loss::Nothing, true),
                        (FaultKind::Crash, Loss::Seeded, true),
                    ] {
                        variant += 1;
                        let plan = Plan {
                            faults: vec![Fault { at: i, kind: *first }, Fault { at: j, kind: second }],
                            loss,
                            crash_reuse: reuse,
                            loss_seed: (i * 1000 + j) as u64,
                        };
                        evaluate(r, seed, &h, &plan, variant);
                    }
                }
            }
        }
    });
    r.exhaustive("for every tiny history (2-3 batches): every ordered pair of op indices (i < j) x {error, short write} at i x {error, crash with 4 loss/restart variants} at j");

    std::process::exit(r.finish());
}
