fn main() {}
